"""C03 — a recipe without random functions has exactly one, documented, meaning.
The Coq interpreter (coq/theories/Interp.v) is the independent reference interpreter; the
differential against /repo is the property."""
from collections import Counter

from . import common as C
from . import sfcore as S

PROP = "C03"
MODEL = "Interp"
SHARD = 150
SKIPPED_FN = "case_unsupported"
DIFFERENTIAL_IS_PROPERTY = True
CASE_TIMEOUT = 30
RULE = ("random SF-core recipes (templates, counts, nested templates, friends, nicknames, forward/backward/"
        "dotted references, vars, options, hidden names, just_once, numeric-looking strings) in both formula "
        "dialects, 1-3 iterations; the complete typed row sequence delivered to write_row is compared with the "
        "Coq interpreter.  non-trivial: recipe uses >= 2 interacting features and is inside the modelled fragment "
        "of formulas; distinct by recipe hash")
TRUSTED = ["harness/sfcore.py: recipe AST -> YAML and AST -> Coq term printers; capture OutputStream"]
ASSUMPTIONS = ["Jinja evaluates the SF-core expression fragment as integer arithmetic / attribute lookup / "
               "string concatenation; PyYAML round-trips the generated recipe text",
               "recipes outside the modelled formula fragment evaluate to Unsupported in the model and are "
               "not compared (count reported as distribution.unsupported_estimate)"]


DIRECTED = [S.stream_dual_forward_underfilled, S.stream_first_statement_names, S.stream_first_statement_names, S.stream_late_forward_reference, S.stream_var_before_definition, S.stream_var_before_definition, S.stream_once_hidden,
            S.stream_idle_middle, S.stream_shared_nick_forward, S.stream_once_cluster, S.stream_captured_slot, S.stream_once_nick_like_once_table, S.stream_once_after_lookup, S.stream_once_idle_first, S.stream_constant_vars]


IMPORT_STATS = {}


def repo_recipes(tier):
    """recipes people wrote: every recipe file / documentation snippet of the repository that lies inside the
    SF-core fragment (harness/recipe_import.py, fail-closed), 1-3 iterations each"""
    import os
    from . import recipe_import as RI
    root = os.environ.get("SFV_REPO", "/repo")
    ok, why = RI.import_all(root)
    IMPORT_STATS.update({"imported": len(ok), "outside_fragment": why, "files": [p for p, _ in ok]})
    cases = []
    for path, r in ok:
        if S.uses_random(r):
            r["raw"], r["bias"] = [7, 1, 12, 5, 3, 8, 2, 11, 4, 9], "mix"
        for reps in ((1, 2) if tier == "quick" else (1, 2, 3)):
            cases.append({"recipe": r, "reps": reps, "features": ["repo_recipe"], "source": path})
    return cases


def generate(rng, tier):
    n = 450 if tier == "quick" else 12000
    cases = repo_recipes(tier)
    for _ in range(n):
        if rng.random() < 0.12:      # directed streams (DESIGN.md 11.4)
            r, feats = rng.choice(DIRECTED)(rng)
            cases.append({"recipe": r, "reps": rng.choice([2, 3, 3, 4]), "features": feats})
            continue
        r, feats = S.gen_recipe(rng, dict(case_twin=0.06, hidden_nick=0.06))
        if rng.random() < 0.25 and S.factor_into_macros(rng, r):
            feats = sorted(set(feats) | {"macro"})
        cases.append({"recipe": r, "reps": rng.choice([1, 1, 2, 3]), "features": feats})
    # a fixed share per directed stream (own rng; see harness/c02.py generate)
    import random
    rng2 = random.Random(rng.getrandbits(48) ^ 0xC03)
    for stream in sorted(set(DIRECTED), key=lambda f: f.__name__):
        for _ in range(8 if tier == "quick" else 100):
            r, feats = stream(rng2)
            cases.append({"recipe": r, "reps": rng2.choice([2, 3, 3, 4]), "features": feats})
    return cases


def run_impl(case):
    return S.run_recipe(case["recipe"], reps=case["reps"])


def coq_case(case, obs):
    if "ok" in obs:
        if not S.comparable(obs["ok"]):
            return None
        exp = f"(Ok {S.rows_coq(obs['ok'])})"
    else:
        exp = f"(Err {C.cerr(obs['err'])})"
    return f"CRun {S.recipe_coq(case['recipe'], S.obs_draws(obs))} {C.cnat(case['reps'])} {exp}"


def oracle(case, obs):
    # the differential against the reference interpreter is the property; the only direct
    # demand on the implementation alone is that errors are Snowfakery's own
    if "err" in obs and obs["err"] != "DGE":
        return f"internal-error: recipe in the core language failed with {obs['err']}: {obs.get('msg','')[:120]}"
    return None


def nontrivial(case, obs):
    return len(case.get("features", [])) >= 2 and "ok" in obs and len(obs["ok"]) >= 2


def stats(cases, obss):
    feats = Counter(f for c in cases for f in c.get("features", []))
    outcomes = Counter(("ok" if "ok" in o else o.get("err", "?")) for o in obss)
    rows = Counter(min(len(o.get("ok", [])), 20) // 5 * 5 for o in obss if "ok" in o)
    return {"features": dict(feats), "outcomes": dict(outcomes),
            "rows_per_recipe_bucket": {str(k): v for k, v in sorted(rows.items())},
            "versions": dict(Counter(c["recipe"]["version"] for c in cases)),
            "reps": dict(Counter(c["reps"] for c in cases)),
            "repo_recipes": dict(IMPORT_STATS,
                                 outcomes=dict(Counter(("ok" if "ok" in o else o.get("err", "?"))
                                                       for c, o in zip(cases, obss) if "repo_recipe" in c.get("features", []))))}


def shrink(case):
    r = case["recipe"]
    stmts = r["stmts"]
    for i in range(len(stmts)):
        if len(stmts) > 1:
            yield dict(case, recipe=dict(r, stmts=stmts[:i] + stmts[i + 1:]))
    if case["reps"] > 1:
        yield dict(case, reps=case["reps"] - 1)
    for i, s in enumerate(stmts):
        if s[0] == "obj":
            t = s[1]
            for j in range(len(t["fields"])):
                t2 = dict(t, fields=t["fields"][:j] + t["fields"][j + 1:])
                yield dict(case, recipe=dict(r, stmts=stmts[:i] + [["obj", t2]] + stmts[i + 1:]))
            if t["friends"]:
                for j in range(len(t["friends"])):
                    t2 = dict(t, friends=t["friends"][:j] + t["friends"][j + 1:])
                    yield dict(case, recipe=dict(r, stmts=stmts[:i] + [["obj", t2]] + stmts[i + 1:]))
            if t.get("count") is not None:
                yield dict(case, recipe=dict(r, stmts=stmts[:i] + [["obj", dict(t, count=None)]] + stmts[i + 1:]))


def match_finding(case, obs, msg, findings):
    return None
