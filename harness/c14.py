"""C14 — composition features are transparent: include_file, macros and options.
Implementation: snowfakery/parse_recipe_yaml.py (include_macro, parse_inclusions,
_dedupe_field_list, parse_object_template, parse_included_files, parse_top_level_elements,
parse_file, parse_recipe) and snowfakery/data_generator.py (merge_options);
model: coq/theories/Macros.v.

Three kinds of cases
  meta     an inline single-file recipe (no macros, no include_file) plus a factoring seed.  The
           harness factors it (a) into macros (nested includes, overriding junk definitions,
           shadowed macro definitions, friends moved into macros) and (b) additionally into a
           tree of include files.  By the property all three recipes must parse to the same
           templates and produce the same rows.  (metamorphic, on the implementation alone)
           + the parse result of the file tree is compared with the model (differential).
  tree     a random tree of files with random macros (duplicate names, cycles, unknown names),
           duplicate options, missing include files: parse result compared with the model.
  options  option declarations x user options: merge_options compared with the model, the rule
           of the property evaluated on merge_options' result and on the value `${{name}}` shows.
  names    ONE declared option whose name is drawn from the names a formula can see (built-in names
           id/count/child_index/this/today/now/fake/template, plugin names, standard function names,
           jinja globals, ordinary names), optionally also defined as a variable, a table name, a
           nickname, a friend's table name or a field of the reading row.  ${{name}} is read at
           several places (fields before/after the own field, friends, a later template, `count:`)
           in four formula shapes (one shows the value's type).  Oracle: where no closer scope defines the name the formula
           shows the supplied value, else the default; model: Macros.resolve (scope order).
  fs       a file system of recipe files (colliding base names in different directories, ./ and
           dir/../ spellings, files included twice, missing files, include cycles): parse result
           vs. the model's path resolution (Macros.fs_parse_recipe); rows vs. the single file
           obtained by writing every included file's content where its include_file line stands.
  session  several generations in ONE process: every step factors an inline recipe into a file
           tree written to the same paths as an earlier step (or the same relative paths in another
           directory), optionally a same-length edit of the previous step's recipe, optionally
           continuing the previous step's run; rows/parse result of every step compared with the
           inline recipe given as a stream, every step's parse result with the model.
  chain    the option rule over HISTORIES: 2-5 generate() calls in one process, every link with its
           own user options (each declared option supplied / left out with default / left out
           without default, falsy values) and usually the recipe of the link before it (sometimes
           another default, a default dropped or added); a link continues the last successful run
           before it (continuation file as text, as a file on disk, or through snowfakery.cli with
           --continuation-file / --option) or starts afresh.  Oracle: every row of every run shows,
           for every declared option, the value THIS run supplies, else the default THIS run's recipe
           declares; the run is a recipe error iff an option has neither.  Model: Macros.run_chain
           (theorems C14_chain_*): typed values the first row shows vs. chain_options.
"""
import copy
import io
import json
import os
import posixpath
import random
import shutil
import tempfile
from collections import Counter

from . import common as C

PROP = "C14"
MODEL = "Macros"
SHARD = 150
CASE_TIMEOUT = 30
RULE = ("cases: meta = inline recipe + random factoring into 1-4 (nested) macros with overriding "
        "definitions and into 1-3 (nested) include files (half of them with base names that collide "
        "between directories and ./, dir/../, // spellings of the path), parse results and rows of inline / "
        "macro-factored / file-factored compared with each other and the file tree's parse result "
        "with the model; tree = random file trees with duplicate/cyclic/unknown macros, duplicate "
        "options, missing files vs. the model; options = declarations x user values over "
        "{0,1,-1,False,True,'','0','x',None,absent}^2 (full grid) and random multi-option sets, "
        "merge_options vs. the model and the rule checked on merge_options and on ${{name}}; "
        "names = one option named like a built-in name (all 8, grid always present) / plugin / standard "
        "function / jinja global / ordinary name, optionally also a variable, table, nickname, friend "
        "table or own field, read through 4 formula shapes (one shows the type) at 5 places and in `count:`: shown value vs. "
        "the option rule where no closer scope defines the name, and vs. the model's scope order; "
        "fs = file systems with 1-6 included files in 4 directories, colliding base names, respelled "
        "paths, files included twice, missing files, cycles: parse result vs. the model's path "
        "resolution, rows vs. the OS-inlined single file; session = 2-4 generations in one process "
        "writing to the same paths (same-length edits, new recipes, unchanged, other directory, "
        "continued runs): every step vs. its inline recipe and vs. the model; chain = histories of 2-5 runs "
        "in one process (grid: default x what run 1 supplies x what the continued run 2 supplies; random: "
        "1-3 options, per link supplied / left out with or without default / falsy / repeated, declarations "
        "edited between links, links continued through text, a file or the command line, or fresh): every "
        "run's rows vs. the option rule on that run's own inputs, and vs. the model's run_chain.  "
        "non-trivial: the recipe uses >=1 macro include or >=1 include_file, an option case "
        "with >=1 declaration, a names case whose name another scope defines too, a session of >=2 "
        "steps with include files, a chain with a continued run that leaves out an option its history "
        "supplied; distinct by case hash")
TRUSTED = ["harness/c14.py: YAML writer for the generated file trees (yaml.safe_dump, temp dir under "
           "/var/tmp), canonical renderer of ParseResult statements (field name + definition text)",
           "harness/c14.py chain_decode: reading a typed option value off the pair (${{n}}, ${{n is string}};${{n is none}})",
           "harness/c14.py names_layers: which scopes hold the case's name at each place of the fixed "
           "recipe skeleton (the ORDER of the scopes is the model's); os_inline: the reference single "
           "file of a file-system case, include paths followed by the operating system"]
ASSUMPTIONS = ["the interpreter's rows are a function of ParseResult.statements / options "
               "(checked on every meta case by comparing rows, not proved)",
               "PyYAML round-trips the generated scalars and keeps mapping order",
               "no symbolic links below the recipe's directory; include_file paths that climb above "
               "the main recipe's directory are outside the model (Unsupported)",
               "names that jinja itself defines (true/false/none, loop, self, ...) are outside the scope model"]
EXHAUSTIVE = {"quick": False, "thorough": False}

VALS = [0, 1, -1, False, True, "", "0", "x", None]
ABSENT = "__absent__"
FIELD_POOL = list("abcdefgh")
TABLES = ["A", "B", "C", "D"]
VAR_POOL = ["v", "w"]
OPT_POOL = ["n", "k", "p"]
INC_STYLES = [", ", ",", " , ", ",  ", ",\t", " , , "]


# =================================================================== canonical renderings
def tag(v):
    """JSON-able typed value -> [tag, value]"""
    if v is None:
        return ["n"]
    if isinstance(v, bool):
        return ["b", v]
    if isinstance(v, int):
        return ["i", v]
    if isinstance(v, str):
        return ["s", v]
    return ["?", repr(v)]


def coval(t):
    if t[0] == "n":
        return "VNone"
    if t[0] == "b":
        return f"(VBool {C.cbool(t[1])})"
    if t[0] == "i":
        return f"(VInt {C.cz(t[1])})"
    if t[0] == "s":
        return f"(VStr {C.cstr(t[1])})"
    raise ValueError(t)


def rdef(v):
    """canonical text of a field definition as written in YAML (scalars and one-level
    structured values {fn: scalar | [scalars] | {k: scalar}})"""
    if v is None:
        return "n:"
    if isinstance(v, bool):
        return f"b:{v}"
    if isinstance(v, int):
        return f"i:{v}"
    if isinstance(v, str):
        return f"s:{v}"
    if isinstance(v, dict):
        [(fn, args)] = list(v.items())
        if isinstance(args, dict):
            return f"f:{fn}[]{{" + ",".join(f"{k}={rdef(a)}" for k, a in args.items()) + "}"
        if isinstance(args, list):
            return f"f:{fn}[" + ",".join(rdef(a) for a in args) + "]{}"
        return f"f:{fn}[{rdef(args)}]{{}}"
    return f"?:{v!r}"


def rfriend(fr):
    """canonical text of a plain friend template {table, fields, friends}"""
    return (fr["table"] + "(" + ";".join(f"{n}={rdef(v)}" for n, v in fr["fields"]) + ")" +
            "[" + "|".join(rfriend(x) for x in fr.get("friends", [])) + "]")


def _impl_def(d):
    """canonical text of a parsed definition object of the implementation"""
    cls = type(d).__name__
    if cls == "SimpleValue":
        return rdef(d.definition) if isinstance(d.definition, (type(None), bool, int, str)) else f"?:{d.definition!r}"
    if cls == "StructuredValue":
        return (f"f:{d.function_name}[" + ",".join(_impl_def(a) for a in d.args) + "]{" +
                ",".join(f"{k}={_impl_def(a)}" for k, a in d.kwargs.items()) + "}")
    if cls == "ObjectTemplate":
        return "o:" + _impl_tmpl(d)
    return f"?:{cls}"


def _impl_tmpl(t):
    return (t.tablename + "(" + ";".join(f"{f.name}={_impl_def(f.definition)}" for f in t.fields) + ")" +
            "[" + "|".join(_impl_stmt_text(x) for x in t.friends) + "]")


def _impl_stmt_text(s):
    if type(s).__name__ == "ObjectTemplate":
        return _impl_tmpl(s)
    return f"var {s.varname}={_impl_def(s.expression)}"


def canon_parse(pr):
    stmts = []
    for s in pr.statements:
        if type(s).__name__ == "ObjectTemplate":
            stmts.append(["obj", s.tablename, [[f.name, _impl_def(f.definition)] for f in s.fields],
                          [_impl_stmt_text(x) for x in s.friends],
                          _impl_def(s.count_expr) if getattr(s, "count_expr", None) is not None else None])
        else:
            stmts.append(["var", s.varname, _impl_def(s.expression)])
    opts = []
    for o in pr.options:
        opts.append([o["option"], "default" in o, tag(o.get("default"))])
    return {"stmts": stmts, "opts": opts}


# =================================================================== YAML writer
def inc_string(names, style):
    s = INC_STYLES[style % len(INC_STYLES)].join(names)
    if style >= len(INC_STYLES):     # trailing comma / surrounding blanks
        s = " " + s + " ,"
    return s


def raw_include(it):
    """the `include:` string of a template / macro as item_yaml writes it ('' when the key is absent)"""
    if it["include"] or it.get("inc_empty"):
        return inc_string(it["include"], it.get("inc_style", 0))
    return ""


def friend_yaml(fr):
    d = {"object": fr["table"]}
    if fr["fields"]:
        d["fields"] = {n: v for n, v in fr["fields"]}
    if fr.get("friends"):
        d["friends"] = [friend_yaml(x) for x in fr["friends"]]
    return d


def item_yaml(it):
    t = it["t"]
    if t == "inc":
        return {"include_file": it["path"]}
    if t == "opt":
        d = {"option": it["name"]}
        if it["has_default"]:
            d["default"] = it["default"]
        return d
    if t == "var":
        return {"var": it["name"], "value": it["value"]}
    if t == "plugin":
        return {"plugin": it["name"]}
    if t in ("macro", "obj"):
        d = {"macro": it["name"]} if t == "macro" else {"object": it["table"]}
        if t == "obj" and it.get("count") is not None:
            d["count"] = it["count"]
        if it["include"] or it.get("inc_empty"):
            d["include"] = inc_string(it["include"], it.get("inc_style", 0))
        if it["fields"] or it.get("fields_empty"):
            d["fields"] = {n: v for n, v in it["fields"]}
        if it["friends"]:
            d["friends"] = [friend_yaml(x) for x in it["friends"]]
        return d
    raise ValueError(t)


def write_tree(f, path):
    """write file node f at `path` (and, recursively, the files it includes)"""
    import yaml
    os.makedirs(os.path.dirname(path), exist_ok=True)
    data = [item_yaml(it) for it in f["items"]]
    with open(path, "w") as fh:
        fh.write(yaml.safe_dump(data, sort_keys=False, default_flow_style=False) if data else "[]\n")
    for it in f["items"]:
        if it["t"] == "inc" and it["file"] is not None:
            write_tree(it["file"], os.path.normpath(os.path.join(os.path.dirname(path), it["path"])))


def tree_fs(f, name="main.yml", out=None):
    """{path below the main recipe's directory: file node}: where write_tree puts the files of a tree"""
    out = {} if out is None else out
    if name in out:
        raise ValueError("two files of the tree at " + name)
    out[name] = f
    for it in f["items"]:
        if it["t"] == "inc" and it["file"] is not None:
            tree_fs(it["file"], posixpath.normpath(posixpath.join(posixpath.dirname(name), it["path"])), out)
    return out


def write_fs(files, root):
    """write {relative path: file node} below directory root"""
    import yaml
    for rel, f in files.items():
        path = os.path.join(root, rel)
        os.makedirs(os.path.dirname(path), exist_ok=True)
        data = [item_yaml(it) for it in f["items"]]
        with open(path, "w") as fh:
            fh.write(yaml.safe_dump(data, sort_keys=False, default_flow_style=False) if data else "[]\n")


def file_text(f):
    import yaml
    data = [item_yaml(it) for it in f["items"]]
    return yaml.safe_dump(data, sort_keys=False, default_flow_style=False) if data else "[]\n"


def tree_text(f, name="main.yml", out=None):
    import yaml
    out = {} if out is None else out
    data = [item_yaml(it) for it in f["items"]]
    out[name] = yaml.safe_dump(data, sort_keys=False, default_flow_style=False) if data else "[]\n"
    for it in f["items"]:
        if it["t"] == "inc" and it["file"] is not None:
            tree_text(it["file"], os.path.normpath(os.path.join(os.path.dirname(name), it["path"])), out)
    return out


# =================================================================== generation: inline recipes
COUNTERS = "snowfakery.standard_plugins.Counters"


def gen_stateful(rng):
    """a field definition that keeps state per call site (one state per place it is written)"""
    if rng.random() < 0.75:
        return {"Counters.NumberCounter": {"start": rng.choice([1, 1, 5, 100]), "step": rng.choice([1, 1, 2, 10])}}
    return {"Counters.DateCounter": {"start_date": "2020-0%d-15" % rng.randint(1, 9), "step": rng.choice(["+1d", "+1M", "+7d"])}}


def _is_stateful(v):
    return isinstance(v, dict) and next(iter(v)).startswith("Counters.")


def gen_value(rng, fields_before, vars_before, opts, stateful=False):
    if stateful and rng.random() < 0.3:
        return gen_stateful(rng)
    r = rng.random()
    if r < 0.22:
        return rng.choice([0, 1, -1, 5, 12, 300])
    if r < 0.40:
        return rng.choice(["x", "hello world", "", "5", "true", "a-b", "Q"])
    if r < 0.46:
        return rng.choice([True, False, None])
    if r < 0.52:
        return rng.choice([{"date": {"year": 2020, "month": rng.randint(1, 12), "day": rng.randint(1, 28)}},
                           {"date": "2021-0%d-1%d" % (rng.randint(1, 9), rng.randint(0, 9))},
                           {"datetime": {"year": 2001, "month": 2, "day": rng.randint(1, 28)}}])
    forms = ["${{id}}", "${{id + %d}}" % rng.randint(0, 3), "r${{id}}", "${{child_index}}"]
    if fields_before:
        a = rng.choice(fields_before)
        forms += ["${{%s}}" % a, "<${{%s}}>" % a, "${{this.%s}}" % a, "${{%s}}" % a, "${{%s}}|${{id}}" % a]
    if vars_before:
        forms += ["${{%s}}" % rng.choice(vars_before), "v=${{%s}}" % rng.choice(vars_before)]
    if opts:
        forms += ["${{%s}}" % rng.choice(opts), "o${{%s}}" % rng.choice(opts)]
    return rng.choice(forms)


def gen_friend(rng, vars_before, opts, depth=0, stateful=False):
    nf = rng.randint(0, 2)
    names = rng.sample(FIELD_POOL, nf)
    fields = []
    for n in names:
        fields.append([n, gen_value(rng, [x for x, _ in fields], vars_before, opts, stateful)])
    fr = {"table": rng.choice(["F", "G", "H"]), "fields": fields, "friends": []}
    if depth == 0 and rng.random() < 0.15:
        fr["friends"] = [gen_friend(rng, vars_before, opts, 1, stateful)]
    return fr


def gen_inline(rng):
    """a single file: options, vars and object templates; no macros, no include_file"""
    items = []
    opts = []
    user = {}
    onames = rng.sample(OPT_POOL, rng.choice([0, 0, 1, 1, 2]))
    if onames and rng.random() < 0.25:
        onames.append(rng.choice(onames))                 # an option declared twice
    for name in onames:
        has_default = rng.random() < 0.75
        default = rng.choice(VALS)
        items.append({"t": "opt", "name": name, "has_default": has_default, "default": default if has_default else None})
        if name not in opts:
            opts.append(name)
        if not has_default or rng.random() < 0.4:
            user[name] = rng.choice(VALS)
    stateful = rng.random() < 0.5                        # the recipe uses the Counters plugin
    if stateful:
        items.append({"t": "plugin", "name": COUNTERS})
    vars_before = []
    nst = rng.choice([1, 1, 2, 2, 3, 4])
    for _ in range(nst):
        if rng.random() < 0.2 and len(vars_before) < len(VAR_POOL):
            name = VAR_POOL[len(vars_before)]
            val = gen_value(rng, [], vars_before, opts)
            while val is None:            # `value:` must be str / int / dict / list
                val = gen_value(rng, [], vars_before, opts)
            items.append({"t": "var", "name": name, "value": val})
            vars_before.append(name)
            continue
        nf = rng.choice([0, 1, 2, 3, 3, 4, 5, 6])
        names = rng.sample(FIELD_POOL, nf)
        fields = []
        for n in names:
            fields.append([n, gen_value(rng, [x for x, _ in fields], vars_before, opts, stateful)])
        friends = [gen_friend(rng, vars_before, opts, 0, stateful) for _ in range(rng.choice([0, 0, 0, 1, 1, 2]))]
        if friends and rng.random() < 0.3:               # the same friend twice (shared-macro friends)
            friends.insert(rng.randint(1, len(friends)), copy.deepcopy(friends[0]))
        items.append({"t": "obj", "table": rng.choice(TABLES), "include": [], "fields": fields,
                      "friends": friends, "count": rng.choice([None, None, 1, 2, 3])})
        # templates that start with the same fields (and friends): they can share a macro, and each
        # of them must keep its own state for a stateful definition written in those fields
        while fields and rng.random() < 0.4:
            l = rng.randint(1, len(fields))
            pre = copy.deepcopy(fields[:l])
            if stateful and not any(_is_stateful(v) for _, v in pre) and rng.random() < 0.7:
                pre[rng.randrange(len(pre))][1] = gen_stateful(rng)
                items[-1]["fields"][:l] = copy.deepcopy(pre)
            used = [n for n, _ in pre]
            extra = rng.sample([n for n in FIELD_POOL if n not in used], rng.randint(0, 2))
            tw = pre + [[n, gen_value(rng, used, vars_before, opts, stateful)] for n in extra]
            twf = copy.deepcopy(friends[:rng.randint(0, len(friends))]) + \
                [gen_friend(rng, vars_before, opts, 0, stateful) for _ in range(rng.choice([0, 0, 1]))]
            items.append({"t": "obj", "table": rng.choice(TABLES), "include": [], "fields": tw,
                          "friends": twf, "count": rng.choice([None, 2, 3])})
    return {"items": items}, user


# =================================================================== factoring (by construction
# equivalent to the inline recipe, according to the property's statement)
def _forest(rng, idxs):
    """a random forest whose post-order traversal is idxs; tree = (root, children)"""
    if not idxs:
        return []
    i = rng.randint(0, len(idxs) - 1)
    return _forest(rng, idxs[:i]) + [(idxs[-1], _forest(rng, idxs[i:-1]))]


def _interleave(rng, *seqs):
    """random merge preserving the relative order inside every sequence"""
    seqs = [list(s) for s in seqs if s]
    out = []
    while seqs:
        s = rng.choice(seqs)
        out.append(s.pop(0))
        seqs = [x for x in seqs if x]
    return out


def factor_macros(f, rng, info):
    """move leading fields / friends of templates into macros"""
    counter = [0]
    junkc = [0]

    def junk():
        junkc[0] += 1
        return rng.choice(["junk%d" % junkc[0], 999, "${{1/0}}", None])

    new_items, macs = [], []
    shared = _shared_macros(f, rng, info, counter, macs)
    for idx, it in enumerate(f["items"]):
        if idx in shared:
            new_items.append(shared[idx])
            continue
        if it["t"] != "obj" or rng.random() < 0.2:
            new_items.append(it)
            continue
        fields, friends = it["fields"], it["friends"]
        j = rng.randint(0, len(fields))
        lead, rest = fields[:j], fields[j:]
        S, pending = [], []
        for n, v in lead:
            if rng.random() < 0.3:
                S.append([n, junk()])
                pending.append([n, v])
                info["overrides"] += 1
            else:
                S.append([n, v])
        own = list(rest)
        for p in pending:
            if rng.random() < 0.5:
                idx = [x[0] for x in S].index(p[0])
                S.insert(rng.randint(idx + 1, len(S)), p)        # a later macro overrides
            else:
                own.insert(rng.randint(0, len(own)), p)           # the template overrides
        chunks, cur = [], []
        for e in S:
            if cur and (e[0] in [x[0] for x in cur] or rng.random() < 0.4):
                chunks.append(cur)
                cur = []
            cur.append(e)
        if cur:
            chunks.append(cur)
        if rng.random() < 0.15:
            chunks.insert(rng.randint(0, len(chunks)), [])       # a macro without fields
        if rng.random() < 0.35:
            new_items.append(_diamond(it, lead, own, chunks, rng, info, counter, junk, macs))
            continue
        jf = rng.randint(0, len(friends))
        if jf and not chunks:
            chunks.append([])
        cfriends = [[] for _ in chunks]
        ci = 0
        for fr in friends[:jf]:
            ci = rng.randint(ci, len(chunks) - 1)
            cfriends[ci].append(fr)
        names = {}
        for i in range(len(chunks)):
            counter[0] += 1
            names[i] = "m%d" % counter[0]
        forest = _forest(rng, list(range(len(chunks))))

        def emit(tree, depth):
            root, children = tree
            info["max_nest"] = max(info["max_nest"], depth)
            for ch in children:
                emit(ch, depth + 1)
            if rng.random() < 0.25:                             # shadowed earlier definition
                macs.append({"t": "macro", "name": names[root], "include": [],
                             "fields": [[rng.choice(FIELD_POOL), junk()]], "friends": []})
                info["shadowed_macros"] += 1
            macs.append({"t": "macro", "name": names[root], "include": [names[c[0]] for c in children],
                         "inc_style": rng.randint(0, 2 * len(INC_STYLES) - 1),
                         "fields": chunks[root], "friends": cfriends[root]})
        for tr in forest:
            emit(tr, 1)
        info["macros"] += len(chunks)
        new = dict(it, include=[names[t[0]] for t in forest], fields=own, friends=friends[jf:],
                   inc_style=rng.randint(0, 2 * len(INC_STYLES) - 1))
        if not forest and rng.random() < 0.3:
            new["inc_empty"] = True
        new_items.append(new)
    # macro definitions may stand anywhere in the file (their relative order is kept)
    return {"items": _interleave(rng, new_items, macs)}


def _same_field(a, b):
    return a[0] == b[0] and rdef(a[1]) == rdef(b[1])


def _common(la, lb, same):
    n = 0
    while n < len(la) and n < len(lb) and same(la[n], lb[n]):
        n += 1
    return n


def _shared_macros(f, rng, info, counter, macs):
    """templates that begin with the same fields (and friends) include ONE macro holding them
    (optionally split over two nested macros): item index -> rewritten template"""
    items = f["items"]
    objs = [i for i, it in enumerate(items) if it["t"] == "obj"]
    out = {}
    for a, ia in enumerate(objs):
        if ia in out or rng.random() < 0.25:
            continue
        group = [ia] + [ib for ib in objs[a + 1:] if ib not in out and
                        _common(items[ia]["fields"], items[ib]["fields"], _same_field) >= 1]
        if len(group) < 2:
            continue
        L = min(_common(items[ia]["fields"], items[ib]["fields"], _same_field) for ib in group[1:])
        LF = min(_common(items[ia]["friends"], items[ib]["friends"], lambda x, y: rfriend(x) == rfriend(y))
                 for ib in group[1:])
        l, lf = rng.randint(1, L), rng.randint(0, LF)
        pre, pf = items[ia]["fields"][:l], items[ia]["friends"][:lf]
        counter[0] += 1
        outer = "m%d" % counter[0]
        inc = []
        if rng.random() < 0.5:                              # nested: outer includes inner
            counter[0] += 1
            inner = "m%d" % counter[0]
            cut, cf = rng.randint(0, l), rng.randint(0, lf)
            macs.append({"t": "macro", "name": inner, "include": [], "fields": pre[:cut], "friends": pf[:cf]})
            pre, pf, inc = pre[cut:], pf[cf:], [inner]
            info["macros"] += 1
        macs.append({"t": "macro", "name": outer, "include": inc, "fields": pre, "friends": pf})
        info["macros"] += 1
        info["shared_macros"] += 1
        info["shared_macro_users"] += len(group)
        if any(_is_stateful(v) for _, v in items[ia]["fields"][:l]) or \
                any("Counters." in rfriend(x) for x in items[ia]["friends"][:lf]):
            info["stateful_shared_macros"] += 1
        for i in group:
            it = items[i]
            out[i] = dict(it, include=[outer], fields=it["fields"][l:], friends=it["friends"][lf:],
                          inc_style=rng.randint(0, 2 * len(INC_STYLES) - 1))
    return out


def _diamond(it, lead, own, chunks, rng, info, counter, junk, macs):
    """a macro graph in which one macro (`base`) is reached through two include paths:
         lr: include: left, right   (both include base)      flat = c0 c1 c0 c2
         lb: include: left, base                              flat = c0 c1 c0
         bl: include: base, left                              flat = c0 c0 c1
         ll: include: left, left                              flat = c0 c1 c0 c1
       (optionally wrapped in one more macro).  By the property's statement the template equals the
       one with that flat list written first: a field of base overridden by `left` is restored by
       the second expansion of base, and base's friends appear once per expansion."""
    friends = it["friends"]
    own = list(own)
    c = [list(x) for x in chunks[:3]] + [[] for _ in range(3 - len(chunks[:3]))]
    extras = [list(x) for x in chunks[3:]]
    v = rng.choice(["lr", "lr", "lr", "lb", "bl", "ll"])
    # an override inside the diamond: left redefines a field of base
    cand = [n for n, _ in c[0] if n not in [x for x, _ in c[1]]]
    if cand and rng.random() < 0.8:
        c[1].insert(rng.randint(0, len(c[1])), [rng.choice(cand), junk()])
        info["diamond_overrides"] += 1
    k = next((i for i in range(1, len(friends)) if friends[i] == friends[0]), None)
    B, M, T = [], [], []
    if v == "lr":
        if k is not None and rng.random() < 0.85:
            B, M = [friends[0]], friends[1:k]
            T = friends[k + 1:k + 1 + rng.randint(0, len(friends) - k - 1)]
            jf = k + 1 + len(T)
        else:
            jf = rng.randint(0, len(friends))
            x = rng.randint(0, jf)
            M, T = friends[:x], friends[x:jf]
    elif v == "lb":
        if k is not None and rng.random() < 0.85:
            B, M, jf = [friends[0]], friends[1:k], k + 1
        else:
            jf = rng.randint(0, len(friends))
            M = friends[:jf]
    elif v == "bl":
        if k == 1 and rng.random() < 0.85:
            jf = rng.randint(2, len(friends))
            B, M = [friends[0]], friends[2:jf]
        else:
            jf = rng.randint(0, len(friends))
            M = friends[:jf]
    else:
        if k == 1 and rng.random() < 0.85:
            B, jf = [friends[0]], 2
        else:
            jf = 0
    if B:
        info["diamond_friends"] += 1
    if v != "lr":
        extras.insert(0, c[2])
        c[2] = []
    flat = {"lr": c[0] + c[1] + c[0] + c[2], "lb": c[0] + c[1] + c[0], "bl": c[0] + c[0] + c[1],
            "ll": c[0] + c[1] + c[0] + c[1]}[v]
    for e in extras:
        flat = flat + e
    # whatever the last macro definition of a leading field is, the template must end up with the
    # inline definition: the template's own fields override all macros
    own_names = [n for n, _ in own]
    for n, real in lead:
        if n in own_names:
            continue
        last = [d for x, d in flat if x == n]
        if not last or rdef(last[-1]) != rdef(real):
            own.insert(rng.randint(0, len(own)), [n, real])
            own_names.append(n)
    def nm():
        counter[0] += 1
        return "m%d" % counter[0]
    base, left, right = nm(), nm(), nm()
    st = lambda: rng.randint(0, 2 * len(INC_STYLES) - 1)
    macs.append({"t": "macro", "name": base, "include": [], "fields": c[0], "friends": B})
    macs.append({"t": "macro", "name": left, "include": [base], "inc_style": st(), "fields": c[1], "friends": M})
    inc = {"lr": [left, right], "lb": [left, base], "bl": [base, left], "ll": [left, left]}[v]
    if v == "lr":
        macs.append({"t": "macro", "name": right, "include": [base], "inc_style": st(), "fields": c[2], "friends": T})
    if rng.random() < 0.3:
        top = nm()
        macs.append({"t": "macro", "name": top, "include": inc, "inc_style": st(), "fields": [], "friends": []})
        inc = [top]
    for e in extras:
        x = nm()
        macs.append({"t": "macro", "name": x, "include": [], "fields": e, "friends": []})
        inc.append(x)
    info["diamonds"] += 1
    info["macros"] += len(inc) + 2
    info["max_nest"] = max(info["max_nest"], 2)
    return dict(it, include=inc, fields=own, friends=friends[jf:], inc_style=st())


def factor_files(f, rng, info, srng=None):
    """move leading options / macros / statements into a (nested) forest of include files.
    srng (cases with fs_style): base names that collide between directories and other spellings
    of the include_file path; drawn from a generator of its own, so that the factoring of a case
    without fs_style never changes"""
    cats = {"opt": [], "macro": [], "stmt": [], "plugin": []}
    for it in f["items"]:
        cats["stmt" if it["t"] in ("obj", "var") else it["t"]].append(it)
    k = rng.choice([1, 1, 2, 2, 3])
    parts = {}
    for c, lst in cats.items():
        cuts = sorted(rng.randint(0, len(lst)) for _ in range(k))
        bounds = [0] + cuts + [len(lst)]
        parts[c] = [lst[bounds[i]:bounds[i + 1]] for i in range(k + 1)]
    forest = _forest(rng, list(range(k)))
    fcount = [0]

    def build(tree, depth):
        root, children = tree
        info["max_file_nest"] = max(info["max_file_nest"], depth)
        incs = []
        for ch in children:
            incs.append(inc_item(ch, depth + 1))
        return {"items": _interleave(rng, incs, parts["opt"][root], parts["macro"][root], parts["stmt"][root],
                                     parts["plugin"][root])}

    def inc_item(tree, depth):
        fcount[0] += 1
        sub = rng.choice(["", "", "sub%d/" % fcount[0]])
        path = "%sinc%d.yml" % (sub, fcount[0])
        if srng is not None:
            if srng.random() < 0.4:          # the same base name in many directories
                path = "sub%d/lib.yml" % fcount[0]
                info["colliding_names"] += 1
            d, b = posixpath.split(path)
            r = srng.random()
            if r < 0.2:
                path = "./" + path
            elif r < 0.35 and d:
                path = d + "/../" + path      # into an existing directory and back
            elif r < 0.45 and d:
                path = d + "//" + b
            elif r < 0.55 and d:
                path = d + "/./" + b
            info["respelled_paths"] += r < 0.2 or (r < 0.55 and bool(d))
        return {"t": "inc", "path": path, "file": build(tree, depth)}

    incs = [inc_item(t, 1) for t in forest]
    info["files"] += k
    return {"items": _interleave(rng, incs, parts["opt"][k], parts["macro"][k], parts["stmt"][k], parts["plugin"][k])}


def factorings(case):
    """deterministic: (macro-factored single file, file tree, info)"""
    rng = random.Random(case["fseed"])
    info = Counter()
    a = factor_macros(copy.deepcopy(case["inline"]), rng, info)
    srng = random.Random(case["fseed"] ^ 0x5A5A5A) if case.get("fs_style") else None
    b = factor_files(copy.deepcopy(a), rng, info, srng)
    return a, b, dict(info)


# =================================================================== generation: random trees
def gen_tree(rng, depth=0, budget=None):
    budget = budget if budget is not None else [rng.randint(2, 9)]
    items = []
    n = rng.randint(0 if depth else 1, 5)
    mnames = ["m1", "m2", "m3", "m4"]
    for _ in range(n):
        if budget[0] <= 0:
            break
        budget[0] -= 1
        r = rng.random()
        if r < 0.36:
            inc = [rng.choice(mnames + ["zz"] if rng.random() < 0.12 else mnames) for _ in range(rng.choice([0, 0, 1, 1, 2]))]
            names = rng.sample(FIELD_POOL[:5], rng.randint(0, 3))
            items.append({"t": "macro", "name": rng.choice(mnames), "include": inc,
                          "inc_style": rng.randint(0, 2 * len(INC_STYLES) - 1),
                          "fields": [[x, rng.choice([1, 2, "x", "${{id}}", None, True])] for x in names],
                          "friends": [gen_friend(rng, [], [])] if rng.random() < 0.15 else []})
        elif r < 0.66:
            inc = [rng.choice(mnames + ["zz"] if rng.random() < 0.08 else mnames) for _ in range(rng.choice([0, 1, 1, 2, 3]))]
            names = rng.sample(FIELD_POOL[:5], rng.randint(0, 3))
            items.append({"t": "obj", "table": rng.choice(TABLES), "include": inc,
                          "inc_style": rng.randint(0, 2 * len(INC_STYLES) - 1),
                          "fields": [[x, rng.choice([7, 8, "y", "${{id}}", False])] for x in names],
                          "friends": [gen_friend(rng, [], [])] if rng.random() < 0.15 else [],
                          "count": None})
        elif r < 0.74:
            items.append({"t": "var", "name": rng.choice(VAR_POOL), "value": rng.choice([1, "s", "${{3}}"])})
        elif r < 0.86:
            hd = rng.random() < 0.7
            items.append({"t": "opt", "name": rng.choice(OPT_POOL), "has_default": hd,
                          "default": rng.choice(VALS) if hd else None})
        elif depth < 2:
            if rng.random() < 0.1:
                items.append({"t": "inc", "path": "missing%d.yml" % rng.randint(0, 9), "file": None})
            else:
                sub = rng.choice(["", "s%d/" % rng.randint(0, 3)])
                items.append({"t": "inc", "path": "%sf%d_%d.yml" % (sub, depth, rng.randint(0, 10 ** 6)),
                              "file": gen_tree(rng, depth + 1, budget)})
    return {"items": items}


def gen_tree_diamond(rng):
    """macros sharing a nested macro, with overridden fields and friends in the shared macro"""
    val = lambda: rng.choice([1, 2, "x", "${{id}}", None, True, "base", 0])
    fr = lambda: [gen_friend(rng, [], [])] if rng.random() < 0.5 else []
    bn = rng.sample(FIELD_POOL[:4], rng.randint(1, 3))
    items = [{"t": "macro", "name": "base", "include": [], "fields": [[n, val()] for n in bn], "friends": fr()}]
    for name in ("left", "right"):
        ns = rng.sample(FIELD_POOL[:5], rng.randint(0, 3))
        if name == "left" and bn[0] not in ns:
            ns.append(bn[0])                                  # left overrides a field of base
        items.append({"t": "macro", "name": name, "include": rng.choice([["base"], ["base"], ["base", "base"]]),
                      "inc_style": rng.randint(0, 2 * len(INC_STYLES) - 1),
                      "fields": [[n, val()] for n in ns], "friends": fr() if rng.random() < 0.3 else []})
    items.append({"t": "macro", "name": "top", "include": rng.choice([["left", "right"], ["right", "left"], ["left", "base"]]),
                  "fields": [], "friends": []})
    for _ in range(rng.randint(1, 2)):
        inc = rng.choice([["left", "right"], ["right", "left"], ["left", "base"], ["base", "left"], ["left", "left"],
                          ["base", "base"], ["top"], ["top", "base"], ["base", "top", "right"], ["left", "right", "left"]])
        ns = rng.sample(FIELD_POOL[:6], rng.randint(0, 2))
        items.append({"t": "obj", "table": rng.choice(TABLES), "include": inc,
                      "inc_style": rng.randint(0, 2 * len(INC_STYLES) - 1),
                      "fields": [[n, val()] for n in ns], "friends": fr() if rng.random() < 0.3 else [], "count": None})
    rng.shuffle(items)
    if rng.random() < 0.3:                                    # part of the macros in an include file
        k = rng.randint(1, len(items) - 1)
        items = [{"t": "inc", "path": "dia.yml", "file": {"items": items[:k]}}] + items[k:]
    return {"items": items}


# =================================================================== generation: options
def opt_case(decls, user):
    return {"kind": "options", "decls": decls, "user": user}


def gen_options_grid():
    out = []
    for u in VALS + [ABSENT]:
        for d in VALS + [ABSENT]:
            decl = {"name": "n", "has_default": d != ABSENT, "default": None if d == ABSENT else d}
            out.append(opt_case([decl], {} if u == ABSENT else {"n": u}))
    # undeclared user options, alone and next to a declared one
    out.append(opt_case([], {"zz": 0}))
    out.append(opt_case([{"name": "n", "has_default": True, "default": 0}], {"zz": 1, "n": False}))
    out.append(opt_case([{"name": "n", "has_default": False, "default": None}], {"zz": 1}))
    return out


def gen_options_dup_grid():
    """one option declared twice: every (default1, default2, user) over the value set + absent"""
    out = []
    for d1 in VALS + [ABSENT]:
        for d2 in VALS + [ABSENT]:
            for u in VALS + [ABSENT]:
                decls = [{"name": "n", "has_default": d != ABSENT, "default": None if d == ABSENT else d} for d in (d1, d2)]
                out.append(opt_case(decls, {} if u == ABSENT else {"n": u}))
    return out


def gen_options_random(rng):
    decls = []
    for _ in range(rng.choice([1, 2, 2, 3, 4])):
        hd = rng.random() < 0.7
        decls.append({"name": rng.choice(OPT_POOL + ["q"]), "has_default": hd, "default": rng.choice(VALS) if hd else None})
    user = {}
    for name in OPT_POOL + ["q", "zz", "yy"]:
        if rng.random() < 0.45:
            user[name] = rng.choice(VALS)
    return opt_case(decls, user)


# =================================================================== generation: names seen by formulas
BUILTIN_NAMES = ["id", "count", "child_index", "this", "today", "now", "fake", "template"]
PLUGIN_NAMES = {"Counters": "snowfakery.standard_plugins.Counters", "Math": "snowfakery.standard_plugins.Math"}
FUNC_NAMES = ["date", "random_number", "reference", "random_choice", "if_", "datetime", "unique_id", "NULL",
              "int", "relativedelta", "choice", "debug", "random_reference", "date_between",
              "datetime_between", "snowfakery_filename", "unique_alpha_code"]
ORDINARY_NAMES = ["colour", "k", "Tz", "range", "dict"]       # range / dict: jinja globals, no scope of the namespace
NAME_VALS = VALS + [2, 3, 5, "2", "2001-02-03", "o v"]
OBJ_KINDS = ["table_before", "nick_before", "table_after", "nick_after", "friend"]
SHAPES = ["${{%s}}", "p${{%s}}q", "${{ [%s][0] }}", "${{ %s is string }};${{ %s is none }}"]   # the last: the value's type


def shape_text(shape, name):
    return SHAPES[shape].replace("%s", name)

VARV, FLDV = "VARv", "FLDv"


def names_case(name, has_default, default, user, version=2, var=False, obj=None, field=False, plugin=False,
               rcount=2, count_read=False, shape=0):
    return {"kind": "names", "name": name, "version": version,
            "decl": {"has_default": has_default, "default": default if has_default else None},
            "user": user, "var": var, "obj": obj, "field": field, "plugin": plugin,
            "rcount": rcount, "count_read": count_read, "shape": shape}


def gen_names_grid():
    """always present: every built-in name as an option name, falsy / truthy, supplied / defaulted"""
    out = []
    for i, name in enumerate(BUILTIN_NAMES):
        for j, (u, d) in enumerate([(ABSENT, 0), (False, 5), ("", ABSENT), ("2001-02-03", "x")]):
            out.append(names_case(name, d != ABSENT, None if d == ABSENT else d, {} if u == ABSENT else {name: u},
                                  version=2 + (i + j) % 2, shape=(i + j) % len(SHAPES)))
    out.append(names_case("count", True, 3, {}, count_read=True, rcount=1))
    out.append(names_case("child_index", False, None, {"child_index": 2}, count_read=True, version=3))
    return out


def gen_names(rng):
    r = rng.random()
    if r < 0.55:
        name = rng.choice(BUILTIN_NAMES)
    elif r < 0.67:
        name = rng.choice(list(PLUGIN_NAMES))
    elif r < 0.82:
        name = rng.choice(FUNC_NAMES)
    else:
        name = rng.choice(ORDINARY_NAMES)
    has_default = rng.random() < 0.7
    default = rng.choice(NAME_VALS)
    user = {}
    if rng.random() < (0.45 if has_default else 0.9):
        user[name] = rng.choice(NAME_VALS)
    if rng.random() < 0.2:
        user["zz"] = rng.choice(NAME_VALS)                   # an undeclared user option
    plain = rng.random() < 0.5                                # no closer scope written in the recipe
    c = names_case(name, has_default, default, user, version=rng.choice([2, 3]),
                   var=(not plain) and rng.random() < 0.3,
                   obj=rng.choice(OBJ_KINDS) if (not plain) and rng.random() < 0.4 else None,
                   field=(not plain) and name != "id" and rng.random() < 0.4,
                   plugin=name in PLUGIN_NAMES and rng.random() < 0.6,
                   rcount=rng.choice([1, 2, 2, 3]), shape=rng.randrange(len(SHAPES)))
    if c["version"] == 3 and (name in FUNC_NAMES or c["plugin"]):
        c["shape"] = 1          # a function / plugin object is not a field value: show its text
    if rng.random() < 0.3 and not _names_closer_at_count(c):
        v = user.get(name, default) if (name in user or has_default) else None
        if v in (0, 1, 2, 3, "2") and not isinstance(v, bool):
            c["count_read"] = True
    return c


def _names_closer_at_count(c):
    """does a scope closer than the options define the name where R's `count:` is evaluated?"""
    return bool(c["var"] or c["plugin"] or c["name"] in FUNC_NAMES or
                (c["obj"] in ("table_before", "nick_before", "table_after", "nick_after")))


def names_recipe(c):
    """the recipe of a names case as YAML data"""
    name = c["name"]
    read = shape_text(c["shape"], name)
    data = []
    if c["version"] == 3:
        data.append({"snowfakery_version": 3})
    if c["plugin"]:
        data.append({"plugin": PLUGIN_NAMES[name]})
    d = {"option": name}
    if c["decl"]["has_default"]:
        d["default"] = c["decl"]["default"]
    data.append(d)
    data.append({"option": "n", "default": 7})
    if c["var"]:
        data.append({"var": name, "value": VARV})
    p0 = {"object": name if c["obj"] == "table_before" else "P0", "fields": {"z": 1}}
    if c["obj"] == "nick_before":
        p0["nickname"] = name
    data.append(p0)
    fields = {"r0": read}
    if c["field"]:
        fields[name] = FLDV
    fields["r1"] = read
    fields["rn"] = "${{n}}"
    data.append({"object": "R", "count": ("${{%s}}" % name) if c["count_read"] else c["rcount"], "fields": fields,
                 "friends": [{"object": name if c["obj"] == "friend" else "FR", "fields": {"r2": read}},
                             {"object": "G", "fields": {"r3": read}}]})
    p1 = {"object": name if c["obj"] == "table_after" else "P1", "fields": {"z": 1}}
    if c["obj"] == "nick_after":
        p1["nickname"] = name
    data.append(p1)
    data.append({"object": "R9", "fields": {"r4": read}})
    return data


def names_value(c):
    """('value', v) | ('error', None): the option's value by the property's rule"""
    return expected_option(dict(c["decl"], name=c["name"]), c["user"])


def names_tables(c):
    name = c["name"]
    return {"R": "R", "FR": name if c["obj"] == "friend" else "FR", "G": "G", "R9": "R9"}


def names_probes(c, rows):
    """[(site table key, row index within the table, field, observed value)] from the JSON rows"""
    tabs = names_tables(c)
    per = {k: [r for r in rows if r.get("_table") == t] for k, t in tabs.items()}
    out = []
    for key, fields in (("R", ["r0", "r1"]), ("FR", ["r2"]), ("G", ["r3"]), ("R9", ["r4"])):
        for i, row in enumerate(per[key]):
            for f in fields:
                if f in row:
                    out.append((key, i, f, row[f]))
    return out


def names_layers(c, site, i, fld):
    """the entries for the case's name in every scope at one probe: {layer: typed value or '?<layer>'}.
    (what the harness knows about the recipe it wrote; the merge ORDER is the model's business)"""
    name = c["name"]
    row_id = 1 if site == "R9" else i + 1        # first iteration, one friend row per R row
    child_index = i if site == "R" else 0
    lay = {}
    if name in ("id", "count"):
        lay["builtin"] = ["i", row_id]
    elif name == "child_index":
        lay["builtin"] = ["i", child_index]
    elif name in BUILTIN_NAMES:
        lay["builtin"] = "?builtin"
    kind, v = names_value(c)
    if kind == "value":
        lay["option"] = tag(v)
    if c["obj"] in ("table_before", "nick_before", "table_after", "nick_after"):
        lay["object"] = "?object"                # forward-reference slot or row: always there
    elif c["obj"] == "friend" and not (site == "R" and i == 0):
        lay["object"] = "?object"                # from the first row of the friend's table on
    if name == "id":
        lay["field"] = ["i", row_id]
    elif c["field"] and site == "R" and fld == "r1":
        lay["field"] = ["s", FLDV]
    if c["plugin"]:
        lay["plugin"] = "?plugin"
    if name == "child_index":
        lay["var"] = ["i", child_index]          # registered by every template's row loop
    elif c["var"]:
        lay["var"] = ["s", VARV]
    if name in FUNC_NAMES:
        lay["func"] = "?func"
    return lay


def shown(t, shape):
    """text a formula of the given shape shows for a typed value (str() of the JSON value)"""
    v = None if t[0] == "n" else t[1]
    if shape == 3:
        return "%s;%s" % (isinstance(v, str), v is None)
    return "p%sq" % (v,) if shape == 1 else str(v)


# =================================================================== generation: file systems
FS_DIRS = ["", "sub", "sub/deep", "lib"]
FS_BASES = ["a.yml", "b.yml", "lib.yml", "c.yml"]


def _spell(rng, target, from_dir, dirs):
    """an include_file string that names `target` from a file in directory from_dir"""
    rel = posixpath.relpath(target, from_dir or ".")
    r = rng.random()
    if r < 0.15:
        return "./" + rel
    if r < 0.35:
        # through a directory below from_dir and back; an existing one or (missing file!) not
        below = sorted({d[len(from_dir):].lstrip("/").split("/")[0] for d in dirs
                        if d and d != from_dir and (not from_dir or d.startswith(from_dir + "/"))} - {""})
        if below and rng.random() < 0.85:
            return rng.choice(below) + "/../" + rel
        return ("nodir/../" + rel) if rng.random() < 0.25 else rel
    if r < 0.42 and "/" in rel:
        return rel.replace("/", "//", 1)
    return rel


def gen_fs(rng):
    n = rng.choice([1, 2, 3, 3, 4, 5, 6])
    paths = ["main.yml"]
    while len(paths) < n + 1:
        d = rng.choice(FS_DIRS)
        pth = (d + "/" if d else "") + rng.choice(FS_BASES)
        if pth not in paths:
            paths.append(pth)
    dirs = {posixpath.dirname(x) for x in paths}
    files = {}
    mnames = ["m1", "m2"]
    for k, pth in enumerate(paths):
        items = []
        d = posixpath.dirname(pth)
        later = paths[k + 1:]
        for _ in range(rng.choice([0, 1, 1, 2, 2, 3]) if later else 0):
            items.append({"t": "inc", "path": _spell(rng, rng.choice(later), d, dirs), "file": None})
        r = rng.random()
        if r < 0.07:
            items.append({"t": "inc", "path": _spell(rng, rng.choice(paths[:k + 1]), d, dirs), "file": None})   # cycle / itself
        elif r < 0.13:
            items.append({"t": "inc", "path": rng.choice(["nosuch.yml", "sub/nosuch.yml", "lib.yml/x.yml", "sub"]), "file": None})
        if rng.random() < 0.3:
            hd = rng.random() < 0.8
            items.append({"t": "opt", "name": rng.choice(OPT_POOL), "has_default": hd,
                          "default": rng.choice(VALS) if hd else None})
        for _ in range(rng.choice([0, 0, 1, 1, 2])):
            items.append({"t": "macro", "name": rng.choice(mnames), "include": [], "friends": [],
                          "fields": [["src", "macro in " + pth]] +
                                    [[x, rng.choice([1, 2, "x"])] for x in rng.sample(FIELD_POOL[:3], rng.randint(0, 2))]})
        for _ in range(rng.choice([0, 1, 1, 2]) if k else rng.choice([1, 2])):
            if rng.random() < 0.15:
                items.append({"t": "var", "name": rng.choice(VAR_POOL), "value": "var in " + pth})
            else:
                items.append({"t": "obj", "table": rng.choice(TABLES), "friends": [], "count": None,
                              "include": [rng.choice(mnames)] if rng.random() < 0.4 else [],
                              "fields": [["at", "stmt in " + pth]] + ([["v", "${{v}}"]] if rng.random() < 0.2 else [])})
        rng.shuffle(items)
        files[pth] = {"items": items}
    # mostly: every macro a template uses is defined somewhere (else the recipe is simply rejected)
    defined = {it["name"] for f in files.values() for it in f["items"] if it["t"] == "macro"}
    for f in files.values():
        for it in f["items"]:
            if it["t"] == "obj" and it["include"] and it["include"][0] not in defined and rng.random() < 0.85:
                it["include"] = [rng.choice(sorted(defined))] if defined else []
    return {"kind": "fs", "files": files, "user": {o: rng.choice(VALS) for o in OPT_POOL if rng.random() < 0.5}}


# =================================================================== generation: sessions
def _edit_same_length(v, rng):
    """another definition of the same written length (a cache validated by file size must not hold)"""
    if isinstance(v, bool) or v is None:
        return v
    if isinstance(v, int):
        if v < 0:
            return v
        lo = 10 ** (len(str(v)) - 1) if v >= 10 else 0
        cand = [x for x in range(lo, lo * 10 if lo else 10) if x != v]
        return rng.choice(cand[:50])
    if isinstance(v, str):
        if "${{" in v or not v or not v[-1].isalpha():
            return v
        return v[:-1] + rng.choice([ch for ch in "qzjx" if ch != v[-1]])
    return v


def edit_inline(f, rng):
    f = copy.deepcopy(f)
    n = 0
    for it in f["items"]:
        if it["t"] == "obj":
            for fld in it["fields"]:
                if rng.random() < 0.6:
                    new = _edit_same_length(fld[1], rng)
                    n += rdef(new) != rdef(fld[1])
                    fld[1] = new
            for fr in it["friends"]:
                for fld in fr["fields"]:
                    if rng.random() < 0.4:
                        fld[1] = _edit_same_length(fld[1], rng)
        elif it["t"] == "opt" and it["has_default"] and rng.random() < 0.5:
            it["default"] = _edit_same_length(it["default"], rng)
    return f, n


def gen_session(rng):
    inline, user = gen_inline(rng)
    fseed = rng.randint(0, 2 ** 31)
    style = rng.choice([0, 1, 1])
    steps = []
    for i in range(rng.choice([2, 2, 3, 3, 4])):
        how = "first"
        if i:
            r = rng.random()
            if r < 0.55:
                inline, n = edit_inline(inline, rng)
                how = "edited" if n else "same"
            elif r < 0.85:
                inline, user = gen_inline(rng)
                fseed = rng.randint(0, 2 ** 31)
                how = "new"
            else:
                how = "same"
        steps.append({"inline": inline, "user": user, "fseed": fseed, "fs_style": style, "how": how,
                      "dir": rng.choice(["d0", "d0", "d1"]), "cont": bool(i) and rng.random() < 0.4})
    return {"kind": "session", "steps": steps}


# =================================================================== generation: chains of runs
CHAIN_SHAPE = 3          # SHAPES[3]: "<is string>;<is none>" next to the plain ${{name}}


def chain_link(decls, user, cont, via="text"):
    return {"decls": decls, "user": user, "cont": cont, "via": via}


def _decl(name, d):
    return {"name": name, "has_default": d != ABSENT, "default": None if d == ABSENT else d}


def gen_chain_grid():
    """two runs, the second continuing the first, one option: (default) x (what run 1 supplies) x
    (what run 2 supplies); plus the same with the roles of the runs exchanged for the falsy values"""
    out = []
    for d in (ABSENT, 1):
        for u1 in VALS + [ABSENT]:
            for u2 in (ABSENT, 0, "", None, "x"):
                links = [chain_link([_decl("n", d)], {} if u == ABSENT else {"n": u}, bool(i))
                         for i, u in enumerate((u1, u2))]
                out.append({"kind": "chain", "links": links, "once": u2 == ABSENT, "rows": 1})
    return out


CLI_VALS = [0, 1, 7, "", "x", "o v"]      # values with a spelling on the command line (--option n <text>)


def gen_chain(rng):
    """a history of 2-5 generate() calls in one process.  Every link has its own user options (each
    declared option supplied / left out, falsy values included), usually the recipe of the link
    before it (sometimes with another default, a default dropped or added), and continues the last
    successful run before it (continuation file passed as text or as a file on disk) or starts afresh."""
    names = rng.sample(OPT_POOL, rng.choice([1, 1, 2, 2, 3]))
    cur = {n: _decl(n, rng.choice(VALS) if rng.random() < 0.7 else ABSENT) for n in names}
    links = []
    last_user = {}
    for i in range(rng.choice([2, 2, 3, 3, 4, 5])):
        if i:
            for n in names:
                if rng.random() < 0.12:          # the recipe of this link declares the option differently
                    cur[n] = _decl(n, rng.choice(VALS) if rng.random() < 0.7 else ABSENT)
        user = {}
        via = rng.choice(["text", "text", "path", "cli"])     # cli: the run is started through snowfakery.cli
        vals = CLI_VALS if via == "cli" else VALS
        for n in names:
            r = rng.random()
            if r < (0.4 if cur[n]["has_default"] else 0.65):
                user[n] = rng.choice(vals)
            elif r < 0.5 and n in last_user and any(tag(last_user[n]) == tag(x) for x in vals):
                user[n] = last_user[n]           # the caller repeats the option
        if rng.random() < 0.12:
            user["zz"] = rng.choice(vals)        # an option no recipe declares
        links.append(chain_link([dict(cur[n]) for n in names], user, bool(i) and rng.random() < 0.8, via))
        last_user = dict(last_user, **user)
    return {"kind": "chain", "links": links, "once": rng.random() < 0.6, "rows": rng.choice([1, 1, 2])}


def chain_recipe(case, link):
    """the recipe of one link: its declarations, optionally a just_once template reading the options,
    and a template (with a friend) whose rows show every option plainly, inside text, and its type"""
    items = [dict(d, t="opt") for d in link["decls"]]
    names = [d["name"] for d in link["decls"]]
    shown_fields = [["f_" + n, "${{%s}}" % n] for n in names] + \
                   [["t_" + n, shape_text(CHAIN_SHAPE, n)] for n in names]
    if case.get("once"):
        items.append({"t": "obj", "table": "Once", "just_once": True, "include": [], "friends": [], "count": None,
                      "fields": copy.deepcopy(shown_fields)})
    kid = {"table": "Kid", "fields": [["g_" + n, "x${{%s}}y" % n] for n in names], "friends": []}
    items.append({"t": "obj", "table": "Row", "include": [], "friends": [kid], "count": case.get("rows", 1),
                  "fields": copy.deepcopy(shown_fields)})
    return {"items": items}


def chain_text(case, link):
    import yaml
    data = []
    for it in chain_recipe(case, link)["items"]:
        d = item_yaml(it)
        if it.get("just_once"):
            d = {"object": d["object"], "just_once": True, **{k: v for k, v in d.items() if k != "object"}}
        data.append(d)
    return yaml.safe_dump(data, sort_keys=False, default_flow_style=False)


def chain_decode(row, n):
    """typed value of option n as one row of Row / Once shows it: the plain formula gives str(value)
    (or the value), the type formula says whether it is a string / None; None if not decodable"""
    if "f_" + n not in row or "t_" + n not in row:
        return None
    f, t = row["f_" + n], row["t_" + n]
    if t == "False;True":
        return ["n"] if str(f) == "None" else None
    if t == "True;False":
        return ["s", str(f)]
    if t != "False;False":
        return None
    if str(f) in ("True", "False"):
        return ["b", str(f) == "True"]
    try:
        return ["i", int(str(f))]
    except ValueError:
        return None


def generate(rng, tier):
    cases = list(gen_options_grid()) + gen_names_grid()
    n_meta, n_tree, n_opt = (800, 500, 250) if tier == "quick" else (16000, 7000, 3500)
    n_names, n_fs, n_sess = (400, 300, 120) if tier == "quick" else (5000, 4000, 1500)
    if tier == "thorough":
        cases.extend(gen_options_dup_grid())
    for _ in range(n_names):
        cases.append(gen_names(rng))
    for _ in range(n_fs):
        cases.append(gen_fs(rng))
    for _ in range(n_sess):
        cases.append(gen_session(rng))
    cases.extend(gen_chain_grid())
    for _ in range(200 if tier == "quick" else 3000):
        cases.append(gen_chain(rng))
    for i in range(n_meta):
        inline, user = gen_inline(rng)
        cases.append({"kind": "meta", "inline": inline, "user": user, "fseed": rng.randint(0, 2 ** 31)})
        if i % 2:
            cases[-1]["fs_style"] = 1
    for i in range(n_tree):
        cases.append({"kind": "tree", "main": gen_tree_diamond(rng) if i % 4 == 0 else gen_tree(rng), "user": {}})
    for _ in range(n_opt):
        cases.append(gen_options_random(rng))
    return cases


# =================================================================== implementation
def _two_iterations(f):
    """target_number that makes the recipe run exactly two iterations: twice the rows one iteration
    gives the table of the first top-level template (None if that is not a literal number)"""
    objs = [it for it in f["items"] if it["t"] == "obj"]
    if not objs:
        return None
    per = sum((it.get("count") if it.get("count") is not None else 1) for it in objs if it["table"] == objs[0]["table"])
    return [2 * per, objs[0]["table"]] if per > 0 else None


def _parse_and_run(src, user, target=None, cont_in=None, cont_out=None):
    """src: a path, or a function returning a fresh stream of the recipe text
    -> (parse observable, rows observable, merged observable)"""
    from snowfakery import generate_data
    from snowfakery.parse_recipe_yaml import parse_recipe
    from snowfakery.data_generator import merge_options
    parse, merged = None, None
    try:
        if callable(src):
            pr = parse_recipe(src())
        else:
            with open(src) as fh:
                pr = parse_recipe(fh)
        try:
            parse = {"ok": canon_parse(pr)}
        except (AttributeError, KeyError, TypeError) as e:
            # the object model's attribute names changed: the parse result cannot be observed
            # (not a property violation); rows are still compared
            parse = {"skip": f"{type(e).__name__}: {e}"}
    except BaseException as e:
        if isinstance(e, C._CaseTimeout):
            raise
        parse = {"err": C.canon_exc(e)}
        pr = None
    if pr is not None:
        try:
            options, extra = merge_options(pr.options, dict(user))
            merged = {"ok": {"options": [[k, tag(v)] for k, v in options.items()], "extra": sorted(extra)}}
        except BaseException as e:
            if isinstance(e, C._CaseTimeout):
                raise
            merged = {"err": C.canon_exc(e)}
    out = io.StringIO()
    try:
        kw = {"target_number": (target[0], target[1])} if target else {}
        if cont_in:
            kw["continuation_file"] = cont_in
        if cont_out:
            kw["generate_continuation_file"] = cont_out
        generate_data(src() if callable(src) else src, user_options=dict(user), output_format="json",
                      output_file=out, **kw)
        txt = out.getvalue()
        data = json.loads(txt) if txt.strip() else []        # no rows at all: empty output
        rows = {"ok": [[[k, v] for k, v in row.items()] for row in data]}
    except BaseException as e:
        if isinstance(e, C._CaseTimeout):
            raise
        rows = {"err": C.canon_exc(e)}
    return parse, rows, merged


class _Reject(Exception):
    pass


def os_inline(root, rel="main.yml", stack=()):
    """reference for a file system case, by the property's statement: the single file that has every
    included file's lines written inline at the top (included files first, in the order of the
    include_file lines, then the file's own lines).  Paths are followed by the
    operating system (os.path.isfile / realpath on the files the harness wrote), relative to the
    directory of the including file; raises _Reject for a missing file or a file that includes
    itself directly or through others."""
    import yaml
    path = os.path.join(root, rel)
    with open(path) as fh:
        data = yaml.safe_load(fh) or []
    me = os.path.realpath(path)
    out = []
    for it in data:
        if isinstance(it, dict) and it.get("include_file"):
            tgt = os.path.join(os.path.dirname(path), it["include_file"])
            if not os.path.isfile(tgt):
                raise _Reject("missing")
            real = os.path.realpath(tgt)
            if real == me or real in stack:
                raise _Reject("cycle")
            out.extend(os_inline(root, os.path.relpath(tgt, root), stack + (me,)))
    out.extend(it for it in data if not (isinstance(it, dict) and it.get("include_file")))
    return out


def _text_source(text):
    return lambda: io.StringIO(text)


def _run_names(case):
    import yaml
    from snowfakery import generate_data
    text = yaml.safe_dump(names_recipe(case), sort_keys=False, default_flow_style=False)
    out = io.StringIO()
    try:
        generate_data(io.StringIO(text), user_options=dict(case["user"]), output_format="json", output_file=out)
        txt = out.getvalue()
        rows = {"ok": json.loads(txt) if txt.strip() else []}
    except BaseException as e:
        if isinstance(e, C._CaseTimeout):
            raise
        rows = {"err": C.canon_exc(e)}
    return {"rows": rows}


def _run_fs(case, tmp):
    import yaml
    root = os.path.join(tmp, "fs")
    write_fs(case["files"], root)
    p, r, m = _parse_and_run(os.path.join(root, "main.yml"), case["user"])
    obs = {"parse": p, "rows": r, "merged": m}
    try:
        data = os_inline(root)
        text = yaml.safe_dump(data, sort_keys=False, default_flow_style=False) if data else "[]\n"
        ip, ir, im = _parse_and_run(_text_source(text), case["user"])
        obs["inline"] = {"parse": ip, "rows": ir, "merged": im}
    except _Reject as e:
        obs["inline"] = {"reject": str(e)}
    return obs


def _run_session(case, tmp):
    steps_obs = []
    prev = {}                     # continuation files of the previous step: {"tree": path, "inline": path}
    for k, st in enumerate(case["steps"]):
        a, b, info = factorings(st)
        d = os.path.join(tmp, st["dir"])
        shutil.rmtree(d, ignore_errors=True)          # the step's files replace what an earlier step left there
        write_tree(b, os.path.join(d, "main.yml"))
        # continue only a run that succeeded (a failed run leaves an empty continuation file behind)
        use_cont = bool(st.get("cont")) and len(prev) == 2 and all(os.path.exists(x) for x in prev.values()) and \
            all("ok" in steps_obs[-1][key]["rows"] for key in ("tree", "inline"))
        conts = {key: os.path.join(tmp, "cont_%s_%d.yml" % (key, k)) for key in ("tree", "inline")}
        p, r, m = _parse_and_run(os.path.join(d, "main.yml"), st["user"],
                                 cont_in=prev["tree"] if use_cont else None, cont_out=conts["tree"])
        ip, ir, im = _parse_and_run(_text_source(file_text(st["inline"])), st["user"],
                                    cont_in=prev["inline"] if use_cont else None, cont_out=conts["inline"])
        steps_obs.append({"info": info, "continued": use_cont,
                          "tree": {"parse": p, "rows": r, "merged": m},
                          "inline": {"parse": ip, "rows": ir, "merged": im}})
        prev = conts
    return {"steps": steps_obs, "parse": steps_obs[-1]["tree"]["parse"]}


def _run_chain_cli(tmp, k, text, link, prev):
    """one link started the way the command line starts it: snowfakery <recipe> --option n v ...
    [--continuation-file f] --generate-continuation-file g -> (rows observable, continuation text | None)"""
    import click
    from snowfakery.cli import generate_cli
    paths = {key: os.path.join(tmp, "cli_%s_%d" % (key, k)) for key in ("recipe.yml", "out.json", "cont.yml", "prev.yml")}
    with open(paths["recipe.yml"], "w") as w:
        w.write(text)
    args = [paths["recipe.yml"], "--output-format", "json", "--output-file", paths["out.json"],
            "--generate-continuation-file", paths["cont.yml"]]
    if prev is not None:
        with open(paths["prev.yml"], "w") as w:
            w.write(prev)
        args += ["--continuation-file", paths["prev.yml"]]
    for name, v in link["user"].items():
        args += ["--option", name, str(v)]
    try:
        import contextlib
        with contextlib.redirect_stdout(io.StringIO()), contextlib.redirect_stderr(io.StringIO()):
            generate_cli.main(args, standalone_mode=False)
        with open(paths["out.json"]) as r:
            txt = r.read()
        with open(paths["cont.yml"]) as r:
            cont = r.read()
        return {"ok": json.loads(txt) if txt.strip() else []}, cont
    except click.ClickException as e:
        # the command line reports a recipe error as a ClickException chained to the DataGenError
        cause = e.__cause__
        return {"err": C.canon_exc(cause) if cause is not None else "ClickException"}, None
    except BaseException as e:
        if isinstance(e, C._CaseTimeout):
            raise
        return {"err": C.canon_exc(e)}, None


def _run_chain(case, tmp):
    """the links one after the other in this process; a link with `cont` continues the last link
    that succeeded (its continuation file handed over as text or as a file on disk)"""
    from snowfakery import generate_data
    prev = None                   # text of the continuation file of the last successful run
    out_links = []
    for k, link in enumerate(case["links"]):
        text = chain_text(case, link)
        use_cont = bool(link.get("cont")) and prev is not None
        out = io.StringIO()
        kw, fh = {}, None
        cont_path = os.path.join(tmp, "cont_%d.yml" % k)
        if link.get("via") == "cli":
            rows, new_prev = _run_chain_cli(tmp, k, text, link, prev if use_cont else None)
            prev = new_prev if new_prev is not None else prev
            out_links.append({"continued": use_cont, "rows": rows})
            continue
        try:
            if use_cont:
                if link.get("via") == "path":
                    with open(os.path.join(tmp, "prev_%d.yml" % k), "w") as w:
                        w.write(prev)
                    fh = open(os.path.join(tmp, "prev_%d.yml" % k))
                    kw["continuation_file"] = fh
                else:
                    kw["continuation_file"] = io.StringIO(prev)
            new_cont = io.StringIO() if link.get("via") != "path" else None
            kw["generate_continuation_file"] = new_cont if new_cont is not None else cont_path
            generate_data(io.StringIO(text), user_options=dict(link["user"]), output_format="json",
                          output_file=out, **kw)
            txt = out.getvalue()
            rows = {"ok": json.loads(txt) if txt.strip() else []}
            if new_cont is not None:
                prev = new_cont.getvalue()
            else:
                with open(cont_path) as r:
                    prev = r.read()
        except BaseException as e:
            if isinstance(e, C._CaseTimeout):
                raise
            rows = {"err": C.canon_exc(e)}
        finally:
            if fh is not None:
                fh.close()
        out_links.append({"continued": use_cont, "rows": rows})
    return {"links": out_links}


def options_file(case):
    """the recipe of an options case: the declarations and one template showing every declared name"""
    items = [dict(d, t="opt") for d in case["decls"]]
    names = []
    for d in case["decls"]:
        if d["name"] not in names:
            names.append(d["name"])
    items.append({"t": "obj", "table": "A", "include": [], "friends": [], "count": None,
                  "fields": [["f_" + n, "${{%s}}" % n] for n in names]})
    return {"items": items}


def run_impl(case):
    kind = case["kind"]
    tmp = tempfile.mkdtemp(prefix="sfv_c14_", dir="/var/tmp")
    try:
        if kind == "meta":
            a, b, info = factorings(case)
            obs = {"info": info}
            target = _two_iterations(case["inline"])
            for key, f in (("inline", case["inline"]), ("macro", a), ("tree", b)):
                d = os.path.join(tmp, key)
                write_tree(f, os.path.join(d, "main.yml"))
                p, r, m = _parse_and_run(os.path.join(d, "main.yml"), case["user"], target)
                obs[key] = {"parse": p, "rows": r, "merged": m}
            obs["parse"] = obs["tree"]["parse"]
            return obs
        if kind == "tree":
            write_tree(case["main"], os.path.join(tmp, "main.yml"))
            p, r, m = _parse_and_run(os.path.join(tmp, "main.yml"), case["user"])
            return {"parse": p, "rows": r, "merged": m}
        if kind == "options":
            write_tree(options_file(case), os.path.join(tmp, "main.yml"))
            p, r, m = _parse_and_run(os.path.join(tmp, "main.yml"), case["user"])
            return {"parse": p, "rows": r, "merged": m}
        if kind == "names":
            return _run_names(case)
        if kind == "fs":
            return _run_fs(case, tmp)
        if kind == "session":
            return _run_session(case, tmp)
        if kind == "chain":
            return _run_chain(case, tmp)
        raise ValueError(kind)
    finally:
        shutil.rmtree(tmp, ignore_errors=True)


# =================================================================== model side
def _cfields(fields):
    return C.clist(C.cpair(C.cstr(n), C.cstr(rdef(v))) for n, v in fields)


def _cnames(names):
    return C.clist(C.cstr(n) for n in names)


def _cstr_tabs(s):
    """Coq string literal for a string that may hold tab characters"""
    parts = s.split("\t")
    term = C.cstr(parts[-1])
    for part in reversed(parts[:-1]):
        term = f'({C.cstr(part)} ++ String "009"%char {term})'
    return term


def _cinc(it):
    return f"(split_includes {_cstr_tabs(raw_include(it))})"


def _cfriends(frs):
    return C.clist(C.cstr(rfriend(x)) for x in frs)


def cfile(f):
    incs, opts, macs, stmts = [], [], [], []
    for it in f["items"]:
        t = it["t"]
        if t == "inc":
            incs.append("None" if it["file"] is None else f"(Some {cfile(it['file'])})")
        elif t == "opt":
            d = f"(Some {coval(tag(it['default']))})" if it["has_default"] else "None"
            opts.append(f"(mkOpt {C.cstr(it['name'])} {d})")
        elif t == "macro":
            macs.append(C.cpair(C.cstr(it["name"]),
                                f"mkMacro {_cinc(it)} {_cfields(it['fields'])} {_cfriends(it['friends'])}"))
        elif t == "obj":
            stmts.append(f"(SObj {C.cstr(it['table'])} {_cinc(it)} {_cfields(it['fields'])} {_cfriends(it['friends'])})")
        elif t == "var":
            stmts.append(f"(SVar {C.cstr(it['name'])} {C.cstr(rdef(it['value']))})")
    return f"(File {C.clist(incs)} {C.clist(opts)} {C.clist(macs)} {C.clist(stmts)})"


def cpath(rel):
    return C.clist(C.cstr(x) for x in rel.split("/"))


def cfs(files):
    """{relative path: file node} -> fsys; include_file strings split at '/' """
    ents = []
    for rel, f in files.items():
        incs, opts, macs, stmts = [], [], [], []
        for it in f["items"]:
            t = it["t"]
            if t == "inc":
                incs.append(cpath(it["path"]))
            elif t == "opt":
                d = f"(Some {coval(tag(it['default']))})" if it["has_default"] else "None"
                opts.append(f"(mkOpt {C.cstr(it['name'])} {d})")
            elif t == "macro":
                macs.append(C.cpair(C.cstr(it["name"]),
                                    f"mkMacro {_cinc(it)} {_cfields(it['fields'])} {_cfriends(it['friends'])}"))
            elif t == "obj":
                stmts.append(f"(SObj {C.cstr(it['table'])} {_cinc(it)} {_cfields(it['fields'])} {_cfriends(it['friends'])})")
            elif t == "var":
                stmts.append(f"(SVar {C.cstr(it['name'])} {C.cstr(rdef(it['value']))})")
        ents.append(C.cpair(cpath(rel), f"FsFile {C.clist(incs)} {C.clist(opts)} {C.clist(macs)} {C.clist(stmts)}"))
    return C.clist(ents)


def _cfs_run(files, p):
    return C.cpair(C.cpair(cfs(files), cpath("main.yml")), _cparse_expected(p))


LAYERS = ["builtin", "option", "object", "field", "plugin", "var", "func"]


def _clayer_val(v):
    return coval(["s", v]) if isinstance(v, str) else coval(v)


def _cseen(case, obs):
    rows = obs.get("rows")
    if not rows or "ok" not in rows or names_value(case)[0] != "value":
        return None
    name = case["name"]
    probes = []
    for site, i, fld, seen in names_probes(case, rows["ok"]):
        lay = names_layers(case, site, i, fld)
        allowed = []
        for l in LAYERS:
            v = lay.get(l)
            if v is None:
                continue
            if isinstance(v, str) or shown(v, case["shape"]) == str(seen):
                allowed.append(_clayer_val(v))        # opaque objects may show anything
        if not allowed:
            allowed = [coval(["s", "?nothing-explains-the-value"])]
        sc = " ".join(C.clist([C.cpair(C.cstr(name), _clayer_val(lay[l]))] if (l in lay and l != "option") else [])
                      for l in LAYERS)
        probes.append(C.cpair(C.cpair(f"(mkScopes {sc})", C.cstr(name)), C.clist(allowed)))
    decls = C.clist([f"mkOpt {C.cstr(name)} " + (f"(Some {coval(tag(case['decl']['default']))})"
                                                   if case["decl"]["has_default"] else "None"),
                     f"mkOpt {C.cstr('n')} (Some {coval(['i', 7])})"])
    user = C.clist(C.cpair(C.cstr(k), coval(tag(v))) for k, v in case["user"].items())
    return f"CSeen {decls} {user} {C.clist(probes)}"


def _cparse_expected(p):
    def ok(v):
        st = []
        for s in v["stmts"]:
            if s[0] == "obj":
                st.append(f"PObj {C.cstr(s[1])} {C.clist(C.cpair(C.cstr(n), C.cstr(d)) for n, d in s[2])} {_cnames(s[3])}")
            else:
                st.append(f"PVar {C.cstr(s[1])} {C.cstr(s[2])}")
        op = [f"mkOpt {C.cstr(n)} " + (f"(Some {coval(t)})" if hd else "None") for n, hd, t in v["opts"]]
        return C.cpair(C.clist(st), C.clist(op))
    return C.cresult(p, ok)


def _printable(s):
    return all(32 <= ord(ch) < 127 for ch in s)


def coq_case(case, obs):
    kind = case["kind"]
    if kind in ("meta", "tree"):
        f = factorings(case)[1] if kind == "meta" else case["main"]
        p = obs.get("parse")
        if p is None or "skip" in p:
            return None
        term = f"CParse {cfile(f)} {_cparse_expected(p)}"
        return term if _printable(term) else None
    if kind == "names":
        term = _cseen(case, obs)
        return term if term and _printable(term) else None
    if kind == "fs":
        p = obs.get("parse")
        if p is None or "skip" in p:
            return None
        term = f"CFs [{_cfs_run(case['files'], p)}]"
        return term if _printable(term) else None
    if kind == "session":
        runs = []
        for st, o in zip(case["steps"], obs.get("steps", [])):
            p = o["tree"]["parse"]
            if p is None or "skip" in p:
                return None
            runs.append(_cfs_run(tree_fs(factorings(st)[1]), p))
        term = f"CFs {C.clist(runs)}"
        return term if _printable(term) else None
    if kind == "chain":
        links, exp = [], []
        for link, o in zip(case["links"], obs.get("links", [])):
            names = [d["name"] for d in link["decls"]]
            if len(set(names)) != len(names):
                return None
            decls = C.clist(f"mkOpt {C.cstr(d['name'])} " + (f"(Some {coval(tag(d['default']))})" if d["has_default"] else "None")
                            for d in link["decls"])
            user = C.clist(C.cpair(C.cstr(k), coval(tag(v))) for k, v in link["user"].items())
            # a failed run leaves no continuation: the model, like the harness, goes on from the last good run
            links.append(f"(mkLink {decls} {user} {C.cbool(bool(link.get('cont')))})")
            r = o["rows"]
            if "ok" in r:
                first = [row for row in r["ok"] if row.get("_table") == "Row"][:1]
                if not first:
                    return None
                seen = [[n, chain_decode(first[0], n)] for n in names]
                if any(t is None for _, t in seen):
                    return None          # what the row shows is not one of the typed values: the oracle speaks
                if link.get("via") == "cli" and any(
                        n in link["user"] and t != tag(link["user"][n]) and str(t[-1]) == str(link["user"][n])
                        for n, t in seen):
                    return None          # the command line's own reading of the text (numbers) is not modelled
                exp.append({"ok": seen})
            else:
                exp.append({"err": r["err"]})
        if len(links) != len(case["links"]):
            return None
        term = (f"CChain {C.clist(links)} " +
                C.clist(C.cresult(e, lambda v: C.clist(C.cpair(C.cstr(k), coval(t)) for k, t in v)) for e in exp))
        return term if _printable(term) else None
    if kind == "options":
        m = obs.get("merged")
        if m is None:        # the recipe itself did not parse: nothing of merge_options to compare
            return None
        decls = C.clist(f"mkOpt {C.cstr(d['name'])} " + (f"(Some {coval(tag(d['default']))})" if d["has_default"] else "None")
                        for d in case["decls"])
        user = C.clist(C.cpair(C.cstr(k), coval(tag(v))) for k, v in case["user"].items())
        exp = C.cresult(m, lambda v: C.cpair(C.clist(C.cpair(C.cstr(k), coval(t)) for k, t in v["options"]),
                                             _cnames(v["extra"])))
        return f"CMerge {decls} {user} {exp}"


# =================================================================== property oracle (implementation only)
def _final_macros(f, env=None):
    """macro table after all files were read: later definitions (flatten order) win"""
    env = {} if env is None else env
    for it in f["items"]:
        if it["t"] == "inc" and it["file"] is not None:
            _final_macros(it["file"], env)
    for it in f["items"]:
        if it["t"] == "macro":
            env[it["name"]] = it
    return env


def _all_templates(f, out=None):
    out = [] if out is None else out
    for it in f["items"]:
        if it["t"] == "inc" and it["file"] is not None:
            _all_templates(it["file"], out)
    for it in f["items"]:
        if it["t"] == "obj":
            out.append(it)
    return out


def _has_missing(f):
    return any(it["t"] == "inc" and (it["file"] is None or _has_missing(it["file"])) for it in f["items"])


def _bad_include(names, env):
    """'unknown' / 'cycle' / None: does expanding these includes hit an undefined macro or a cycle?"""
    def walk(n, stack):
        if n not in env:
            return "unknown"
        if n in stack:
            return "cycle"
        for c in env[n]["include"]:
            r = walk(c, stack + [n])
            if r:
                return r
        return None
    for n in names:
        r = walk(n, [])
        if r:
            return r
    return None


def _hand_expand(names, env):
    """the macro fields / friends "written first": every include expanded where it stands, a macro's
    own includes before its own fields (no de-duplication); None if a macro is unknown or cyclic"""
    fields, friends = [], []

    def walk(n, stack):
        if n not in env or n in stack:
            return False
        for c in env[n]["include"]:
            if not walk(c, stack + [n]):
                return False
        fields.extend(env[n]["fields"])
        friends.extend(env[n]["friends"])
        return True
    for n in names:
        if not walk(n, []):
            return None
    return fields, friends


def _spec_template(t, env):
    """expected (field list, friends) of template t by the property's statement: macro fields first,
    later definitions override earlier ones, own fields override all, each field once"""
    h = _hand_expand(t["include"], env)
    if h is None:
        return None
    order, last = [], {}
    for n, v in h[0] + t["fields"]:
        if n not in last:
            order.append(n)
        last[n] = v
    return [[n, rdef(last[n])] for n in order], [rfriend(x) for x in h[1] + t["friends"]]


def expected_option(decl, user):
    if decl["name"] in user:
        return ("value", user[decl["name"]])
    if decl["has_default"]:
        return ("value", decl["default"])
    return ("error", None)


def _option_rule(decls, user, obs, where):
    """the property's rule for options, on merge_options' typed result and on what ${{name}} shows"""
    m, rows = obs.get("merged"), obs.get("rows")
    names = [d["name"] for d in decls]
    if len(set(names)) != len(names):
        # an option declared twice: only "a supplied value wins" is unambiguous
        if m and "ok" in m:
            got = dict((k, t) for k, t in m["ok"]["options"])
            for n in set(names):
                if n in user and got.get(n) != tag(user[n]):
                    return f"options: {where}: option {n} supplied as {user[n]!r} but merge_options gives {got.get(n)}"
        return None
    exp = {d["name"]: expected_option(d, user) for d in decls}
    must_fail = any(k == "error" for k, _ in exp.values())
    if m is None:
        return None
    if must_fail:
        if "ok" in m:
            return f"options: {where}: an option with neither user value nor default was accepted: {m['ok']}"
        if m["err"] != "DGE":
            return f"options: {where}: missing option reported as {m['err']} instead of a recipe error"
        if rows and "ok" in rows:
            return f"options: {where}: generate_data succeeded although an option has no value"
        return None
    if "err" in m:
        return f"options: {where}: merge_options failed ({m['err']}) although every option has a user value or a default"
    got = dict((k, t) for k, t in m["ok"]["options"])
    for n, (_, v) in exp.items():
        if got.get(n) != tag(v):
            return (f"options: {where}: option {n}: user={user.get(n, '<absent>')!r} "
                    f"default={[d for d in decls if d['name'] == n][0]} -> merge_options gives {got.get(n)}, expected {tag(v)}")
    extra = sorted(k for k in user if k not in names)
    if m["ok"]["extra"] != extra:
        return f"options: {where}: extra options {m['ok']['extra']} != undeclared user options {extra}"
    return None


def _seen_rule(case, obs):
    """options kind: the row of template A shows str(value) for every declared option"""
    rows = obs.get("rows")
    decls, user = case["decls"], case["user"]
    names = [d["name"] for d in decls]
    if not rows or "ok" not in rows or len(set(names)) != len(names):
        return None
    exp = {d["name"]: expected_option(d, user) for d in decls}
    if any(k == "error" for k, _ in exp.values()):
        return None
    row = dict((k, v) for k, v in rows["ok"][0]) if rows["ok"] else {}
    for n, (_, v) in exp.items():
        seen = row.get("f_" + n)
        if str(seen) != str(v):
            return f"options: ${{{{{n}}}}} shows {seen!r} but the option's value is {v!r} (user={user.get(n, '<absent>')!r})"
    return None


def oracle(case, obs):
    kind = case["kind"]
    if kind == "meta":
        base = obs["inline"]
        for key, what in (("macro", "fields factored into macros"), ("tree", "statements factored into include files")):
            o = obs[key]
            if "skip" not in o["parse"] and "skip" not in base["parse"] and o["parse"] != base["parse"]:
                return (f"transparency: {what}: parsed templates differ from the inline recipe: "
                        f"{json.dumps(o['parse'])[:400]} vs inline {json.dumps(base['parse'])[:400]}")
            if o["rows"] != base["rows"]:
                return (f"transparency: {what}: rows differ from the inline recipe: "
                        f"{json.dumps(o['rows'])[:400]} vs inline {json.dumps(base['rows'])[:400]}")
        if "err" in base["parse"]:
            return f"transparency: the inline recipe itself was rejected at parse time ({base['parse']['err']})"
        decls = [it for it in case["inline"]["items"] if it["t"] == "opt"]
        return _option_rule(decls, case["user"], obs["tree"], "file-factored recipe")
    if kind == "tree":
        p = obs["parse"]
        if "skip" in p:
            return None
        f = case["main"]
        env = _final_macros(f)
        bad = None
        for t in _all_templates(f):
            bad = bad or _bad_include(t["include"], env)
        if "ok" in p:
            for s in p["ok"]["stmts"]:
                if s[0] == "obj":
                    ns = [n for n, _ in s[2]]
                    if len(set(ns)) != len(ns):
                        return f"dedupe: template {s[1]} has a field twice: {ns}"
            if bad:
                return f"macros: a template includes a macro chain with an {bad} macro but the recipe was accepted"
            if _has_missing(f):
                return "include_file: a missing include file was accepted"
            objs = [s for s in p["ok"]["stmts"] if s[0] == "obj"]
            tmpls = _all_templates(f)
            if len(objs) == len(tmpls):
                for s, t in zip(objs, tmpls):
                    exp = _spec_template(t, env)
                    if exp is not None and s[1] == t["table"] and (s[2] != exp[0] or s[3] != exp[1]):
                        return (f"transparency: template {t['table']} include={t['include']}: parsed fields/friends "
                                f"{json.dumps([s[2], s[3]])[:300]} differ from the macro fields written first "
                                f"{json.dumps(list(exp))[:300]}")
        else:
            if p["err"] != "DGE":
                return f"macros: recipe rejected with {p['err']} instead of a recipe error"
        return None
    if kind == "options":
        return _option_rule(case["decls"], case["user"], obs, "recipe") or _seen_rule(case, obs)
    if kind == "names":
        return _names_oracle(case, obs)
    if kind == "fs":
        return _fs_oracle(case, obs)
    if kind == "chain":
        return _chain_oracle(case, obs)
    if kind == "session":
        for k, (st, o) in enumerate(zip(case["steps"], obs["steps"])):
            msg = _same_as_inline(o["tree"], o["inline"],
                                  f"session step {k + 1}/{len(case['steps'])} ({st['how']}, directory {st['dir']}"
                                  f"{', continued' if o['continued'] else ''}): statements factored into include files")
            if msg:
                return msg
        return None


def _chain_oracle(case, obs):
    """the option rule at every link of a history, from the link's OWN inputs: every row of Row / Kid
    (and of Once, in a run that does not continue another) shows, for every declared option, the
    value this link supplies, else the default this link's recipe declares; the run is a recipe
    error iff an option of this link has neither"""
    n_links = len(case["links"])
    hist = []
    for k, (link, o) in enumerate(zip(case["links"], obs["links"])):
        names = [d["name"] for d in link["decls"]]
        rows = o["rows"]
        hist.append(("continues" if o["continued"] else "fresh") + " user=" + json.dumps(link["user"], sort_keys=True))
        where = (f"chain run {k + 1}/{n_links} (history: {' | '.join(hist)}; declared: "
                 f"{ {d['name']: (d['default'] if d['has_default'] else '<no default>') for d in link['decls']} })")
        if len(set(names)) != len(names):
            continue
        exp = {d["name"]: expected_option(d, link["user"]) for d in link["decls"]}
        missing = sorted(n for n, (kd, _) in exp.items() if kd == "error")
        if missing:
            if "ok" in rows:
                return (f"options: {where}: option {missing[0]} has neither a value supplied to this run nor a "
                        f"default, but the run succeeded")
            if rows["err"] != "DGE":
                return f"options: {where}: missing option {missing[0]} reported as {rows['err']} instead of a recipe error"
            continue
        if "err" in rows:
            return (f"options: {where}: every option has a supplied value or a default but the run failed "
                    f"with {rows['err']}")
        n_row = 0
        for row in rows["ok"]:
            tb = row.get("_table")
            if tb == "Once" and o["continued"]:
                continue                      # a just_once row of an earlier run is not this run's business
            for n, (_, v) in exp.items():
                if tb in ("Row", "Once"):
                    n_row += tb == "Row"
                    want_t = shown(tag(v), CHAIN_SHAPE)
                    typed = not (link.get("via") == "cli" and n in link["user"])   # --option text: str() only
                    if "f_" + n in row and str(row["f_" + n]) != str(v) or \
                            typed and "t_" + n in row and str(row["t_" + n]) != want_t:
                        return (f"options: {where}: ${{{{{n}}}}} in table {tb} shows {row.get('f_' + n)!r} "
                                f"(is string;is none = {row.get('t_' + n)!r}) but by this run's inputs it is {v!r}")
                elif tb == "Kid":
                    if "g_" + n in row and str(row["g_" + n]) != "x" + str(v) + "y":
                        return (f"options: {where}: x${{{{{n}}}}}y in table Kid shows {row['g_' + n]!r} "
                                f"but by this run's inputs the option is {v!r}")
        if names and not n_row:
            return f"options: {where}: the run made no row of table Row"
    return None


def _same_as_inline(o, base, what):
    if "skip" not in o["parse"] and "skip" not in base["parse"] and o["parse"] != base["parse"]:
        return (f"transparency: {what}: parsed templates differ from the inline recipe: "
                f"{json.dumps(o['parse'])[:400]} vs inline {json.dumps(base['parse'])[:400]}")
    if o["rows"] != base["rows"]:
        return (f"transparency: {what}: rows differ from the inline recipe: "
                f"{json.dumps(o['rows'])[:400]} vs inline {json.dumps(base['rows'])[:400]}")
    return None


def _fs_oracle(case, obs):
    p, base = obs["parse"], obs["inline"]
    if "reject" in base:
        if "ok" in p or "ok" in obs["rows"]:
            return (f"include_file: a recipe with a {base['reject']} include file "
                    f"({'file that includes itself' if base['reject'] == 'cycle' else 'missing file'}) was accepted")
        if "err" in p and p["err"] != "DGE":
            return f"include_file: {base['reject']} include file reported as {p['err']} instead of a recipe error"
        return None
    return _same_as_inline(obs, base, "include files followed from the including file's directory")


def _names_closer(case, lay):
    return [l for l in ("object", "field", "plugin", "var", "func") if l in lay]


def _names_oracle(case, obs):
    """the property's option rule as formulas see it: ${{name}} shows the supplied value, else the
    default, wherever no closer scope (object name, own field, plugin, variable, function) defines
    the name; whatever the name is"""
    name, rows = case["name"], obs["rows"]
    kind, v = names_value(case)
    how = f"user={case['user'].get(name, '<absent>')!r} default={case['decl']['default'] if case['decl']['has_default'] else '<none>'!r}"
    if kind == "error":
        if "ok" in rows:
            return f"options: option {name} has neither a user value nor a default but the recipe ran"
        if rows["err"] != "DGE":
            return f"options: missing option {name} reported as {rows['err']} instead of a recipe error"
        return None
    opaque_everywhere = case["plugin"] or name in FUNC_NAMES or \
        case["obj"] in ("table_before", "nick_before", "table_after", "nick_after")
    if "err" in rows:
        if not opaque_everywhere and not case["obj"]:
            return (f"names: option {name} ({how}) has the value {v!r} but the recipe that reads "
                    f"${{{{{name}}}}} failed with {rows['err']}")
        return None
    if case["count_read"]:
        got = sum(1 for r in rows["ok"] if r.get("_table") == "R")
        if got != int(v):
            return (f"names: `count: ${{{{{name}}}}}` made {got} rows but option {name} is {v!r} ({how})")
    rn = [r.get("rn") for r in rows["ok"] if r.get("_table") == "R"]
    if any(str(x) != "7" for x in rn):
        return f"names: option n (default 7) shows {rn} next to option {name}"
    for site, i, fld, seen in names_probes(case, rows["ok"]):
        lay = names_layers(case, site, i, fld)
        if _names_closer(case, lay):
            continue
        want = shown(tag(v), case["shape"])
        if str(seen) != want:
            return (f"names: {shape_text(case['shape'], name)} in {names_tables(case)[site]}.{fld} (row {i + 1}) shows "
                    f"{seen!r} but option {name} is {v!r} ({how}) and no closer scope defines {name}")
    return None


def violation_class(case, obs, msg):
    return msg.split(":")[0] + ":" + case["kind"]


# =================================================================== evidence
def _count_items(f, c):
    for it in f["items"]:
        c[it["t"]] += 1
        if it["t"] == "inc":
            if it["file"] is None:
                c["inc_missing"] += 1
            else:
                _count_items(it["file"], c)
        if it["t"] in ("obj", "macro") and it["include"]:
            c[it["t"] + "_with_include"] += 1


def chain_events(case, obs):
    """per link: how it relates to its history (for evidence)"""
    out = []
    supplied_before = {}          # option -> values supplied by the runs this link's continuation descends from
    for link, o in zip(case["links"], obs.get("links", [])):
        if not o["continued"]:
            supplied_before = {}
        left = [d["name"] for d in link["decls"] if d["name"] not in link["user"] and d["name"] in supplied_before]
        differs = [n for n in left
                   if any(not d["has_default"] or tag(d["default"]) != tag(supplied_before[n])
                          for d in link["decls"] if d["name"] == n)]
        out.append({"continued": o["continued"], "left_out_after_supplied": bool(left),
                    "history_value_differs_from_own": bool(differs),
                    "ok": "ok" in o["rows"], "err": o["rows"].get("err")})
        if "ok" in o["rows"]:
            supplied_before = dict(supplied_before, **link["user"])
    return out


def nontrivial(case, obs):
    if case["kind"] == "meta":
        info = obs.get("info", {})
        return info.get("macros", 0) >= 1 or info.get("files", 0) >= 1
    if case["kind"] == "tree":
        c = Counter()
        _count_items(case["main"], c)
        return c["obj_with_include"] >= 1 or c["inc"] >= 1
    if case["kind"] == "names":
        # the option's name is also defined by some other scope, and the recipe ran
        return "ok" in obs.get("rows", {}) and (case["name"] in BUILTIN_NAMES + FUNC_NAMES or case["plugin"]
                                                or case["var"] or case["field"] or bool(case["obj"]))
    if case["kind"] == "fs":
        return any(it["t"] == "inc" for f in case["files"].values() for it in f["items"])
    if case["kind"] == "session":
        return len(case["steps"]) >= 2 and any(o["info"].get("files", 0) for o in obs.get("steps", []))
    if case["kind"] == "chain":
        # a run that continues another one and leaves out an option its history supplied
        return any(ev["continued"] and ev["left_out_after_supplied"] for ev in chain_events(case, obs))
    return len(case["decls"]) >= 1


def stats(cases, obss):
    kinds = Counter(c["kind"] for c in cases)
    meta = Counter()
    tree = Counter()
    outcomes = Counter()
    optc = Counter()
    namec, fsc, sessc, chainc = Counter(), Counter(), Counter(), Counter()
    for c, o in zip(cases, obss):
        if not isinstance(o, dict):
            continue
        if c["kind"] == "names" and "rows" in o:
            namec["name:" + ("builtin" if c["name"] in BUILTIN_NAMES else "plugin" if c["name"] in PLUGIN_NAMES
                             else "function" if c["name"] in FUNC_NAMES else "ordinary")] += 1
            if c["name"] in BUILTIN_NAMES:
                namec["builtin:" + c["name"]] += 1
            namec["run:" + ("ok" if "ok" in o["rows"] else o["rows"]["err"])] += 1
            kind, v = names_value(c)
            namec["value:" + ("missing" if kind == "error" else "user" if c["name"] in c["user"] else "default")] += 1
            namec["falsy_values"] += kind == "value" and not v
            for k in ("var", "field", "plugin", "count_read"):
                namec["with_" + k] += bool(c[k])
            namec["with_obj:" + str(c["obj"])] += 1
            namec["version3"] += c["version"] == 3
            namec["shape:" + SHAPES[c["shape"]]] += 1
            if "ok" in o["rows"]:
                for site, i, fld, seen in names_probes(c, o["rows"]["ok"]):
                    lay = names_layers(c, site, i, fld)
                    closer = _names_closer(c, lay)
                    namec["probes"] += 1
                    namec["probes:option_visible"] += not closer
                    namec["probes:option_visible_over_builtin"] += (not closer) and "builtin" in lay
                    for l in closer:
                        namec["probes:shadowed_by_" + l] += 1
            continue
        if c["kind"] == "fs" and "inline" in o:
            fsc["files"] += len(c["files"])
            incs = [it["path"] for f in c["files"].values() for it in f["items"] if it["t"] == "inc"]
            fsc["include_lines"] += len(incs)
            fsc["paths_with_dotdot"] += sum(".." in x.split("/") for x in incs)
            fsc["paths_with_dot_or_double_slash"] += sum(x.startswith("./") or "//" in x for x in incs)
            bases = Counter(posixpath.basename(x) for x in c["files"])
            fsc["cases_with_colliding_base_names"] += any(n > 1 for n in bases.values())
            fsc["reference:" + (o["inline"].get("reject") or "accepted")] += 1
            p = o["parse"]
            fsc["parse:" + ("ok" if p and "ok" in p else (p or {}).get("err", "unobservable"))] += 1
            continue
        if c["kind"] == "session" and "steps" in o:
            sessc["sessions"] += 1
            sessc["steps"] += len(c["steps"])
            for st, so in zip(c["steps"], o["steps"]):
                sessc["step:" + st["how"]] += 1
                sessc["step_dir:" + st["dir"]] += 1
                sessc["steps_continued"] += so["continued"]
                sessc["steps_with_files"] += bool(so["info"].get("files"))
                sessc["steps_with_colliding_names"] += bool(so["info"].get("colliding_names"))
                r = so["tree"]["rows"]
                sessc["rows:" + ("ok" if "ok" in r else r["err"])] += 1
            dirs = [st["dir"] for st in c["steps"]]
            sessc["sessions_rewriting_a_directory"] += len(set(dirs)) < len(dirs)
            continue
        if c["kind"] == "chain" and "links" in o:
            chainc["chains"] += 1
            chainc["runs"] += len(c["links"])
            chainc["chains_of_%d" % len(c["links"])] += 1
            chainc["chains_with_just_once_template"] += bool(c.get("once"))
            prev_decls = None
            for link, ev in zip(c["links"], chain_events(c, o)):
                chainc["run:" + ("continues" if ev["continued"] else "fresh")] += 1
                chainc["run:" + ("ok" if ev["ok"] else str(ev["err"]))] += 1
                chainc["continuation_via_" + link.get("via", "text")] += ev["continued"]
                chainc["continued_runs_leaving_out_an_option_their_history_supplied"] += \
                    ev["continued"] and ev["left_out_after_supplied"]
                chainc["...where_the_history_value_differs_from_default_or_no_default"] += \
                    ev["continued"] and ev["history_value_differs_from_own"]
                chainc["runs_with_changed_declarations"] += prev_decls is not None and prev_decls != link["decls"]
                prev_decls = link["decls"]
                for d in link["decls"]:
                    if d["name"] in link["user"]:
                        chainc["option:supplied"] += 1
                        chainc["option:supplied_falsy"] += not link["user"][d["name"]]
                    else:
                        chainc["option:left_out_" + ("with_default" if d["has_default"] else "without_default")] += 1
                chainc["undeclared_user_options"] += sum(1 for k in link["user"] if k not in {d["name"] for d in link["decls"]})
            continue
        if "parse" not in o:
            continue
        p = o["parse"]
        outcomes[c["kind"] + ":parse:" + ("ok" if p and "ok" in p else (p or {}).get("err", "unobservable"))] += 1
        r = o.get("rows") if c["kind"] != "meta" else o["tree"]["rows"]
        outcomes[c["kind"] + ":rows:" + ("ok" if r and "ok" in r else (r or {}).get("err", "none"))] += 1
        if c["kind"] == "meta":
            for k, v in o.get("info", {}).items():
                if k.startswith("max"):
                    meta[k] = max(meta[k], v)
                else:
                    meta["total_" + k] += v
                    meta["cases_with_" + k] += 1 if v else 0
            meta["templates"] += sum(1 for it in c["inline"]["items"] if it["t"] == "obj")
            meta["fields"] += sum(len(it["fields"]) for it in c["inline"]["items"] if it["t"] == "obj")
            meta["cases_with_user_options"] += bool(c["user"])
        elif c["kind"] == "tree":
            _count_items(c["main"], tree)
        else:
            m = o.get("merged") or {}
            optc["merge:" + ("ok" if "ok" in m else m.get("err", "none"))] += 1
            optc["decls"] += len(c["decls"])
            optc["dup_decl_cases"] += len({d["name"] for d in c["decls"]}) != len(c["decls"])
            optc["falsy_user_values"] += sum(1 for v in c["user"].values() if not v)
            optc["falsy_defaults"] += sum(1 for d in c["decls"] if d["has_default"] and not d["default"])
            optc["undeclared_user_options"] += sum(1 for k in c["user"] if k not in {d["name"] for d in c["decls"]})
    return {"kinds": dict(kinds), "meta": dict(meta), "tree_items": dict(tree), "outcomes": dict(outcomes),
            "options": dict(optc), "names": dict(namec), "fs": dict(fsc), "session": dict(sessc), "chain": dict(chainc)}


# =================================================================== shrinking / directed search
def _shrink_file(f):
    items = f["items"]
    for i in range(len(items)):
        yield {"items": items[:i] + items[i + 1:]}
    for i, it in enumerate(items):
        if it["t"] in ("obj", "macro"):
            for j in range(len(it["fields"])):
                yield {"items": items[:i] + [dict(it, fields=it["fields"][:j] + it["fields"][j + 1:])] + items[i + 1:]}
            for j in range(len(it["friends"])):
                yield {"items": items[:i] + [dict(it, friends=it["friends"][:j] + it["friends"][j + 1:])] + items[i + 1:]}
            for j in range(len(it["include"])):
                yield {"items": items[:i] + [dict(it, include=it["include"][:j] + it["include"][j + 1:])] + items[i + 1:]}
            if it["t"] == "obj" and it.get("count") is not None:
                yield {"items": items[:i] + [dict(it, count=None)] + items[i + 1:]}
        if it["t"] == "inc" and it["file"] is not None:
            for g in _shrink_file(it["file"]):
                yield {"items": items[:i] + [dict(it, file=g)] + items[i + 1:]}


def shrink(case):
    kind = case["kind"]
    if kind == "meta":
        for k in list(case["user"]):
            yield dict(case, user={a: b for a, b in case["user"].items() if a != k})
        for g in _shrink_file(case["inline"]):
            yield dict(case, inline=g)
    elif kind == "tree":
        for g in _shrink_file(case["main"]):
            yield dict(case, main=g)
    elif kind == "names":
        for k in ("var", "field", "plugin", "count_read"):
            if case[k]:
                yield dict(case, **{k: False})
        if case["obj"]:
            yield dict(case, obj=None)
        if case["rcount"] > 1:
            yield dict(case, rcount=1)
        if case["shape"]:
            yield dict(case, shape=0)
        if case["version"] == 3:
            yield dict(case, version=2)
        for k in list(case["user"]):
            if k != case["name"]:
                yield dict(case, user={a: b for a, b in case["user"].items() if a != k})
    elif kind == "fs":
        files = case["files"]
        for rel in files:
            if rel != "main.yml":
                yield dict(case, files={k: v for k, v in files.items() if k != rel})
        for rel, f in files.items():
            for i in range(len(f["items"])):
                yield dict(case, files=dict(files, **{rel: {"items": f["items"][:i] + f["items"][i + 1:]}}))
        for k in list(case["user"]):
            yield dict(case, user={a: b for a, b in case["user"].items() if a != k})
    elif kind == "chain":
        links = case["links"]
        for i in range(len(links)):
            if len(links) > 1:
                yield dict(case, links=links[:i] + links[i + 1:])
        if case.get("once"):
            yield dict(case, once=False)
        if case.get("rows", 1) > 1:
            yield dict(case, rows=1)
        allnames = sorted({d["name"] for l in links for d in l["decls"]})
        if len(allnames) > 1:
            for n in allnames:             # one option less, in every link
                yield dict(case, links=[dict(l, decls=[d for d in l["decls"] if d["name"] != n],
                                             user={k: v for k, v in l["user"].items() if k != n}) for l in links])
        for i, l in enumerate(links):
            if l.get("via") in ("path", "cli"):
                yield dict(case, links=links[:i] + [dict(l, via="text")] + links[i + 1:])
            for k in list(l["user"]):
                yield dict(case, links=links[:i] + [dict(l, user={a: b for a, b in l["user"].items() if a != k})] + links[i + 1:])
    elif kind == "session":
        steps = case["steps"]
        for i in range(len(steps)):
            if len(steps) > 1:
                yield dict(case, steps=steps[:i] + steps[i + 1:])
        for i, st in enumerate(steps):
            if st.get("cont"):
                yield dict(case, steps=steps[:i] + [dict(st, cont=False)] + steps[i + 1:])
            if st.get("fs_style"):
                yield dict(case, steps=steps[:i] + [dict(st, fs_style=0)] + steps[i + 1:])
        for i, st in enumerate(steps):
            for g in _shrink_file(st["inline"]):
                yield dict(case, steps=steps[:i] + [dict(st, inline=g)] + steps[i + 1:])
    else:
        for i in range(len(case["decls"])):
            yield dict(case, decls=case["decls"][:i] + case["decls"][i + 1:])
        for k in list(case["user"]):
            yield dict(case, user={a: b for a, b in case["user"].items() if a != k})


def directed_search(rng, disagreeing):
    out = list(gen_options_grid()) + gen_names_grid()
    for _ in range(900):
        out.append(gen_names(rng))
    for _ in range(700):
        out.append(gen_fs(rng))
    for _ in range(300):
        out.append(gen_session(rng))
    out.extend(gen_chain_grid())
    for _ in range(1500):
        out.append(gen_chain(rng))
    # the disagreeing cases' neighbours: the same inline recipes under other factorings
    for c in disagreeing:
        if c.get("kind") == "meta":
            for s in range(8):
                out.append(dict(c, fseed=rng.randint(0, 2 ** 31)))
    for _ in range(2600):
        inline, user = gen_inline(rng)
        out.append({"kind": "meta", "inline": inline, "user": user, "fseed": rng.randint(0, 2 ** 31)})
    for i in range(1600):
        out.append({"kind": "tree", "main": gen_tree_diamond(rng) if i % 3 == 0 else gen_tree(rng), "user": {}})
    for _ in range(1200):
        out.append(gen_options_random(rng))
    return out


def match_finding(case, obs, msg, findings):
    return None
