(* StreamCases.v — correspondence cases of property C08 that involve the parser model
   (StreamParse) and the byte-level codecs (StreamCodecs), on top of Streams.case. *)
From SFV Require Import Base Streams StreamParse StreamCodecs.

(* ------------------------------------------------------------------ helpers: text-keyed association lists *)

Fixpoint tget {A} (k : text) (l : list (text * A)) : option A :=
  match l with
  | [] => None
  | (k0, v) :: r => if text_eqb k0 k then Some v else tget k r
  end.

Fixpoint tremove_one (k : text) (l : list text) : option (list text) :=
  match l with
  | [] => None
  | x :: r => if text_eqb x k then Some r
              else match tremove_one k r with Some r1 => Some (x :: r1) | None => None end
  end.

Fixpoint tperm_eqb (a b : list text) : bool :=
  match a with
  | [] => match b with [] => true | _ => false end
  | x :: r => match tremove_one x b with Some b1 => tperm_eqb r b1 | None => false end
  end.

(* same keys (as a multiset), same cell under every key *)
Definition tassoc_eqb (a b : list (text * cell)) : bool :=
  tperm_eqb (map fst a) (map fst b) &&
  forallb (fun kv => option_eqb cell_eqb (tget (fst kv) b) (Some (snd kv))) a.

(* a is a permutation of b up to [eqb] *)
Fixpoint remove_by {A} (eqb : A -> A -> bool) (x : A) (l : list A) : option (list A) :=
  match l with
  | [] => None
  | y :: r => if eqb x y then Some r
              else match remove_by eqb x r with Some r1 => Some (y :: r1) | None => None end
  end.

Fixpoint perm_by {A} (eqb : A -> A -> bool) (a b : list A) : bool :=
  match a with
  | [] => match b with [] => true | _ => false end
  | x :: r => match remove_by eqb x b with Some b1 => perm_by eqb r b1 | None => false end
  end.

Definition tkeys (l : list (string * cell)) : list (text * cell) :=
  map (fun kv => (text_of_string (fst kv), snd kv)) l.

Definition cell_text (c : cell) : text := match c with CText t => t | _ => [] end.

Fixpoint zip {A B} (a : list A) (b : list B) : list (A * B) :=
  match a, b with
  | x :: r, y :: s => (x, y) :: zip r s
  | _, _ => []
  end.

(* ------------------------------------------------------------------ artefacts as the model writes them *)

(* rows of one table as the cells of its CSV file (header first) *)
Definition csv_table_rows (ti : tinfo) (raws : list row) : result (list (list text)) :=
  do rows <- map_result (fun raw => do cs <- obs_row FCsv ti raw; Ok (map (fun kc => cell_text (snd kc)) cs)) raws;
  Ok (map text_of_string (csv_header ti) :: rows).

Definition csv_table_text (ti : tinfo) (raws : list row) : result text :=
  do rows <- csv_table_rows ti raws; Ok (csv_file rows).

Definition no_tinfo : tinfo := mkTI [] false.

(* the objects of the JSON document *)
Definition json_objects (rows : list (string * row)) : result (list jobject) :=
  map_result (fun tr => do cs <- obs_row FJson no_tinfo (snd tr);
                        Ok ((text_of_string "_table", CText (text_of_string (fst tr))) :: tkeys cs)) rows.

Definition json_text (rows : list (string * row)) : result text :=
  do os <- json_objects rows; Ok (json_doc os).

Definition txt_text (rows : list (string * row)) : result text :=
  do ls <- map_result (fun tr => do cs <- obs_row FTxt no_tinfo (snd tr);
                                 Ok (txt_line (text_of_string (fst tr))
                                       (map (fun kc => (text_of_string (fst kc), cell_text (snd kc))) cs))) rows;
  Ok (concat ls).

(* the rows of a SQL script, each in the physical column order of its table *)
Definition sql_rows (tis : list (string * tinfo)) (rows : list (string * row))
  : result (list (string * list (string * cell))) :=
  map_result (fun tr => match aget (fst tr) tis with
                        | None => Err (Internal "KeyError")
                        | Some ti => do cs <- obs_row FSql ti (snd tr); Ok (fst tr, cs)
                        end) rows.

(* ------------------------------------------------------------------ cases *)

(* ------------------------------------------------------------------ a value-level cache in front of an encoder
   (round 4).  The write path of OutputStream.write_row encodes every cell from its own value.  A cache that
   looks encoded values up by KEY EQUALITY [keq] (functools.lru_cache, a dict: Python's == and hash) in front of
   an encoder [enc], with any eviction policy, any contents left behind by earlier runs of the process:
   [memo_run].  [py_eq]: Python's == on the modelled values (bool / int cross equality, aware datetimes compared
   as instants; on Decimals only textual identity, a sub-relation of ==); compared with CPython on every run
   (XPyEq). *)
Definition days_from_civil (y m d : Z) : Z :=
  let y1 := if m <=? 2 then y - 1 else y in
  let era := y1 / 400 in
  let yoe := y1 - era * 400 in
  let mp := (m + 9) mod 12 in
  let doy := (153 * mp + 2) / 5 + d - 1 in
  let doe := yoe * 365 + yoe / 4 - yoe / 100 + doy in
  era * 146097 + doe - 719468.

Definition instant_us (y m d hh mi ss us off : Z) : Z :=
  ((((days_from_civil y m d * 24 + hh) * 60 + mi - off) * 60) + ss) * 1000000 + us.

Definition py_eq (a b : value) : bool :=
  match a, b with
  | VNull, VNull => true
  | VBool x, VBool y => Bool.eqb x y
  | VBool x, VInt z => z =? (if x then 1 else 0)
  | VInt z, VBool x => z =? (if x then 1 else 0)
  | VInt x, VInt y => x =? y
  | VStr s, VStr t => text_eqb s t
  | VDec s, VDec t => text_eqb s t
  | VDate y m d, VDate y' m' d' => (y =? y') && (m =? m') && (d =? d')
  | VDateTime y m d hh mi ss us None, VDateTime y' m' d' hh' mi' ss' us' None =>
      (y =? y') && (m =? m') && (d =? d') && (hh =? hh') && (mi =? mi') && (ss =? ss') && (us =? us')
  | VDateTime y m d hh mi ss us (Some o), VDateTime y' m' d' hh' mi' ss' us' (Some o') =>
      instant_us y m d hh mi ss us o =? instant_us y' m' d' hh' mi' ss' us' o'
  | _, _ => false
  end.

Section Memo.
  Variable keq : value -> value -> bool.
  Variable enc : value -> result cell.
  Variable evict : list (value * result cell) -> list (value * result cell).

  Definition mcache := list (value * result cell).

  Fixpoint memo_find (v : value) (c : mcache) : option (result cell) :=
    match c with
    | [] => None
    | (k, x) :: r => if keq k v then Some x else memo_find v r
    end.

  Definition memo_cell (c : mcache) (v : value) : result cell * mcache :=
    match memo_find v c with
    | Some x => (x, c)
    | None => let x := enc v in (x, evict ((v, x) :: c))
    end.

  Fixpoint memo_run (c : mcache) (vs : list value) : list (result cell) * mcache :=
    match vs with
    | [] => ([], c)
    | v :: r => let '(x, c1) := memo_cell c v in
                let '(xs, c2) := memo_run c1 r in (x :: xs, c2)
    end.

  Definition cache_sound (c : mcache) : Prop := forall k x, In (k, x) c -> x = enc k.
End Memo.

Inductive xcase :=
| XBase (c : case)
(* the schema the parser hands to the outputs, compared with the columns of the artefacts *)
| XParse (files : list (string * rfile)) (main : rfile) (csv db : list (string * list string))
(* a recipe the parser refuses *)
| XParseErr (files : list (string * rfile)) (main : rfile)
(* the CSV file of one table, as bytes *)
| XCsv (ti : tinfo) (raws : list row) (bytes : text) (exact : bool)
(* the JSON document, as bytes *)
| XJson (rows : list (string * row)) (bytes : text) (exact : bool)
(* the SQL script, as bytes; [cols]: the column order of every table as the script declares it *)
| XSql (tis : list (string * tinfo)) (cols : list (string * list string)) (rows : list (string * row))
       (bytes : text) (exact : bool)
(* the debug text, as bytes (the format cannot be decoded: compared only when it is byte-exact) *)
| XTxt (rows : list (string * row)) (bytes : text)
(* Python's == on two values, as CPython computes it *)
| XPyEq (a b : value) (eq : bool)
| XAll (l : list xcase).

Definition check_csv (ti : tinfo) (raws : list row) (bytes : text) (exact : bool) : bool :=
  match csv_read bytes, map_result (obs_row FCsv ti) raws with
  | Ok (hdr :: data), Ok exp =>
    tperm_eqb hdr (map text_of_string (csv_header ti)) &&
    (length data =? length exp)%nat &&
    forallb (fun de => (length (fst de) =? length hdr)%nat &&
                       tassoc_eqb (tkeys (snd de)) (zip hdr (map CText (fst de)))) (zip data exp) &&
    (negb exact || match csv_table_text ti raws with Ok t => text_eqb t bytes | Err _ => false end)
  | _, _ => false
  end.

Definition check_json (rows : list (string * row)) (bytes : text) (exact : bool) : bool :=
  match json_read bytes, json_objects rows with
  | Ok got, Ok exp =>
    list_eqb tassoc_eqb exp got &&
    (negb exact || text_eqb (json_doc exp) bytes)
  | _, _ => false
  end.

Definition is_insert (s : text) : bool :=
  match strip_prefix insert_prefix s with Some _ => true | None => false end.

Definition check_sql (tis : list (string * tinfo)) (cols : list (string * list string))
           (rows : list (string * row)) (bytes : text) (exact : bool) : bool :=
  match sql_read bytes, sql_rows tis rows, sql_split bytes with
  | Ok got, Ok exp, Ok stmts =>
    (* every inserted tuple has as many values as its table has columns *)
    forallb (fun tc => match tget (fst tc) (map (fun nc => (text_of_string (fst nc), snd nc)) cols) with
                       | Some cs => (length cs =? length (snd tc))%nat
                       | None => false
                       end) got &&
    (* the inserted tuples, named by the declared columns, are the expected rows (any order) *)
    perm_by (fun a b => text_eqb (fst a) (fst b) && tassoc_eqb (snd a) (snd b))
            (map (fun tr => (text_of_string (fst tr), tkeys (snd tr))) exp)
            (map (fun tc => (fst tc,
                             match tget (fst tc) (map (fun nc => (text_of_string (fst nc), snd nc)) cols) with
                             | Some cs => zip (map text_of_string cs) (snd tc)
                             | None => []
                             end)) got) &&
    (negb exact ||
     perm_by text_eqb (map (fun tr => sql_insert (text_of_string (fst tr)) (map snd (snd tr))) exp)
             (filter is_insert stmts))
  | Err Unsupported, _, _ => true        (* a statement form the model's reader does not cover: left to sqlite3 *)
  | _, _, _ => false
  end.

Fixpoint check_xcase (c : xcase) : bool :=
  match c with
  | XBase b => check_case b
  | XParse files main csv db =>
    match parse_recipe files main with
    | Ok regs => check_case (CSchema regs csv db)
    | Err _ => false
    end
  | XParseErr files main =>
    match parse_recipe files main with
    | Err (DGE _) => true
    | _ => false
    end
  | XCsv ti raws bytes exact => check_csv ti raws bytes exact
  | XJson rows bytes exact => check_json rows bytes exact
  | XSql tis cols rows bytes exact => check_sql tis cols rows bytes exact
  | XTxt rows bytes => match txt_text rows with Ok t => text_eqb t bytes | Err _ => false end
  | XPyEq a b e => Bool.eqb (py_eq a b) e
  | XAll l => forallb check_xcase l
  end.
