(* StreamCodecs.v — the text formats Snowfakery's outputs are written in (property C08), as
   executable writers AND readers over lists of code points.

   Writers transcribe what the libraries below snowfakery/output_streams.py emit:
     csv   csv.DictWriter(file, fieldnames) — dialect "excel": delimiter ",", quotechar '"',
           doublequote, QUOTE_MINIMAL (a field is quoted iff it contains , " CR or LF; a row that
           is a single empty field is written as ""), lineterminator CR LF
     json  json.dumps(dict) — ensure_ascii (everything outside ' '..'~' escaped, non-BMP code
           points as a surrogate pair), separators ", " and ": "; JSONOutputStream's framing
           "[" first row, ",\n" between rows, "]\n" at close, nothing for a run without rows
     sql   sqlite3.Connection.iterdump — INSERT INTO "T" VALUES(...); with SQLite's quote():
           NULL, decimal integers, '...' with every ' doubled — and the text cut at the first NUL
           character (quote() works on C strings: finding C08-sql-script-nul)
     txt   DebugOutputStream: T(k=v, k2=v2)
   Readers are independent state machines (csv: the states of Modules/_csv.c; json: a tokenizer
   with surrogate-pair joining + a parser for arrays of flat objects; sql: statement splitter +
   INSERT parser).  proofs/StreamCodecsP.v proves reader (writer x) = x for all x.
   The correspondence check feeds the bytes of the real artefacts to the readers and compares the
   writers' output with those bytes. *)
From SFV Require Import Base Streams.

Definition text_eqb (a b : text) : bool := list_eqb Z.eqb a b.

Fixpoint join_with {A} (sep : list A) (l : list (list A)) : list A :=
  match l with
  | [] => []
  | [x] => x
  | x :: r => x ++ sep ++ join_with sep r
  end.

(* ================================================================== CSV *)

Definition csv_special (c : Z) : bool := (c =? 44) || (c =? 34) || (c =? 13) || (c =? 10).

Fixpoint csv_dq (f : text) : text :=
  match f with
  | [] => []
  | c :: r => if c =? 34 then 34 :: 34 :: csv_dq r else c :: csv_dq r
  end.

Definition csv_field (f : text) : text :=
  if existsb csv_special f then 34 :: csv_dq f ++ [34] else f.

Definition csv_row (r : list text) : text :=
  match r with
  | [[]] => [34; 34; 13; 10]
  | _ => join_with [44] (map csv_field r) ++ [13; 10]
  end.

Definition csv_file (rows : list (list text)) : text := concat (map csv_row rows).

(* the reader: START_RECORD, START_FIELD, IN_FIELD, IN_QUOTED_FIELD, QUOTE_IN_QUOTED_FIELD,
   EAT_CRNL of _csv.c (no escapechar, not strict, no skipinitialspace); the input is the whole
   file: what the file iterator does (a line ends at LF, CR LF or a lone CR) is folded into
   EAT_CRNL *)
Inductive cmode := MRec | MFld | MIn | MQ | MQQ | MEat.

(* field, row and rows are accumulated in reverse *)
Record cst := mkC { c_mode : cmode; c_fld : text; c_row : list text; c_rows : list (list text) }.

Definition is_nl (c : Z) : bool := (c =? 13) || (c =? 10).
Definition after_nl (c : Z) : cmode := if c =? 13 then MEat else MRec.

Definition save_field (s : cst) : list text := rev (c_fld s) :: c_row s.

Definition end_record (s : cst) (c : Z) : cst :=
  mkC (after_nl c) [] [] (rev (save_field s) :: c_rows s).

Definition start_field (s : cst) (c : Z) : cst :=
  if c =? 34 then mkC MQ [] (c_row s) (c_rows s)
  else if c =? 44 then mkC MFld [] ([] :: c_row s) (c_rows s)
  else mkC MIn [c] (c_row s) (c_rows s).

Definition start_record (s : cst) (c : Z) : cst :=
  if is_nl c then mkC (after_nl c) [] [] ([] :: c_rows s)      (* an empty line is the row [] *)
  else start_field s c.

Definition csv_step (s : cst) (c : Z) : cst :=
  match c_mode s with
  | MRec => start_record s c
  | MEat => if c =? 10 then mkC MRec [] [] (c_rows s) else start_record s c
  | MFld => if is_nl c then end_record s c else start_field s c
  | MIn =>
    if is_nl c then end_record s c
    else if c =? 44 then mkC MFld [] (save_field s) (c_rows s)
    else mkC MIn (c :: c_fld s) (c_row s) (c_rows s)
  | MQ =>
    if c =? 34 then mkC MQQ (c_fld s) (c_row s) (c_rows s)
    else mkC MQ (c :: c_fld s) (c_row s) (c_rows s)
  | MQQ =>
    if c =? 34 then mkC MQ (34 :: c_fld s) (c_row s) (c_rows s)
    else if c =? 44 then mkC MFld [] (save_field s) (c_rows s)
    else if is_nl c then end_record s c
    else mkC MIn (c :: c_fld s) (c_row s) (c_rows s)
  end.

Definition csv_init : cst := mkC MRec [] [] [].

Definition csv_finish (s : cst) : result (list (list text)) :=
  match c_mode s with
  | MRec | MEat => Ok (rev (c_rows s))
  | MFld | MIn | MQQ => Ok (rev (rev (save_field s) :: c_rows s))     (* no newline at the end of the file *)
  | MQ => Err (Internal "csv.Error")                                 (* unterminated quoted field *)
  end.

Definition csv_read (s : text) : result (list (list text)) :=
  csv_finish (fold_left csv_step s csv_init).

(* ================================================================== decimal integers *)

Definition is_digit (c : Z) : bool := (48 <=? c) && (c <=? 57).

Definition digits_value (t : text) : Z := fold_left (fun acc c => acc * 10 + (c - 48)) t 0.

(* -?[0-9]+ *)
Definition parse_int (t : text) : option Z :=
  match t with
  | [] => None
  | c :: r =>
    if c =? 45 then
      match r with
      | [] => None
      | _ => if forallb is_digit r then Some (- digits_value r) else None
      end
    else if forallb is_digit t then Some (digits_value t) else None
  end.

(* ================================================================== JSON *)

Definition hex_digit (d : Z) : Z := if d <? 10 then 48 + d else 87 + d.
Definition hex4 (v : Z) : text :=
  [hex_digit (v / 4096); hex_digit (v / 256 mod 16); hex_digit (v / 16 mod 16); hex_digit (v mod 16)].
Definition json_u (v : Z) : text := 92 :: 117 :: hex4 v.

(* json.encoder.py_encode_basestring_ascii *)
Definition json_char (c : Z) : text :=
  if c =? 34 then [92; 34] else if c =? 92 then [92; 92]
  else if c =? 10 then [92; 110] else if c =? 13 then [92; 114] else if c =? 9 then [92; 116]
  else if c =? 8 then [92; 98] else if c =? 12 then [92; 102]
  else if (32 <=? c) && (c <=? 126) then [c]
  else if c <? 65536 then json_u c
  else json_u (55296 + (c - 65536) / 1024) ++ json_u (56320 + (c - 65536) mod 1024).

Definition json_string (s : text) : text := 34 :: flat_map json_char s ++ [34].

Definition json_value (c : cell) : text :=
  match c with
  | CNull => [110; 117; 108; 108]
  | CBool true => [116; 114; 117; 101]
  | CBool false => [102; 97; 108; 115; 101]
  | CNum z => dec_text z
  | CText s => json_string s
  end.

Definition jobject := list (text * cell).

Definition json_pair (kv : text * cell) : text := json_string (fst kv) ++ [58; 32] ++ json_value (snd kv).
Definition json_obj (o : jobject) : text := 123 :: join_with [44; 32] (map json_pair o) ++ [125].

(* JSONOutputStream: "[" + rows joined by ",\n" + "]\n"; an empty run writes nothing *)
Definition json_doc (objs : list jobject) : text :=
  match objs with
  | [] => []
  | _ => 91 :: join_with [44; 10] (map json_obj objs) ++ [93; 10]
  end.

(* ---- tokenizer *)
Inductive jtok :=
| JLbr | JRbr | JLbrace | JRbrace | JComma | JColon
| JStr (s : text) | JNum (z : Z) | JTrue | JFalse | JNull.

Definition is_high (v : Z) : bool := (55296 <=? v) && (v <=? 56319).
Definition is_low (v : Z) : bool := (56320 <=? v) && (v <=? 57343).
Definition join_pair (h l : Z) : Z := 65536 + (h - 55296) * 1024 + (l - 56320).

Definition hex_val (c : Z) : option Z :=
  if (48 <=? c) && (c <=? 57) then Some (c - 48)
  else if (97 <=? c) && (c <=? 102) then Some (c - 87)
  else if (65 <=? c) && (c <=? 70) then Some (c - 55)
  else None.

(* a string is accumulated in reverse; [pend] is a high surrogate that came from a \u escape and
   waits for its partner (json.decoder.py_scanstring joins an escaped surrogate pair into one code point) *)
Inductive jmode :=
| JIdle
| JInStr (acc : text) (pend : option Z)
| JEsc (acc : text) (pend : option Z)
| JUni (acc : text) (pend : option Z) (k : nat) (v : Z)
| JWord (acc : text)
| JBad.

Definition jflush (acc : text) (pend : option Z) : text :=
  match pend with Some h => h :: acc | None => acc end.

Definition finish_u (acc : text) (pend : option Z) (v : Z) : jmode :=
  match pend with
  | Some h =>
    if is_low v then JInStr (join_pair h v :: acc) None
    else if is_high v then JInStr (h :: acc) (Some v)
    else JInStr (v :: h :: acc) None
  | None => if is_high v then JInStr acc (Some v) else JInStr (v :: acc) None
  end.

Definition simple_escape (c : Z) : option Z :=
  if c =? 34 then Some 34 else if c =? 92 then Some 92 else if c =? 47 then Some 47
  else if c =? 98 then Some 8 else if c =? 102 then Some 12 else if c =? 110 then Some 10
  else if c =? 114 then Some 13 else if c =? 116 then Some 9 else None.

Definition is_ws (c : Z) : bool := (c =? 32) || (c =? 9) || (c =? 10) || (c =? 13).

(* characters of numbers and of true / false / null *)
Definition is_wordc (c : Z) : bool :=
  is_digit c || (c =? 45) || (c =? 43) || (c =? 46) || ((97 <=? c) && (c <=? 122)) || ((65 <=? c) && (c <=? 90)).

Definition word_tok (w : text) : option jtok :=
  if text_eqb w [116; 114; 117; 101] then Some JTrue
  else if text_eqb w [102; 97; 108; 115; 101] then Some JFalse
  else if text_eqb w [110; 117; 108; 108] then Some JNull
  else match parse_int w with Some z => Some (JNum z) | None => None end.

Definition jst := (jmode * list jtok)%type.        (* tokens in reverse *)

Definition j_idle (toks : list jtok) (c : Z) : jst :=
  if is_ws c then (JIdle, toks)
  else if c =? 91 then (JIdle, JLbr :: toks) else if c =? 93 then (JIdle, JRbr :: toks)
  else if c =? 123 then (JIdle, JLbrace :: toks) else if c =? 125 then (JIdle, JRbrace :: toks)
  else if c =? 44 then (JIdle, JComma :: toks) else if c =? 58 then (JIdle, JColon :: toks)
  else if c =? 34 then (JInStr [] None, toks)
  else if is_wordc c then (JWord [c], toks)
  else (JBad, toks).

Definition j_step (s : jst) (c : Z) : jst :=
  let (m, toks) := s in
  match m with
  | JIdle => j_idle toks c
  | JInStr acc pend =>
    if c =? 34 then (JIdle, JStr (rev (jflush acc pend)) :: toks)
    else if c =? 92 then (JEsc acc pend, toks)
    else (JInStr (c :: jflush acc pend) None, toks)
  | JEsc acc pend =>
    if c =? 117 then (JUni acc pend 0 0, toks)
    else match simple_escape c with
         | Some x => (JInStr (x :: jflush acc pend) None, toks)
         | None => (JBad, toks)
         end
  | JUni acc pend k v =>
    match hex_val c with
    | Some d =>
      match k with
      | 3%nat => (finish_u acc pend (v * 16 + d), toks)
      | _ => (JUni acc pend (S k) (v * 16 + d), toks)
      end
    | None => (JBad, toks)
    end
  | JWord acc =>
    if is_wordc c then (JWord (c :: acc), toks)
    else match word_tok (rev acc) with
         | Some t => j_idle (t :: toks) c
         | None => (JBad, toks)
         end
  | JBad => (JBad, toks)
  end.

Definition j_finish (s : jst) : result (list jtok) :=
  let (m, toks) := s in
  match m with
  | JIdle => Ok (rev toks)
  | JWord acc => match word_tok (rev acc) with
                 | Some t => Ok (rev (t :: toks))
                 | None => Err (Internal "JSONDecodeError")
                 end
  | _ => Err (Internal "JSONDecodeError")
  end.

Definition json_tokens (s : text) : result (list jtok) := j_finish (fold_left j_step s (JIdle, [])).

(* ---- parser: an array of flat objects (what Snowfakery writes), a state machine over the tokens;
   nested values are refused *)
Definition tok_value (t : jtok) : option cell :=
  match t with
  | JStr s => Some (CText s) | JNum z => Some (CNum z)
  | JTrue => Some (CBool true) | JFalse => Some (CBool false) | JNull => Some CNull
  | _ => None
  end.

Inductive pmode :=
| PDoc                      (* nothing read yet *)
| PElem (first : bool)      (* after "[" or after "," between objects *)
| PKey (first : bool)       (* after "{" or after "," between members *)
| PColon (k : text)
| PVal (k : text)
| PAfterVal                 (* expects "," or "}" *)
| PAfterObj                 (* expects "," or "]" *)
| PEnd
| PBad (unsupported : bool).

(* members of the current object and finished objects, both in reverse *)
Record pst := mkP { p_mode : pmode; p_cur : jobject; p_done : list jobject }.

Definition p_step (s : pst) (t : jtok) : pst :=
  let bad := mkP (PBad false) [] [] in
  match p_mode s with
  | PDoc => match t with JLbr => mkP (PElem true) [] [] | _ => bad end
  | PElem first =>
    match t with
    | JLbrace => mkP (PKey true) [] (p_done s)
    | JRbr => if first then mkP PEnd [] (p_done s) else bad
    | _ => bad
    end
  | PKey first =>
    match t with
    | JStr k => mkP (PColon k) (p_cur s) (p_done s)
    | JRbrace => if first then mkP PAfterObj [] (rev (p_cur s) :: p_done s) else bad
    | _ => bad
    end
  | PColon k => match t with JColon => mkP (PVal k) (p_cur s) (p_done s) | _ => bad end
  | PVal k =>
    match tok_value t with
    | Some c => mkP PAfterVal ((k, c) :: p_cur s) (p_done s)
    | None => match t with JLbr | JLbrace => mkP (PBad true) [] [] | _ => bad end
    end
  | PAfterVal =>
    match t with
    | JComma => mkP (PKey false) (p_cur s) (p_done s)
    | JRbrace => mkP PAfterObj [] (rev (p_cur s) :: p_done s)
    | _ => bad
    end
  | PAfterObj =>
    match t with
    | JComma => mkP (PElem false) [] (p_done s)
    | JRbr => mkP PEnd [] (p_done s)
    | _ => bad
    end
  | PEnd => bad
  | PBad u => mkP (PBad u) [] []
  end.

(* an empty file is what a run without rows leaves behind *)
Definition json_parse (ts : list jtok) : result (list jobject) :=
  let e := fold_left p_step ts (mkP PDoc [] []) in
  match p_mode e with
  | PDoc => Ok []
  | PEnd => Ok (rev (p_done e))
  | PBad true => Err Unsupported
  | _ => Err (Internal "JSONDecodeError")
  end.

Definition json_read (s : text) : result (list jobject) :=
  do ts <- json_tokens s; json_parse ts.

(* ================================================================== SQL script *)

(* SQLite's quote() reads a C string: the text ends at the first NUL ([Streams.sql_cut]) *)
Fixpoint sql_dq (s : text) : text :=
  match s with
  | [] => []
  | c :: r => if c =? 39 then 39 :: 39 :: sql_dq r else c :: sql_dq r
  end.

Definition sql_lit (c : cell) : text :=
  match c with
  | CNull => [78; 85; 76; 76]
  | CNum z => dec_text z
  | CBool b => if b then [49] else [48]
  | CText s => 39 :: sql_dq (sql_cut s) ++ [39]
  end.

(* INSERT INTO "T" VALUES(a,b,c) — without the closing semicolon *)
Definition sql_insert (table : text) (cells : list cell) : text :=
  [73; 78; 83; 69; 82; 84; 32; 73; 78; 84; 79; 32; 34] ++ table ++ [34; 32; 86; 65; 76; 85; 69; 83; 40]
  ++ join_with [44] (map sql_lit cells) ++ [41].

(* the INSERT part of a dump: one statement per line *)
Definition sql_inserts (rows : list (text * list cell)) : text :=
  flat_map (fun r => sql_insert (fst r) (snd r) ++ [59; 10]) rows.

(* ---- statement splitter: ";" outside '...' and "..." ends a statement; white space before a
   statement is dropped.  ('' inside a string leaves and re-enters the string: harmless here.) *)
Inductive smode := SPlain | SInS | SInD.

Record sst := mkS { s_mode : smode; s_cur : text; s_done : list text }.     (* reversed *)

Definition sql_step (s : sst) (c : Z) : sst :=
  match s_mode s with
  | SPlain =>
    if c =? 59 then mkS SPlain [] (rev (s_cur s) :: s_done s)
    else if c =? 39 then mkS SInS (c :: s_cur s) (s_done s)
    else if c =? 34 then mkS SInD (c :: s_cur s) (s_done s)
    else if is_ws c && match s_cur s with [] => true | _ => false end then s
    else mkS SPlain (c :: s_cur s) (s_done s)
  | SInS => mkS (if c =? 39 then SPlain else SInS) (c :: s_cur s) (s_done s)
  | SInD => mkS (if c =? 34 then SPlain else SInD) (c :: s_cur s) (s_done s)
  end.

Definition sql_split (s : text) : result (list text) :=
  let e := fold_left sql_step s (mkS SPlain [] []) in
  match s_mode e, s_cur e with
  | SPlain, [] => Ok (rev (s_done e))
  | _, _ => Err (Internal "sqlite3.OperationalError")       (* text after the last ";" / open quote *)
  end.

(* ---- INSERT parser *)
Fixpoint strip_prefix (p s : text) : option text :=
  match p, s with
  | [], _ => Some s
  | a :: p1, b :: s1 => if a =? b then strip_prefix p1 s1 else None
  | _, [] => None
  end.

(* up to the closing double quote *)
Fixpoint read_ident (s : text) : option (text * text) :=
  match s with
  | [] => None
  | c :: r => if c =? 34 then Some ([], r)
              else match read_ident r with Some (i, r2) => Some (c :: i, r2) | None => None end
  end.

(* the literal list after "VALUES(" up to ")" *)
Inductive lmode :=
| LStart                     (* a literal must start here *)
| LWord (acc : text)         (* NULL / a number *)
| LStr (acc : text)          (* inside '...' *)
| LStrQ (acc : text)         (* a quote inside '...': '' or the end of the literal *)
| LDone                      (* ")" seen *)
| LBad (unsupported : bool).

Definition lit_word (w : text) : option cell :=
  if text_eqb w [78; 85; 76; 76] then Some CNull
  else match parse_int w with Some z => Some (CNum z) | None => None end.

Definition lst := (lmode * list cell)%type.       (* cells in reverse *)

Definition l_after (cells : list cell) (c : Z) : lst :=
  if c =? 44 then (LStart, cells) else if c =? 41 then (LDone, cells) else (LBad false, cells).

Definition l_step (s : lst) (c : Z) : lst :=
  let (m, cells) := s in
  match m with
  | LStart =>
    if c =? 39 then (LStr [], cells)
    else if is_digit c || (c =? 45) || (c =? 78) then (LWord [c], cells)
    else (LBad true, cells)                                   (* X'..' blobs, floats: outside the model *)
  | LWord acc =>
    if (c =? 44) || (c =? 41) then
      match lit_word (rev acc) with
      | Some x => l_after (x :: cells) c
      | None => (LBad true, cells)
      end
    else (LWord (c :: acc), cells)
  | LStr acc => if c =? 39 then (LStrQ acc, cells) else (LStr (c :: acc), cells)
  | LStrQ acc =>
    if c =? 39 then (LStr (39 :: acc), cells)
    else l_after (CText (rev acc) :: cells) c
  | LDone => (LBad false, cells)
  | LBad u => (LBad u, cells)
  end.

Definition sql_values (s : text) : result (list cell) :=
  match fold_left l_step s (LStart, []) with
  | (LDone, cells) => Ok (rev cells)
  | (LBad true, _) => Err Unsupported
  | _ => Err (Internal "sqlite3.OperationalError")
  end.

Definition insert_prefix : text := [73; 78; 83; 69; 82; 84; 32; 73; 78; 84; 79; 32; 34].
Definition values_prefix : text := [32; 86; 65; 76; 85; 69; 83; 40].

(* None: not an INSERT statement (CREATE TABLE, BEGIN, COMMIT ...) *)
Definition sql_parse_stmt (s : text) : result (option (text * list cell)) :=
  match strip_prefix insert_prefix s with
  | None => Ok None
  | Some r =>
    match read_ident r with
    | None => Err (Internal "sqlite3.OperationalError")
    | Some (t, r2) =>
      match strip_prefix values_prefix r2 with
      | None => Err Unsupported
      | Some r3 => do cells <- sql_values r3; Ok (Some (t, cells))
      end
    end
  end.

Fixpoint keep_some {A} (l : list (option A)) : list A :=
  match l with
  | [] => []
  | Some x :: r => x :: keep_some r
  | None :: r => keep_some r
  end.

(* the rows a script inserts, in script order *)
Definition sql_read (s : text) : result (list (text * list cell)) :=
  do stmts <- sql_split s;
  do ps <- map_result sql_parse_stmt stmts;
  Ok (keep_some ps).

(* ================================================================== debug text *)

(* SimpleFileOutputStream.write_single_row *)
Definition txt_line (table : text) (kvs : list (text * text)) : text :=
  table ++ [40] ++ join_with [44; 32] (map (fun kv => fst kv ++ [61] ++ snd kv) kvs) ++ [41; 10].
