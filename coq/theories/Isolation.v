(* Isolation.v — model of the PROCESS-WIDE state of Snowfakery and of how one run reads and
   writes it (property C19: runs in one process are independent of each other).

   In a pure model independence of runs is true by construction.  This model therefore carries
   the process state explicitly: [proc] is the record of every location that outlives a run,
   as found in the code (and as audited on every check run by harness/c19.py, which walks all
   snowfakery.* module objects before and after each run and reports any changed location that
   is not listed here):

     p_uid      snowfakery/standard_plugins/UniqueId.py:118
                  UniqueNumericIdGenerator.context_uniqifier = count(1)      (class attribute)
     p_dates    snowfakery/template_funcs.py:52   @lru_cache(maxsize=512) parse_date
     p_dts      snowfakery/template_funcs.py:73   @lru_cache(maxsize=512) _parse_datetimespec
                  (since fix fc3a5e8 the uncached wrapper parse_datetimespec answers the keys "now"
                  and "today" - and since bfa3786 Faker's relative specs -30d, +1y, -1w+2h ... -
                  from the clock and never hands them to the cache)
     p_masks    snowfakery/utils/scrambled_numbers.py:7,12  @lru_cache() randomizer / mask_for_key
                  (memo tables of pure functions of their arguments; only their growth is modelled)
     p_rowhist  snowfakery/object_rows.py:13  RowHistoryCV = ContextVar("RowHistory"), set by
                  Interpreter.execute (data_generator_runtime.py:389), read by
                  LazyLoadedObjectReference.__getattr__ (object_rows.py:92)
   The `plugin_options` dict an embedding application passes to every run is NOT process state any
   more: since fix d5304ed `generate` copies it (data_generator.py:152) before writing the recipe's
   snowfakery_version, so it is an input of the run ([e_app_ver]) that the harness checks to be
   unchanged afterwards.

   Everything else (Globals, IdManager, Transients, Interpreter.instance_states, plugin
   instances, StandardFuncs.Functions()._uidgen, the ParseResult with SimpleValue._evaluator,
   the Jinja environments, RowHistory) is created by `generate` for one run: [rstate].

   The recipe side is abstract: a recipe is the list of operations its evaluation performs (all
   iterations unrolled).  Clock readings and the results of date parsing are never computed:
   the clock is an input of the run ([env]), dateutil is a Section variable. *)
From SFV Require Import Base.

Definition key := string.

(* ---------------------------------------------------------------- functools.lru_cache *)

(* most recently used first; misses counts every call of the wrapped function (CPython
   increments it before the call, so a raising call counts and caches nothing) *)
Record lru := mkLru { l_items : list (key * Z); l_misses : Z }.
Definition lru_empty : lru := mkLru [] 0.

Fixpoint assoc_find {V} (k : key) (l : list (key * V)) : option V :=
  match l with
  | [] => None
  | (k', v) :: r => if String.eqb k k' then Some v else assoc_find k r
  end.

Fixpoint assoc_remove {V} (k : key) (l : list (key * V)) : list (key * V) :=
  match l with
  | [] => []
  | (k', v) :: r => if String.eqb k k' then r else (k', v) :: assoc_remove k r
  end.

(* one call through the cache: f k = None means the wrapped function raises *)
Definition lru_call (maxsize : nat) (f : key -> option Z) (c : lru) (k : key)
  : lru * option Z :=
  match assoc_find k (l_items c) with
  | Some v => (mkLru ((k, v) :: assoc_remove k (l_items c)) (l_misses c), Some v)
  | None =>
    match f k with
    | Some v => (mkLru (firstn maxsize ((k, v) :: l_items c)) (l_misses c + 1), Some v)
    | None => (mkLru (l_items c) (l_misses c + 1), None)
    end
  end.

Definition date_cache_size : nat := 512.

(* ---------------------------------------------------------------- process and run state *)

Record proc := mkProc {
  p_uid : Z;                              (* value the next next(context_uniqifier) returns *)
  p_dates : lru;
  p_dts : lru;
  p_masks : Z;                            (* calls that went through the memoised mask function *)
  p_rowhist : option (list (string * Z))  (* rows saved in the RowHistory the ContextVar holds *)
}.

(* a process that has imported snowfakery and run nothing *)
Definition proc0 : proc := mkProc 1 lru_empty lru_empty 0 None.

Inductive gslot :=
| SlotNum            (* ${{unique_id}}            : StandardFuncs.Functions()._uidgen.default_uniqifier *)
| SlotPluginNum      (* ${{UniqueId.unique_id}}   : the UniqueId plugin instance's default generator    *)
| SlotAlpha.         (* ${{unique_alpha_code}}    : ..._uidgen.default_alpha_code_generator            *)

Definition gslot_eqb (a b : gslot) : bool :=
  match a, b with SlotNum, SlotNum | SlotPluginNum, SlotPluginNum | SlotAlpha, SlotAlpha => true | _, _ => false end.

(* first value of the generator's own index counter: count(start) *)
Definition first_index (g : gslot) : Z := match g with SlotAlpha => 1001 | _ => 1 end.

Record rstate := mkRs {
  rs_ids : list (string * Z);             (* IdManager.last_used_ids *)
  rs_states : list (string * Z);          (* Interpreter.instance_states: next value of a memoised counter *)
  rs_gens : list (gslot * (Z * Z))        (* generators made in this run: (context, next index) *)
}.
Definition rs0 : rstate := mkRs [] [] [].

Fixpoint gen_find (g : gslot) (l : list (gslot * (Z * Z))) : option (Z * Z) :=
  match l with
  | [] => None
  | (g', x) :: r => if gslot_eqb g g' then Some x else gen_find g r
  end.

Fixpoint gen_set (g : gslot) (x : Z * Z) (l : list (gslot * (Z * Z))) : list (gslot * (Z * Z)) :=
  match l with
  | [] => [(g, x)]
  | (g', y) :: r => if gslot_eqb g g' then (g, x) :: r else (g', y) :: gen_set g x r
  end.

Fixpoint assoc_set (k : key) (v : Z) (l : list (key * Z)) : list (key * Z) :=
  match l with
  | [] => [(k, v)]
  | (k', y) :: r => if String.eqb k k' then (k, v) :: r else (k', y) :: assoc_set k v r
  end.

Definition last_id (t : string) (s : rstate) : Z :=
  match assoc_find t (rs_ids s) with Some v => v | None => 0 end.   (* defaultdict(lambda: 0) *)

(* ---------------------------------------------------------------- recipes, runs *)

Inductive op :=
| ORow (table : string)                  (* a row: id := IdManager.generate_id(table), remembered in the RowHistory *)
| OCounter (name : string) (start step : Z)  (* memoised plugin value (Counters.NumberCounter / @memorable) *)
| OUid (g : gslot)                       (* a unique id is drawn *)
| ODate (k : key)                        (* template_funcs.parse_date(k)          *)
| ODatetime (k : key)                    (* template_funcs.parse_datetimespec(k): clock keys answered
                                            directly, the others through the _parse_datetimespec cache *)
| OLazy (table : string)                 (* attribute of a random_reference result: RowHistoryCV.get().load_row *)
| OVersion                               (* a value whose rendering depends on native-types mode *)
| OFail (e : err).                       (* evaluation raises *)

Inductive stage :=
| SParseFail        (* parse_recipe raises: nothing else happens                      *)
| SInitFail         (* raises after the options were merged, before Interpreter.execute *)
| SExec.            (* Interpreter.execute is reached                                 *)

Record recipe := mkRecipe {
  r_stage : stage;
  r_version : option Z;         (* `- snowfakery_version: n` *)
  r_ops : list op
}.

(* inputs of one run that are not the recipe *)
Record env := mkEnv {
  e_now : Z;                    (* clock: datetime.now() during this run (the harness only locates a
                                   value in the time window of a run, so one reading per run suffices) *)
  e_today : Z;                  (* clock: date.today() during this run *)
  e_app_ver : option Z          (* "snowfakery_version" entry of the plugin_options the application
                                   passes (None: no dict, or a dict without that entry) *)
}.

Inductive obs :=
| BId (table : string) (id : Z)
| BCount (name : string) (v : Z)
| BUid (g : gslot) (ctx idx : Z)
| BUidIdx (g : gslot) (idx : Z)  (* observation side only: a unique id whose text carries no context
                                   (alpha codes of the small-id default template `index`) *)
| BVal (v : Z)                  (* result of a date / datetime parse (opaque code) *)
| BLazy
| BVersion (v : Z).

Record outcome := mkOut { o_obs : list obs; o_err : option err }.

(* Faker's relative syntax, faker.providers.date_time.Provider.regex fully matched:
     ([+-]\d+y)?([+-]\d+M)?([+-]\d+w)?([+-]\d+d)?([+-]\d+h)?([+-]\d+m)?([+-]\d+s)?
   i.e. signed numbers each followed by a unit, units in this order, each at most once.  ASCII
   digits only (Python's \d also accepts other Unicode digits; the harness generates none). *)
Definition is_digit (c : ascii) : bool :=
  let n := nat_of_ascii c in (Nat.leb 48 n && Nat.leb n 57)%bool.

Fixpoint skip_digits (l : list ascii) : list ascii :=
  match l with
  | c :: r => if is_digit c then skip_digits r else l
  | [] => []
  end.

(* the units that may still follow after unit [u] *)
Fixpoint units_after (u : ascii) (units : list ascii) : option (list ascii) :=
  match units with
  | [] => None
  | x :: r => if Ascii.eqb x u then Some r else units_after u r
  end.

Definition rel_units : list ascii := ["y"; "M"; "w"; "d"; "h"; "m"; "s"]%char.

(* every accepted group removes at least one unit from [units], so 8 rounds always suffice for
   the 7 units: the fuel never runs out on a matching string *)
Fixpoint rel_groups (fuel : nat) (units : list ascii) (l : list ascii) : bool :=
  match fuel with
  | O => false
  | S f =>
    match l with
    | [] => true
    | c :: r =>
      if (Ascii.eqb c "+" || Ascii.eqb c "-")%char then
        match r with
        | d :: _ =>
          if is_digit d then
            match skip_digits r with
            | u :: rest =>
              match units_after u units with
              | Some units' => rel_groups f units' rest
              | None => false
              end
            | [] => false
            end
          else false
        | [] => false
        end
      else false
    end
  end.

(* `isinstance(d, str) and d and DateProvider.regex.fullmatch(d)` *)
Definition is_relative_spec (k : key) : bool :=
  match list_ascii_of_string k with
  | [] => false
  | l => rel_groups 8 rel_units l
  end.

(* keys that parse_datetimespec answers from the clock, before the cache is consulted *)
Definition is_clock_key (k : key) : bool :=
  String.eqb k "now" || String.eqb k "today" || is_relative_spec k.

Section Run.
  (* dateutil (and the isinstance branches) behind parse_date / parse_datetimespec for keys that
     do not read the clock: functions of the key; None = raises *)
  Variable parse_d : key -> option Z.
  Variable parse_dt : key -> option Z.

  Definition set_dates (p : proc) (c : lru) : proc :=
    mkProc (p_uid p) c (p_dts p) (p_masks p) (p_rowhist p).
  Definition set_dts (p : proc) (c : lru) : proc :=
    mkProc (p_uid p) (p_dates p) c (p_masks p) (p_rowhist p).
  Definition set_rowhist (p : proc) (h : option (list (string * Z))) : proc :=
    mkProc (p_uid p) (p_dates p) (p_dts p) (p_masks p) h.
  Definition draw_context (p : proc) : proc :=
    mkProc (p_uid p + 1) (p_dates p) (p_dts p) (p_masks p) (p_rowhist p).
  Definition touch_masks (p : proc) : proc :=
    mkProc (p_uid p) (p_dates p) (p_dts p) (p_masks p + 1) (p_rowhist p).

  Definition dge : err := DGE "".

  (* one operation: new process state, and either the new run state with what was observed, or
     the exception *)
  Definition step (e : env) (ver : Z) (p : proc) (s : rstate) (o : op)
    : proc * result (rstate * list obs) :=
    match o with
    | ORow t =>
      let id := last_id t s + 1 in
      let s' := mkRs (assoc_set t id (rs_ids s)) (rs_states s) (rs_gens s) in
      let p' := match p_rowhist p with
                | Some h => set_rowhist p (Some ((t, id) :: h))
                | None => p          (* unreachable from [run]: execute sets the variable first *)
                end in
      (p', Ok (s', [BId t id]))
    | OCounter n start stp =>
      let v := match assoc_find n (rs_states s) with Some v => v | None => start end in
      (p, Ok (mkRs (rs_ids s) (assoc_set n (v + stp) (rs_states s)) (rs_gens s), [BCount n v]))
    | OUid g =>
      match gen_find g (rs_gens s) with
      | Some (c, i) =>
        (touch_masks p,
         Ok (mkRs (rs_ids s) (rs_states s) (gen_set g (c, i + 1) (rs_gens s)), [BUid g c i]))
      | None =>
        let c := p_uid p in
        let i := first_index g in
        (touch_masks (draw_context p),
         Ok (mkRs (rs_ids s) (rs_states s) (gen_set g (c, i + 1) (rs_gens s)), [BUid g c i]))
      end
    | ODate k =>
      let '(c, r) := lru_call date_cache_size parse_d (p_dates p) k in
      (set_dates p c, match r with Some v => Ok (s, [BVal v]) | None => Err dge end)
    | ODatetime k =>
      if String.eqb k "now" then (p, Ok (s, [BVal (e_now e)]))          (* not cached *)
      else if String.eqb k "today" then (p, Ok (s, [BVal (e_today e)]))
      else if is_relative_spec k then (p, Ok (s, [BVal (e_now e)]))     (* now + offset: the harness
                                                       subtracts the offset before locating the value *)
      else
        let '(c, r) := lru_call date_cache_size parse_dt (p_dts p) k in
        (set_dts p c, match r with Some v => Ok (s, [BVal v]) | None => Err dge end)
    | OLazy t =>
      match p_rowhist p with
      | None => (p, Err dge)                            (* LookupError, wrapped by SimpleValue.render *)
      | Some h =>
        if existsb (fun x => String.eqb (fst x) t) h then (p, Ok (s, [BLazy]))
        else (p, Err dge)                               (* "Something went wrong: we cannot find ..." *)
      end
    | OVersion => (p, Ok (s, [BVersion ver]))
    | OFail er => (p, Err er)
    end.

  Fixpoint exec_ops (e : env) (ver : Z) (p : proc) (s : rstate) (ops : list op)
    : proc * outcome :=
    match ops with
    | [] => (p, mkOut [] None)
    | o :: rest =>
      match step e ver p s o with
      | (p', Ok (s', b)) =>
        let '(p'', out) := exec_ops e ver p' s' rest in
        (p'', mkOut (b ++ o_obs out) (o_err out))
      | (p', Err er) => (p', mkOut [] (Some er))
      end
    end.

  (* data_generator.py:152-156:  plugin_options = dict(plugin_options or {})   -- a copy
       if parse_result.version: plugin_options["snowfakery_version"] = parse_result.version
     then process_plugins_options reads the entry back *)
  Definition effective_version (e : env) (r : recipe) : Z :=
    match r_version r with
    | Some v => v
    | None => match e_app_ver e with Some v => v | None => 2 end
    end.

  (* snowfakery.data_generator.generate *)
  Definition run (p : proc) (e : env) (r : recipe) : proc * outcome :=
    match r_stage r with
    | SParseFail => (p, mkOut [] (Some dge))
    | SInitFail => (p, mkOut [] (Some dge))
    | SExec =>
      let p2 := set_rowhist p (Some []) in      (* RowHistoryCV.set(self.row_history) *)
      exec_ops e (effective_version e r) p2 rs0 (r_ops r)
    end.

  (* runs executed back to back in one process *)
  Fixpoint run_seq (p : proc) (l : list (env * recipe)) : proc * list outcome :=
    match l with
    | [] => (p, [])
    | (e, r) :: rest =>
      let '(p1, o) := run p e r in
      let '(p2, os) := run_seq p1 rest in
      (p2, o :: os)
    end.

  (* the state of a process after a history of runs *)
  Definition after (l : list (env * recipe)) : proc := fst (run_seq proc0 l).
End Run.

(* The only operation whose observation depends on the process state a run starts in: a unique
   id (its generator draws the process-wide context counter). *)
Definition is_uid_op (o : op) : bool := match o with OUid _ => true | _ => false end.
Definition no_uid (r : recipe) : bool := negb (existsb is_uid_op (r_ops r)).

(* the unique-id draws among the observations: (generator slot, (context, index)) *)
Fixpoint uid_obs (l : list obs) : list (gslot * (Z * Z)) :=
  match l with
  | [] => []
  | BUid g c i :: r => (g, (c, i)) :: uid_obs r
  | _ :: r => uid_obs r
  end.

Definition uid_pairs (l : list obs) : list (Z * Z) := map snd (uid_obs l).

(* draws of the numeric generators only (unique_id, UniqueId.unique_id) *)
Definition is_numeric_slot (x : gslot * (Z * Z)) : bool := negb (gslot_eqb (fst x) SlotAlpha).
Definition num_uid_pairs (l : list obs) : list (Z * Z) := map snd (filter is_numeric_slot (uid_obs l)).

Fixpoint ids_of (t : string) (l : list obs) : list Z :=
  match l with
  | [] => []
  | BId t' i :: r => if String.eqb t t' then i :: ids_of t r else ids_of t r
  | _ :: r => ids_of t r
  end.

(* ---------------------------------------------------------------- correspondence cases *)

Definition gslot_code (g : gslot) : Z := match g with SlotNum => 0 | SlotPluginNum => 1 | SlotAlpha => 2 end.

Definition obs_eqb (a b : obs) : bool :=
  match a, b with
  | BId t i, BId t' i' => String.eqb t t' && (i =? i')
  | BCount n v, BCount n' v' => String.eqb n n' && (v =? v')
  | BUid g c i, BUid g' c' i' => gslot_eqb g g' && (c =? c') && (i =? i')
  | BUidIdx g i, BUid g' _ i' => gslot_eqb g g' && (i =? i')     (* observed, model *)
  | BVal v, BVal v' => v =? v'
  | BLazy, BLazy => true
  | BVersion v, BVersion v' => v =? v'
  | _, _ => false
  end.

(* first argument: observed, second: model *)
(* [a] is a prefix of [b] *)
Fixpoint prefix_eqb (a b : list obs) : bool :=
  match a, b with
  | [], _ => true
  | x :: r, y :: r' => obs_eqb x y && prefix_eqb r r'
  | _ :: _, [] => false
  end.

(* what the harness reads from the implementation after a run *)
Record pview := mkView {
  v_uid : Z;                    (* repr(context_uniqifier) = count(n) *)
  v_dates_size : Z; v_dates_misses : Z;     (* parse_date.cache_info() *)
  v_dts_size : Z; v_dts_misses : Z;         (* _parse_datetimespec.cache_info() *)
  v_cv_set : bool;              (* RowHistoryCV has a value *)
  v_cv_changed : bool;          (* it holds another RowHistory object than before the run *)
  v_app_ver : option Z          (* the application's dict after the run (None when no dict / no entry) *)
}.

Record run_case := mkRunCase {
  rc_env : env;
  rc_recipe : recipe;
  rc_opaque : bool;             (* rows are not predicted by this model (SF-core / random / dataset
                                   recipes): only the process view is compared *)
  rc_obs : list obs;            (* observed: complete rows only *)
  rc_err : option err;
  rc_view : pview
}.

Inductive case :=
| CSeq (dtab dttab : list (key * option Z))  (* observed parse results per key (fresh processes) *)
       (unmodelled : list string)            (* state-diff audit: changed locations outside [proc] *)
       (runs : list run_case).

(* a key the fresh runs never evaluated must not silently look like "raises" *)
Definition table_fun (tab : list (key * option Z)) (k : key) : option (option Z) := assoc_find k tab.

Definition keys_known (tab_d tab_dt : list (key * option Z)) (r : recipe) : bool :=
  forallb (fun o => match o with
                    | ODate k => match table_fun tab_d k with Some _ => true | None => false end
                    | ODatetime k => is_clock_key k ||
                                     match table_fun tab_dt k with Some _ => true | None => false end
                    | _ => true
                    end) (r_ops r).

Definition flat_fun (tab : list (key * option Z)) (k : key) : option Z :=
  match assoc_find k tab with Some r => r | None => None end.

Definition err_opt_eqb (a b : option err) : bool :=
  match a, b with
  | None, None => true
  | Some x, Some y => err_eqb x y
  | _, _ => false
  end.

Definition zopt_eqb := option_eqb Z.eqb.

Definition view_ok (e : env) (after : proc) (v : pview) : bool :=
  (p_uid after =? v_uid v) &&
  (Z.of_nat (length (l_items (p_dates after))) =? v_dates_size v) &&
  (l_misses (p_dates after) =? v_dates_misses v) &&
  (Z.of_nat (length (l_items (p_dts after))) =? v_dts_size v) &&
  (l_misses (p_dts after) =? v_dts_misses v) &&
  Bool.eqb (match p_rowhist after with Some _ => true | None => false end) (v_cv_set v) &&
  zopt_eqb (e_app_ver e) (v_app_ver v).          (* the application's dict is left as it was *)

Definition run_ok (parse_d parse_dt : key -> option Z) (p : proc) (rc : run_case) : proc * bool :=
  let '(p', out) := run parse_d parse_dt p (rc_env rc) (rc_recipe rc) in
  let reached := match r_stage (rc_recipe rc) with SExec => true | _ => false end in
  (p',
   view_ok (rc_env rc) p' (rc_view rc) && Bool.eqb reached (v_cv_changed (rc_view rc)) &&
   (rc_opaque rc ||
    (err_opt_eqb (o_err out) (rc_err rc) &&
     match o_err out with
     | None => list_eqb obs_eqb (rc_obs rc) (o_obs out)
     | Some _ => prefix_eqb (rc_obs rc) (o_obs out)   (* the failing row is not delivered *)
     end))).

Fixpoint runs_ok (parse_d parse_dt : key -> option Z) (p : proc) (l : list run_case) : bool :=
  match l with
  | [] => true
  | rc :: rest =>
    let '(p', ok) := run_ok parse_d parse_dt p rc in
    ok && runs_ok parse_d parse_dt p' rest
  end.

Definition check_case (c : case) : bool :=
  match c with
  | CSeq dtab dttab unmodelled runs =>
    match unmodelled with
    | [] =>
      forallb (fun rc => keys_known dtab dttab (rc_recipe rc)) runs &&
      runs_ok (flat_fun dtab) (flat_fun dttab) proc0 runs
    | _ :: _ => false
    end
  end.
