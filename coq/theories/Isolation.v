(* Isolation.v — model of the PROCESS-WIDE state of Snowfakery and of how one run reads and
   writes it (property C19: runs in one process are independent of each other).

   In a pure model independence of runs is true by construction.  This model therefore carries
   the process state explicitly: [proc] is the record of every location that outlives a run,
   as found in the code (and as audited on every check run by harness/c19.py, which walks all
   snowfakery.* module objects AND classes, the context variables, curated third-party state and
   the process-level locations before and after each run and reports any changed location that
   is not listed here).  The components, and what a run may do to each:

     p_uid      snowfakery/standard_plugins/UniqueId.py:118
                  UniqueNumericIdGenerator.context_uniqifier = count(1)      (class attribute)
                  MONOTONE: read and advanced when a generator is created; never goes down.
     p_dates    snowfakery/template_funcs.py:52   @lru_cache(maxsize=512) parse_date
     p_dts      snowfakery/template_funcs.py:73   @lru_cache(maxsize=512) _parse_datetimespec
                  (since fix fc3a5e8 the uncached wrapper parse_datetimespec answers the keys "now"
                  and "today" - and since bfa3786 Faker's relative specs -30d, +1y, -1w+2h ... -
                  from the clock and never hands them to the cache)
                  MEMO: every entry equals what the wrapped function returns for the key.
     p_masks    snowfakery/utils/scrambled_numbers.py:7,12  @lru_cache() randomizer / mask_for_key
                  MEMO of pure functions of their arguments; only their growth is modelled.
     p_rowhist  snowfakery/object_rows.py:13  RowHistoryCV = ContextVar("RowHistory"), set by
                  Interpreter.execute (data_generator_runtime.py:389), read by
                  LazyLoadedObjectReference.__getattr__ (object_rows.py:92)
                  OVERWRITTEN before it is read.
     p_cwd      os.getcwd(): changed by `with chdir(<directory of the recipe>)` around the opening of a
                  dataset (standard_plugins/datasets.py:264-275, FileDataset._load_dataset :207) and
                  read by every relative path (dataset files of stream recipes, ./plugins)
                  RESTORED on every exit path of the with-block (try/finally).
     p_path     sys.path (the entries beyond those the process started with): replaced for the
                  duration of every parse by plugins.py:207 plugin_path = mock.patch.object(sys,
                  "path", [*sys.path, <recipe dir>/plugins, "./plugins", ~/.snowfakery/plugins])
                  RESTORED on every exit path (patch.__exit__).
     p_home     os.environ: HOME is read by plugin_path through Path.home(); NEVER WRITTEN.
     p_modules  sys.modules: the local plugin modules imported so far.  Python's import cache,
                  GROWS ONLY; a recipe that names a local plugin reads it (the accepted limit of
                  process-level isolation: such a recipe is excluded from the independence theorems
                  unless the two processes imported the same modules).
     p_app      the embedding application's SnowfakeryApplication object (api.py:46-117: rep_count,
                  starting_id are per-run counters kept ON THE APPLICATION).  An application that
                  makes a new object per run ([e_new_app] = true; generate_data does when none is
                  passed) starts every run from (0, 0); an application that REUSES its object hands
                  the counters of the previous run to the next one (finding C19-app-object-reused).
   The `plugin_options` dict an embedding application passes to every run is NOT process state any
   more: since fix d5304ed `generate` copies it (data_generator.py:152) before writing the recipe's
   snowfakery_version, so it is an input of the run ([e_app_ver]) that the harness checks to be
   unchanged afterwards.

   Everything else (Globals, IdManager incl. start_ids, Transients, Interpreter.instance_states,
   plugin instances, StandardFuncs.Functions()._uidgen, the ParseResult with
   SimpleValue._evaluator, the Jinja environments, RowHistory) is created by `generate` for one
   run: [rstate].  A CONTINUED run builds its IdManager from the continuation file
   (data_generator.py:168-174 load_continuation_yaml -> hydrate(Globals) -> hydrate(IdManager),
   data_generator_runtime.py:71-73 __setstate__: last_used_ids from the file, start_ids = last + 1):
   the file is an input of the run ([r_cont]), not process state.

   The recipe side is abstract: a recipe is the list of operations ONE iteration performs; the
   model runs the loop of Interpreter.loop_over_templates_until_finished itself, with the
   stopping criterion of the application ([r_crit]: iterations or `target_number`).  Clock
   readings, the results of date parsing, the files and the plugin modules on disk are never
   computed: the clock is an input of the run ([env]); dateutil, the file system and the import
   system are Section variables. *)
From SFV Require Import Base.

Definition key := string.

(* ---------------------------------------------------------------- functools.lru_cache *)

(* most recently used first; misses counts every call of the wrapped function (CPython
   increments it before the call, so a raising call counts and caches nothing) *)
Record lru := mkLru { l_items : list (key * Z); l_misses : Z }.
Definition lru_empty : lru := mkLru [] 0.

Fixpoint assoc_find {V} (k : key) (l : list (key * V)) : option V :=
  match l with
  | [] => None
  | (k', v) :: r => if String.eqb k k' then Some v else assoc_find k r
  end.

Fixpoint assoc_remove {V} (k : key) (l : list (key * V)) : list (key * V) :=
  match l with
  | [] => []
  | (k', v) :: r => if String.eqb k k' then r else (k', v) :: assoc_remove k r
  end.

(* one call through the cache: f k = None means the wrapped function raises *)
Definition lru_call (maxsize : nat) (f : key -> option Z) (c : lru) (k : key)
  : lru * option Z :=
  match assoc_find k (l_items c) with
  | Some v => (mkLru ((k, v) :: assoc_remove k (l_items c)) (l_misses c), Some v)
  | None =>
    match f k with
    | Some v => (mkLru (firstn maxsize ((k, v) :: l_items c)) (l_misses c + 1), Some v)
    | None => (mkLru (l_items c) (l_misses c + 1), None)
    end
  end.

Definition date_cache_size : nat := 512.

(* ---------------------------------------------------------------- process and run state *)

(* SnowfakeryApplication.rep_count, .starting_id *)
Record appst := mkApp { a_reps : Z; a_start : Z }.
Definition app0 : appst := mkApp 0 0.

Record proc := mkProc {
  p_uid : Z;                              (* value the next next(context_uniqifier) returns *)
  p_dates : lru;
  p_dts : lru;
  p_masks : Z;                            (* calls that went through the memoised mask function *)
  p_rowhist : option (list (string * Z)); (* rows saved in the RowHistory the ContextVar holds *)
  p_cwd : string;                         (* os.getcwd() *)
  p_path : list string;                   (* sys.path beyond the entries the process started with *)
  p_home : string;                        (* os.environ["HOME"] *)
  p_modules : list string;                (* local plugin modules in sys.modules *)
  p_app : appst                           (* the application object of the latest run *)
}.

(* a process that has imported snowfakery and run nothing, started in directory [cwd] *)
Definition proc_init (cwd home : string) : proc :=
  mkProc 1 lru_empty lru_empty 0 None cwd [] home [] app0.
Definition proc0 : proc := proc_init "work" "~".

Inductive gslot :=
| SlotNum            (* ${{unique_id}}            : StandardFuncs.Functions()._uidgen.default_uniqifier *)
| SlotPluginNum      (* ${{UniqueId.unique_id}}   : the UniqueId plugin instance's default generator    *)
| SlotAlpha.         (* ${{unique_alpha_code}}    : ..._uidgen.default_alpha_code_generator            *)

Definition gslot_eqb (a b : gslot) : bool :=
  match a, b with SlotNum, SlotNum | SlotPluginNum, SlotPluginNum | SlotAlpha, SlotAlpha => true | _, _ => false end.

(* first value of the generator's own index counter: count(start) *)
Definition first_index (g : gslot) : Z := match g with SlotAlpha => 1001 | _ => 1 end.

Record rstate := mkRs {
  rs_ids : list (string * Z);             (* IdManager.last_used_ids *)
  rs_states : list (string * Z);          (* Interpreter.instance_states: next value of a memoised counter,
                                             or a mark that the site's memoised object exists *)
  rs_gens : list (gslot * (Z * Z));       (* generators made in this run: (context, next index) *)
  rs_start : list (string * Z)            (* IdManager.start_ids: first id of this run, continued runs only *)
}.
Definition rs0 : rstate := mkRs [] [] [] [].

(* hydrate(IdManager, state) -> __setstate__ (data_generator_runtime.py:71-73):
     last_used_ids = defaultdict(lambda: 0, state["last_used_ids"])
     start_ids = {name: val + 1 for name, val in last_used_ids.items()}
   a fresh run: IdManager() with both empty *)
Definition init_rstate (cont : option (list (string * Z))) : rstate :=
  match cont with
  | None => rs0
  | Some ids => mkRs ids [] [] (map (fun kv => (fst kv, snd kv + 1)) ids)
  end.

Fixpoint gen_find (g : gslot) (l : list (gslot * (Z * Z))) : option (Z * Z) :=
  match l with
  | [] => None
  | (g', x) :: r => if gslot_eqb g g' then Some x else gen_find g r
  end.

Fixpoint gen_set (g : gslot) (x : Z * Z) (l : list (gslot * (Z * Z))) : list (gslot * (Z * Z)) :=
  match l with
  | [] => [(g, x)]
  | (g', y) :: r => if gslot_eqb g g' then (g, x) :: r else (g', y) :: gen_set g x r
  end.

Fixpoint assoc_set (k : key) (v : Z) (l : list (key * Z)) : list (key * Z) :=
  match l with
  | [] => [(k, v)]
  | (k', y) :: r => if String.eqb k k' then (k, v) :: r else (k', y) :: assoc_set k v r
  end.

Definition last_id (t : string) (s : rstate) : Z :=
  match assoc_find t (rs_ids s) with Some v => v | None => 0 end.   (* defaultdict(lambda: 0) *)

Definition start_id (t : string) (s : rstate) : Z :=
  match assoc_find t (rs_start s) with Some v => v | None => 1 end.     (* start_ids.get(t, 1) *)

(* ---------------------------------------------------------------- recipes, runs *)

Inductive op :=
| ORow (table : string)                  (* a row: id := IdManager.generate_id(table), remembered in the RowHistory *)
| OCounter (name : string) (start step : Z)  (* memoised plugin value (Counters.NumberCounter / @memorable) *)
| OUid (g : gslot)                       (* a unique id is drawn *)
| ODate (k : key)                        (* template_funcs.parse_date(k)          *)
| ODatetime (k : key)                    (* template_funcs.parse_datetimespec(k): clock keys answered
                                            directly, the others through the _parse_datetimespec cache *)
| OLazy (table : string)                 (* attribute of a random_reference result: RowHistoryCV.get().load_row *)
| OVersion                               (* a value whose rendering depends on native-types mode *)
| OFail (e : err)                        (* evaluation raises *)
| OFailAt (table : string) (n : Z)       (* a formula that raises in the row whose id is n: 1 // (n - id) *)
| ODateOnce (site : string) (k : key)    (* Counters.DateCounter: parse_date(start_date) when the memoised
                                            counter of this site is created, nothing afterwards *)
| ODataset (site : string) (file : string). (* Dataset.iterate / shuffle with a relative path: the file is
                                            opened inside `with chdir(<recipe dir>)` when the memoised
                                            iterator of this site is created *)

Inductive stage :=
| SParseFail        (* parse_recipe raises: nothing else happens                      *)
| SInitFail         (* raises after the options were merged, before Interpreter.execute *)
| SExec.            (* Interpreter.execute is reached                                 *)

(* SnowfakeryApplication.stopping_criteria: StoppingCriteria(COUNT_REPS, n) | (tablename, n) *)
Inductive criterion :=
| CReps (n : Z)
| CTable (t : string) (n : Z).

Definition crit_n (c : criterion) : Z := match c with CReps n => n | CTable _ n => n end.

(* one job: the recipe and the parameters of the run that are not process state *)
Record recipe := mkRecipe {
  r_stage : stage;
  r_version : option Z;         (* `- snowfakery_version: n` *)
  r_ops : list op;              (* the operations of ONE iteration over the templates *)
  r_crit : criterion;           (* when to stop iterating *)
  r_cont : option (list (string * Z));  (* continuation file: id_manager.last_used_ids (None: a fresh run) *)
  r_tables : list string;       (* the tables the recipe declares (ParseResult.tables) *)
  r_dir : option string;        (* directory of the recipe FILE; None: a stream, whose directory is "." *)
  r_plugins : list string       (* local plugin modules named by `- plugin:` lines *)
}.

(* a fresh run of one iteration of a stream recipe without local plugins *)
Definition simple_recipe (st : stage) (ver : option Z) (ops : list op) : recipe :=
  mkRecipe st ver ops (CReps 1) None [] None [].

(* inputs of one run that are not the recipe *)
Record env := mkEnv {
  e_now : Z;                    (* clock: datetime.now() during this run (the harness only locates a
                                   value in the time window of a run, so one reading per run suffices) *)
  e_today : Z;                  (* clock: date.today() during this run *)
  e_app_ver : option Z;         (* "snowfakery_version" entry of the plugin_options the application
                                   passes (None: no dict, or a dict without that entry) *)
  e_new_app : bool              (* the application makes a new SnowfakeryApplication object for this run
                                   (false: it passes the object of its previous run again) *)
}.

(* what one iteration needs to know about the recipe it belongs to *)
Record rctx := mkCtx {
  c_ver : Z;                    (* effective snowfakery_version *)
  c_dir : option string         (* r_dir *)
}.

Inductive obs :=
| BId (table : string) (id : Z)
| BCount (name : string) (v : Z)
| BUid (g : gslot) (ctx idx : Z)
| BUidIdx (g : gslot) (idx : Z)  (* observation side only: a unique id whose text carries no context
                                   (alpha codes of the small-id default template `index`) *)
| BVal (v : Z)                  (* result of a date / datetime parse (opaque code) *)
| BLazy
| BVersion (v : Z).

Record outcome := mkOut { o_obs : list obs; o_err : option err }.

(* Faker's relative syntax, faker.providers.date_time.Provider.regex fully matched:
     ([+-]\d+y)?([+-]\d+M)?([+-]\d+w)?([+-]\d+d)?([+-]\d+h)?([+-]\d+m)?([+-]\d+s)?
   i.e. signed numbers each followed by a unit, units in this order, each at most once.  ASCII
   digits only (Python's \d also accepts other Unicode digits; the harness generates none). *)
Definition is_digit (c : ascii) : bool :=
  let n := nat_of_ascii c in (Nat.leb 48 n && Nat.leb n 57)%bool.

Fixpoint skip_digits (l : list ascii) : list ascii :=
  match l with
  | c :: r => if is_digit c then skip_digits r else l
  | [] => []
  end.

(* the units that may still follow after unit [u] *)
Fixpoint units_after (u : ascii) (units : list ascii) : option (list ascii) :=
  match units with
  | [] => None
  | x :: r => if Ascii.eqb x u then Some r else units_after u r
  end.

Definition rel_units : list ascii := ["y"; "M"; "w"; "d"; "h"; "m"; "s"]%char.

(* every accepted group removes at least one unit from [units], so 8 rounds always suffice for
   the 7 units: the fuel never runs out on a matching string *)
Fixpoint rel_groups (fuel : nat) (units : list ascii) (l : list ascii) : bool :=
  match fuel with
  | O => false
  | S f =>
    match l with
    | [] => true
    | c :: r =>
      if (Ascii.eqb c "+" || Ascii.eqb c "-")%char then
        match r with
        | d :: _ =>
          if is_digit d then
            match skip_digits r with
            | u :: rest =>
              match units_after u units with
              | Some units' => rel_groups f units' rest
              | None => false
              end
            | [] => false
            end
          else false
        | [] => false
        end
      else false
    end
  end.

(* `isinstance(d, str) and d and DateProvider.regex.fullmatch(d)` *)
Definition is_relative_spec (k : key) : bool :=
  match list_ascii_of_string k with
  | [] => false
  | l => rel_groups 8 rel_units l
  end.

(* keys the harness writes for native date / datetime objects ("d:" + isoformat): since /repo
   f9811a2 they are parsed without the lru caches, which hold text keys only (aware datetimes for
   one instant compare equal across zones, so a cache keyed by them is not a function of the text) *)
Definition is_object_key (k : key) : bool := prefix "d:" k.

(* keys that parse_datetimespec answers from the clock, before the cache is consulted *)
Definition is_clock_key (k : key) : bool :=
  String.eqb k "now" || String.eqb k "today" || is_relative_spec k.

Section Run.
  (* dateutil (and the isinstance branches) behind parse_date / parse_datetimespec for keys that
     do not read the clock: functions of the key; None = raises *)
  Variable parse_d : key -> option Z.
  Variable parse_dt : key -> option Z.
  (* the file system as the dataset plugin sees it: opening [file] while the working directory is
     [dir].  Ok v: the content; Err (DGE _): the with-block is left by a DataGenError; Err (Internal _):
     by another exception (FileNotFoundError, AssertionError "extension must be .csv", ...) *)
  Variable read_file : string -> string -> result Z.
  (* the import system: is the local plugin module [m] in directory [dir]?  Err e: importing it raises e *)
  Variable load_plugin : string -> string -> result bool.

  Definition set_dates (p : proc) (c : lru) : proc :=
    mkProc (p_uid p) c (p_dts p) (p_masks p) (p_rowhist p) (p_cwd p) (p_path p) (p_home p) (p_modules p) (p_app p).
  Definition set_dts (p : proc) (c : lru) : proc :=
    mkProc (p_uid p) (p_dates p) c (p_masks p) (p_rowhist p) (p_cwd p) (p_path p) (p_home p) (p_modules p) (p_app p).
  Definition set_rowhist (p : proc) (h : option (list (string * Z))) : proc :=
    mkProc (p_uid p) (p_dates p) (p_dts p) (p_masks p) h (p_cwd p) (p_path p) (p_home p) (p_modules p) (p_app p).
  Definition draw_context (p : proc) : proc :=
    mkProc (p_uid p + 1) (p_dates p) (p_dts p) (p_masks p) (p_rowhist p) (p_cwd p) (p_path p) (p_home p) (p_modules p) (p_app p).
  Definition touch_masks (p : proc) : proc :=
    mkProc (p_uid p) (p_dates p) (p_dts p) (p_masks p + 1) (p_rowhist p) (p_cwd p) (p_path p) (p_home p) (p_modules p) (p_app p).
  Definition set_cwd (p : proc) (d : string) : proc :=
    mkProc (p_uid p) (p_dates p) (p_dts p) (p_masks p) (p_rowhist p) d (p_path p) (p_home p) (p_modules p) (p_app p).
  Definition set_path (p : proc) (l : list string) : proc :=
    mkProc (p_uid p) (p_dates p) (p_dts p) (p_masks p) (p_rowhist p) (p_cwd p) l (p_home p) (p_modules p) (p_app p).
  Definition add_module (p : proc) (m : string) : proc :=
    mkProc (p_uid p) (p_dates p) (p_dts p) (p_masks p) (p_rowhist p) (p_cwd p) (p_path p) (p_home p)
           (if existsb (String.eqb m) (p_modules p) then p_modules p else m :: p_modules p) (p_app p).
  Definition set_app (p : proc) (a : appst) : proc :=
    mkProc (p_uid p) (p_dates p) (p_dts p) (p_masks p) (p_rowhist p) (p_cwd p) (p_path p) (p_home p) (p_modules p) a.

  Definition dge : err := DGE "".

  Definition set_state (s : rstate) (st : list (string * Z)) : rstate :=
    mkRs (rs_ids s) st (rs_gens s) (rs_start s).

  (* `with chdir(d): <open the file>` (datasets.py:264-275, a generator context manager WITH try/finally):
         cwd = os.getcwd(); os.chdir(path); try: yield  finally: os.chdir(cwd)
     [fin] = false is the same manager without try/finally (the working directory is put back only
     when the block is left normally); the code as it is has [fin] = true. *)
  Definition with_chdir (fin : bool) (d : string) (p : proc) (file : string) : proc * result Z :=
    let saved := p_cwd p in
    let p1 := set_cwd p d in
    let r := read_file (p_cwd p1) file in
    match r with
    | Ok v => (set_cwd p1 saved, Ok v)
    | Err er => (if fin then set_cwd p1 saved else p1, Err er)
    end.

  (* one operation: new process state, and either the new run state with what was observed, or
     the exception *)
  Definition step (e : env) (cx : rctx) (p : proc) (s : rstate) (o : op)
    : proc * result (rstate * list obs) :=
    match o with
    | ORow t =>
      let id := last_id t s + 1 in
      let s' := mkRs (assoc_set t id (rs_ids s)) (rs_states s) (rs_gens s) (rs_start s) in
      let p' := match p_rowhist p with
                | Some h => set_rowhist p (Some ((t, id) :: h))
                | None => p          (* unreachable from [run]: execute sets the variable first *)
                end in
      (p', Ok (s', [BId t id]))
    | OCounter n start stp =>
      let v := match assoc_find n (rs_states s) with Some v => v | None => start end in
      (p, Ok (set_state s (assoc_set n (v + stp) (rs_states s)), [BCount n v]))
    | OUid g =>
      match gen_find g (rs_gens s) with
      | Some (c, i) =>
        (touch_masks p,
         Ok (mkRs (rs_ids s) (rs_states s) (gen_set g (c, i + 1) (rs_gens s)) (rs_start s), [BUid g c i]))
      | None =>
        let c := p_uid p in
        let i := first_index g in
        (touch_masks (draw_context p),
         Ok (mkRs (rs_ids s) (rs_states s) (gen_set g (c, i + 1) (rs_gens s)) (rs_start s), [BUid g c i]))
      end
    | ODate k =>
      if is_object_key k                  (* a native date / datetime: answered without the cache
                                             (/repo f9811a2: only text is cached) *)
      then (p, match parse_d k with Some v => Ok (s, [BVal v]) | None => Err dge end)
      else
      let '(c, r) := lru_call date_cache_size parse_d (p_dates p) k in
      (set_dates p c, match r with Some v => Ok (s, [BVal v]) | None => Err dge end)
    | ODatetime k =>
      if String.eqb k "now" then (p, Ok (s, [BVal (e_now e)]))          (* not cached *)
      else if String.eqb k "today" then (p, Ok (s, [BVal (e_today e)]))
      else if is_relative_spec k then (p, Ok (s, [BVal (e_now e)]))     (* now + offset: the harness
                                                       subtracts the offset before locating the value *)
      else if is_object_key k
      then (p, match parse_dt k with Some v => Ok (s, [BVal v]) | None => Err dge end)
      else
        let '(c, r) := lru_call date_cache_size parse_dt (p_dts p) k in
        (set_dts p c, match r with Some v => Ok (s, [BVal v]) | None => Err dge end)
    | OLazy t =>
      match p_rowhist p with
      | None => (p, Err dge)                            (* LookupError, wrapped by SimpleValue.render *)
      | Some h =>
        if existsb (fun x => String.eqb (fst x) t) h then (p, Ok (s, [BLazy]))
        else (p, Err dge)                               (* "Something went wrong: we cannot find ..." *)
      end
    | OVersion => (p, Ok (s, [BVersion (c_ver cx)]))
    | OFail er => (p, Err er)
    | OFailAt t n => if last_id t s =? n then (p, Err dge) else (p, Ok (s, []))
    | ODateOnce site k =>
      match assoc_find site (rs_states s) with
      | Some _ => (p, Ok (s, []))
      | None =>
        if is_object_key k
        then (p, match parse_d k with
                 | Some v => Ok (set_state s (assoc_set site 0 (rs_states s)), [BVal v])
                 | None => Err dge
                 end)
        else
        let '(c, r) := lru_call date_cache_size parse_d (p_dates p) k in
        (set_dates p c,
         match r with
         | Some v => Ok (set_state s (assoc_set site 0 (rs_states s)), [BVal v])
         | None => Err dge
         end)
      end
    | ODataset site file =>
      match assoc_find site (rs_states s) with
      | Some _ => (p, Ok (s, []))                        (* @memorable: the open iterator is reused *)
      | None =>
        (* rootpath = Path(template.filename).parent: the recipe's directory, "." for a stream *)
        let d := match c_dir cx with Some d => d | None => p_cwd p end in
        match with_chdir true d p file with
        | (p', Ok v) => (p', Ok (set_state s (assoc_set site 0 (rs_states s)), [BVal v]))
        | (p', Err _) => (p', Err dge)                   (* whatever was raised leaves generate as a DataGenError *)
        end
      end
    end.

  Fixpoint exec_ops (e : env) (cx : rctx) (p : proc) (s : rstate) (ops : list op)
    : proc * rstate * outcome :=
    match ops with
    | [] => (p, s, mkOut [] None)
    | o :: rest =>
      match step e cx p s o with
      | (p', Ok (s', b)) =>
        let '(p'', s'', out) := exec_ops e cx p' s' rest in
        (p'', s'', mkOut (b ++ o_obs out) (o_err out))
      | (p', Err er) => (p', s, mkOut [] (Some er))
      end
    end.

  (* RuntimeContext.check_if_finished (data_generator_runtime.py:567-576) at the end of an iteration:
       app.ensure_progress_was_made(id_manager); return app.check_if_finished(id_manager)
     api.py:78-117.  Result: the application object afterwards, and finished? / the exception. *)
  Definition end_of_iteration (c : criterion) (s : rstate) (a : appst) : appst * result bool :=
    match c with
    | CReps n =>
      (* stopping_tablename is None: ensure_progress_was_made returns at once *)
      let r := a_reps a + 1 in
      (mkApp r (a_start a), Ok (n <=? r))
    | CTable t n =>
      let last := last_id t s in
      (* if self.rep_count == 0: self.starting_id = id_manager.start_ids.get(t, 1) - 1 *)
      let st := if a_reps a =? 0 then start_id t s - 1 else a_start a in
      if last =? st then (mkApp (a_reps a) st, Err (Internal "RuntimeError"))
      else (mkApp (a_reps a + 1) last, Ok (start_id t s + n - 1 <=? last))
    end.

  (* Interpreter.loop_over_templates_until_finished *)
  Fixpoint iterate (fuel : nat) (e : env) (cx : rctx) (c : criterion) (body : list op)
                   (p : proc) (s : rstate) : proc * outcome :=
    match fuel with
    | O => (p, mkOut [] (Some OutOfFuel))
    | S f =>
      let '(p1, s1, out) := exec_ops e cx p s body in
      match o_err out with
      | Some _ => (p1, out)
      | None =>
        match end_of_iteration c s1 (p_app p1) with
        | (a, Err er) => (set_app p1 a, mkOut (o_obs out) (Some er))
        | (a, Ok true) => (set_app p1 a, out)
        | (a, Ok false) =>
          let '(p2, out2) := iterate f e cx c body (set_app p1 a) s1 in
          (p2, mkOut (o_obs out ++ o_obs out2) (o_err out2))
        end
      end
    end.

  (* enough for every run that can end: C19_never_out_of_fuel *)
  Definition iter_fuel (c : criterion) : nat := Z.to_nat (crit_n c) + 2.

  (* data_generator.py:152-156:  plugin_options = dict(plugin_options or {})   -- a copy
       if parse_result.version: plugin_options["snowfakery_version"] = parse_result.version
     then process_plugins_options reads the entry back *)
  Definition effective_version (e : env) (r : recipe) : Z :=
    match r_version r with
    | Some v => v
    | None => match e_app_ver e with Some v => v | None => 2 end
    end.

  (* plugins.py:207-216 plugin_path: the search path while a file is parsed *)
  Definition search_path (p : proc) (dir : option string) : list string :=
    p_path p ++ [ String.append (match dir with Some d => d | None => p_cwd p end) "/plugins";
                  String.append (p_cwd p) "/plugins";
                  String.append (p_home p) "/.snowfakery/plugins" ].

  (* import_module(m) with sys.path = [sp]: sys.modules first, then the directories in order *)
  Fixpoint find_on_path (sp : list string) (m : string) : result bool :=
    match sp with
    | [] => Ok false
    | d :: rest =>
      match load_plugin d m with
      | Ok true => Ok true
      | Ok false => find_on_path rest m
      | Err er => Err er
      end
    end.

  Fixpoint resolve_all (p : proc) (ms : list string) : proc * result unit :=
    match ms with
    | [] => (p, Ok tt)
    | m :: rest =>
      if existsb (String.eqb m) (p_modules p) then resolve_all p rest
      else
        match find_on_path (p_path p) m with
        | Ok true => resolve_all (add_module p m) rest
        | Ok false => (p, Err dge)               (* DataGenImportError: Cannot find plugin *)
        | Err er => (p, Err er)                  (* the module raises while it is imported *)
        end
    end.

  (* resolve_plugins: `with plugin_path(search_paths): ...` - mock.patch.object(sys, "path", new):
     __exit__ puts the saved list back however the block is left.  [fin] = false: a hand-written
     generator context manager without try/finally *)
  Definition with_plugin_path (fin : bool) (p : proc) (r : recipe) : proc * result unit :=
    let saved := p_path p in
    let p1 := set_path p (search_path p (r_dir r)) in
    match resolve_all p1 (r_plugins r) with
    | (p2, Ok u) => (set_path p2 saved, Ok u)
    | (p2, Err er) => (if fin then set_path p2 saved else p2, Err er)
    end.

  (* everything `generate` does before Interpreter.execute *)
  Definition pre_execute (p : proc) (e : env) (r : recipe) : proc * result unit :=
    let p0 := if e_new_app e then set_app p app0 else p in     (* SnowfakeryApplication(criteria) *)
    match with_plugin_path true p0 r with
    | (p1, Err er) => (p1, Err er)
    | (p1, Ok _) =>
      match r_stage r with
      | SParseFail => (p1, Err dge)
      | SInitFail => (p1, Err dge)
      | SExec =>
        (* Interpreter.__init__ (data_generator_runtime.py:341-345): the stop table must be declared *)
        match r_crit r with
        | CTable t _ => if existsb (String.eqb t) (r_tables r) then (p1, Ok tt) else (p1, Err dge)
        | CReps _ => (p1, Ok tt)
        end
      end
    end.

  (* snowfakery.data_generator.generate *)
  Definition run (p : proc) (e : env) (r : recipe) : proc * outcome :=
    match pre_execute p e r with
    | (p1, Err er) => (p1, mkOut [] (Some er))
    | (p1, Ok _) =>
      let p2 := set_rowhist p1 (Some []) in      (* RowHistoryCV.set(self.row_history) *)
      iterate (iter_fuel (r_crit r)) e (mkCtx (effective_version e r) (r_dir r)) (r_crit r) (r_ops r)
              p2 (init_rstate (r_cont r))
    end.

  (* the same with another number of iterations allowed: C19_fuel_is_enough says that more than
     [iter_fuel] never makes a difference *)
  Definition run_with (fuel : nat) (p : proc) (e : env) (r : recipe) : proc * outcome :=
    match pre_execute p e r with
    | (p1, Err er) => (p1, mkOut [] (Some er))
    | (p1, Ok _) =>
      let p2 := set_rowhist p1 (Some []) in
      iterate fuel e (mkCtx (effective_version e r) (r_dir r)) (r_crit r) (r_ops r)
              p2 (init_rstate (r_cont r))
    end.

  (* runs executed back to back in one process *)
  Fixpoint run_seq (p : proc) (l : list (env * recipe)) : proc * list outcome :=
    match l with
    | [] => (p, [])
    | (e, r) :: rest =>
      let '(p1, o) := run p e r in
      let '(p2, os) := run_seq p1 rest in
      (p2, o :: os)
    end.

  (* the state of a process after a history of runs *)
  Definition after_from (p0 : proc) (l : list (env * recipe)) : proc := fst (run_seq p0 l).
  Definition after (l : list (env * recipe)) : proc := after_from proc0 l.
End Run.

(* The only operation whose observation depends on the unique-id counter a run starts with: a
   unique id (its generator draws the process-wide context counter). *)
Definition is_uid_op (o : op) : bool := match o with OUid _ => true | _ => false end.
Definition no_uid (r : recipe) : bool := negb (existsb is_uid_op (r_ops r)).
Definition no_plugins (r : recipe) : bool := match r_plugins r with [] => true | _ => false end.

(* the unique-id draws among the observations: (generator slot, (context, index)) *)
Fixpoint uid_obs (l : list obs) : list (gslot * (Z * Z)) :=
  match l with
  | [] => []
  | BUid g c i :: r => (g, (c, i)) :: uid_obs r
  | _ :: r => uid_obs r
  end.

Definition uid_pairs (l : list obs) : list (Z * Z) := map snd (uid_obs l).

(* draws of the numeric generators only (unique_id, UniqueId.unique_id) *)
Definition is_numeric_slot (x : gslot * (Z * Z)) : bool := negb (gslot_eqb (fst x) SlotAlpha).
Definition num_uid_pairs (l : list obs) : list (Z * Z) := map snd (filter is_numeric_slot (uid_obs l)).

Fixpoint ids_of (t : string) (l : list obs) : list Z :=
  match l with
  | [] => []
  | BId t' i :: r => if String.eqb t t' then i :: ids_of t r else ids_of t r
  | _ :: r => ids_of t r
  end.

(* ---------------------------------------------------------------- correspondence cases *)

Definition gslot_code (g : gslot) : Z := match g with SlotNum => 0 | SlotPluginNum => 1 | SlotAlpha => 2 end.

Definition obs_eqb (a b : obs) : bool :=
  match a, b with
  | BId t i, BId t' i' => String.eqb t t' && (i =? i')
  | BCount n v, BCount n' v' => String.eqb n n' && (v =? v')
  | BUid g c i, BUid g' c' i' => gslot_eqb g g' && (c =? c') && (i =? i')
  | BUidIdx g i, BUid g' _ i' => gslot_eqb g g' && (i =? i')     (* observed, model *)
  | BVal v, BVal v' => v =? v'
  | BLazy, BLazy => true
  | BVersion v, BVersion v' => v =? v'
  | _, _ => false
  end.

(* first argument: observed, second: model *)
(* [a] is a prefix of [b] *)
Fixpoint prefix_eqb (a b : list obs) : bool :=
  match a, b with
  | [], _ => true
  | x :: r, y :: r' => obs_eqb x y && prefix_eqb r r'
  | _ :: _, [] => false
  end.

(* what the harness reads from the implementation after a run *)
Record pview := mkView {
  v_uid : Z;                    (* repr(context_uniqifier) = count(n) *)
  v_dates_size : Z; v_dates_misses : Z;     (* parse_date.cache_info() *)
  v_dts_size : Z; v_dts_misses : Z;         (* _parse_datetimespec.cache_info() *)
  v_cv_set : bool;              (* RowHistoryCV has a value *)
  v_cv_changed : bool;          (* it holds another RowHistory object than before the run *)
  v_app_ver : option Z;         (* the application's dict after the run (None when no dict / no entry) *)
  v_cwd : string;               (* os.getcwd() relative to the root of the case *)
  v_path : list string;         (* sys.path entries beyond those of the process start *)
  v_modules : list string;      (* the case's local plugin modules present in sys.modules *)
  v_app : option (Z * Z)        (* rep_count, starting_id of the application object of this run
                                   (None: the attributes are not there to be read) *)
}.

Record run_case := mkRunCase {
  rc_env : env;
  rc_recipe : recipe;
  rc_opaque : bool;             (* rows are not predicted by this model (SF-core / random / dataset
                                   recipes): only the process view is compared *)
  rc_obs : list obs;            (* observed: complete rows only *)
  rc_err : option err;
  rc_view : pview
}.

Inductive case :=
| CSeq (dtab dttab : list (key * option Z))  (* observed parse results per key (fresh processes) *)
       (ftab : list (key * option Z))        (* files the harness put under the root: "dir/file" -> content
                                                code, None: opening it raises; anything else does not exist *)
       (ptab : list (key * bool))            (* plugin modules on disk: "dir/module" -> true, or false when
                                                importing it raises ValueError *)
       (unmodelled : list string)            (* state-diff audit: changed locations outside [proc] *)
       (runs : list run_case).

(* a key the fresh runs never evaluated must not silently look like "raises" *)
Definition table_fun (tab : list (key * option Z)) (k : key) : option (option Z) := assoc_find k tab.

Definition keys_known (tab_d tab_dt : list (key * option Z)) (r : recipe) : bool :=
  forallb (fun o => match o with
                    | ODate k | ODateOnce _ k => match table_fun tab_d k with Some _ => true | None => false end
                    | ODatetime k => is_clock_key k ||
                                     match table_fun tab_dt k with Some _ => true | None => false end
                    | _ => true
                    end) (r_ops r).

Definition flat_fun (tab : list (key * option Z)) (k : key) : option Z :=
  match assoc_find k tab with Some r => r | None => None end.

(* the files of the case: a path that is not listed does not exist (FileNotFoundError) *)
Definition file_fun (tab : list (key * option Z)) (dir file : string) : result Z :=
  match assoc_find (String.append dir (String.append "/" file)) tab with
  | Some (Some v) => Ok v
  | Some None => Err (Internal "AssertionError")
  | None => Err (Internal "FileNotFoundError")
  end.

Definition plugin_fun (tab : list (key * bool)) (dir m : string) : result bool :=
  match assoc_find (String.append dir (String.append "/" m)) tab with
  | Some true => Ok true
  | Some false => Err (Internal "ValueError")
  | None => Ok false
  end.

Definition err_opt_eqb (a b : option err) : bool :=
  match a, b with
  | None, None => true
  | Some x, Some y => err_eqb x y
  | _, _ => false
  end.

Definition zopt_eqb := option_eqb Z.eqb.

Definition subset_str (a b : list string) : bool := forallb (fun x => existsb (String.eqb x) b) a.

Definition view_ok (e : env) (after : proc) (v : pview) : bool :=
  (p_uid after =? v_uid v) &&
  (Z.of_nat (length (l_items (p_dates after))) =? v_dates_size v) &&
  (l_misses (p_dates after) =? v_dates_misses v) &&
  (Z.of_nat (length (l_items (p_dts after))) =? v_dts_size v) &&
  (l_misses (p_dts after) =? v_dts_misses v) &&
  Bool.eqb (match p_rowhist after with Some _ => true | None => false end) (v_cv_set v) &&
  zopt_eqb (e_app_ver e) (v_app_ver v) &&        (* the application's dict is left as it was *)
  String.eqb (p_cwd after) (v_cwd v) &&
  list_eqb String.eqb (p_path after) (v_path v) &&
  subset_str (p_modules after) (v_modules v) && subset_str (v_modules v) (p_modules after) &&
  match v_app v with
  | Some (reps, start) => (a_reps (p_app after) =? reps) && (a_start (p_app after) =? start)
  | None => true
  end.

Section Check.
  Variable parse_d parse_dt : key -> option Z.
  Variable read_file : string -> string -> result Z.
  Variable load_plugin : string -> string -> result bool.

  Definition run_ok (p : proc) (rc : run_case) : proc * bool :=
    let '(p', out) := run parse_d parse_dt read_file load_plugin p (rc_env rc) (rc_recipe rc) in
    let reached := match snd (pre_execute load_plugin p (rc_env rc) (rc_recipe rc)) with
                   | Ok _ => true | Err _ => false end in
    (p',
     view_ok (rc_env rc) p' (rc_view rc) && Bool.eqb reached (v_cv_changed (rc_view rc)) &&
     (rc_opaque rc ||
      (err_opt_eqb (o_err out) (rc_err rc) &&
       match o_err out with
       | None => list_eqb obs_eqb (rc_obs rc) (o_obs out)
       | Some _ => prefix_eqb (rc_obs rc) (o_obs out)   (* the failing row is not delivered *)
       end))).

  Fixpoint runs_ok (p : proc) (l : list run_case) : bool :=
    match l with
    | [] => true
    | rc :: rest =>
      let '(p', ok) := run_ok p rc in
      ok && runs_ok p' rest
    end.
End Check.

Definition check_case (c : case) : bool :=
  match c with
  | CSeq dtab dttab ftab ptab unmodelled runs =>
    match unmodelled with
    | [] =>
      forallb (fun rc => keys_known dtab dttab (rc_recipe rc)) runs &&
      runs_ok (flat_fun dtab) (flat_fun dttab) (file_fun ftab) (plugin_fun ptab) proc0 runs
    | _ :: _ => false
    end
  end.
