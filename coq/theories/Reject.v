(* Reject.v — model of Snowfakery's recipe validation and error wrapping (property C20).

   Static half (validate): snowfakery/parse_recipe_yaml.py, transcribed function by function
     parse_file, parse_top_level_elements, categorize_top_level_objects, parse_included_files,
     relpath_from_inclusion_element, parse_version, parse_statement_list, parse_object_template,
     parse_variable_definition, parse_for_each_variable_definition, parse_element, parse_fields,
     parse_field, parse_field_value, parse_structured_value(_args), _coerce_to_string,
     parse_inclusions, include_macro, ParseContext.line_num;
   plugins.py resolve_plugin / resolve_plugin_alternatives (the part before importlib);
   data_generator.py merge_options; data_generator_runtime.py Interpreter.__init__ (version
   assert), find_tables_to_keep_history_for / get_referent_name;
   data_generator_runtime_object_model.py ObjectTemplate.__init__ (count and for_each).

   Every Python operation that can raise something other than a DataGenError is a *checked
   primitive* here (py_get, py_attr, py_split_include, py_startswith, py_hash, py_assert,
   need_parent, as_dict, and the type tests inside parse_fields / parse_friends / pot_val): it returns Err (Internal "<Exception>:<file>:<function>")
   where Python would raise.  The theorems of proofs/RejectP.v show that none of them can fire (the code
   as repaired by notes/patches/C20_*.diff).

   Dynamic half (exec_top): the exception wrappers of data_generator_runtime_object_model.py
   (FieldFactory.generate_value, FieldDefinition.exception_handling, SimpleValue.render,
   ObjectTemplate.exception_handling, _evaluate_count, _evaluate_for_each) and
   data_generator.generate's `except DataGenError`, over a program whose leaves raise whatever
   the oracle (the `option pyexc` stored at the leaf) says.

   Outside the model: PyYAML (text -> tree; what it raises for unloadable text is an input),
   importlib and the file system (inputs: penv / fenv), Jinja, Faker, plugin code, parser-macro
   plugins (Unsupported), cyclic alias graphs (not trees; parse_file's check_no_recursive_aliases rejects
   them before anything is parsed), update mode, continuation files. *)
From SFV Require Import Base.
Open Scope string_scope.
Open Scope list_scope.

(* sequencing written as a plain match (same meaning as Base.bind; the guard checker of the
   structural walk below does not have to unfold a constant) *)
Local Set Warnings "-notation-overridden".
Local Notation "'do' x <- r ; k" := (match r with Ok x => k | Err e => Err e end)
  (at level 200, x name, r at level 100, k at level 200, only parsing).

(* ------------------------------------------------------------------ YAML trees *)
(* floats: only what the parser can observe (truthiness, == 2 / 3, nan != nan) *)
Inductive fl := FlNan | FlZero | FlInt (z : Z) | FlOther.

Inductive yaml :=
| YNull
| YBool (b : bool)
| YInt (z : Z)
| YFloat (f : fl)
| YStr (s : string)
| YDate
| YDateTime
| YBytes (nonempty : bool)
| YSet (nonempty : bool)
| YSeq (l : list yaml)
| YMap (kv : list (yaml * yaml)).     (* without the `__line__` entry the loader adds *)

Definition kvs := list (yaml * yaml).

(* ------------------------------------------------------------------ strings *)
(* strings with bytes a Coq literal cannot hold are sent as byte lists *)
Definition sbytes (l : list Z) : string :=
  fold_right (fun z s => String (ascii_of_N (Z.to_N z)) s) EmptyString l.

Fixpoint has_char (c : ascii) (s : string) : bool :=
  match s with
  | EmptyString => false
  | String d r => if Ascii.eqb c d then true else has_char c r
  end.

(* str.strip(): the ASCII characters Python regards as whitespace *)
Definition is_ws (c : ascii) : bool :=
  let n := N_of_ascii c in
  (N.leb 9 n && N.leb n 13) || (N.leb 28 n && N.leb n 32).

Fixpoint lstrip (s : string) : string :=
  match s with
  | EmptyString => EmptyString
  | String c r => if is_ws c then lstrip r else s
  end.

Fixpoint srev_app (s acc : string) : string :=
  match s with
  | EmptyString => acc
  | String c r => srev_app r (String c acc)
  end.
Definition srev (s : string) : string := srev_app s EmptyString.
Definition strip (s : string) : string := srev (lstrip (srev (lstrip s))).

(* s.split(",") ; cur is the current piece, reversed *)
Fixpoint split_comma_aux (s cur : string) : list string :=
  match s with
  | EmptyString => [srev cur]
  | String c r =>
    if Ascii.eqb c ","%char then srev cur :: split_comma_aux r EmptyString
    else split_comma_aux r (String c cur)
  end.
Definition split_comma (s : string) : list string := split_comma_aux s EmptyString.

Definition nonempty (s : string) : bool := match s with EmptyString => false | _ => true end.

Definition starts_with_slash (s : string) : bool :=
  match s with String c _ => Ascii.eqb c "/"%char | _ => false end.

Definition mem (k : string) (l : list string) : bool := existsb (String.eqb k) l.

(* ------------------------------------------------------------------ Python views of a tree *)
Definition truthy (y : yaml) : bool :=
  match y with
  | YNull => false
  | YBool b => b
  | YInt z => negb (Z.eqb z 0)
  | YFloat FlZero => false
  | YFloat _ => true
  | YStr s => nonempty s
  | YDate | YDateTime => true
  | YBytes b | YSet b => b
  | YSeq [] => false
  | YSeq _ => true
  | YMap _ => true                 (* the loader's `__line__` entry makes every mapping truthy *)
  end.

Definition truthy_opt (o : option yaml) : bool :=
  match o with Some y => truthy y | None => false end.

(* dict.get(k) for a string k: keys are unique after loading *)
Fixpoint lookup (k : string) (kv : kvs) : option yaml :=
  match kv with
  | [] => None
  | (YStr s, v) :: r => if String.eqb s k then Some v else lookup k r
  | _ :: r => lookup k r
  end.

Definition is_str (y : yaml) : bool := match y with YStr _ => true | _ => false end.
Definition is_int (y : yaml) : bool := match y with YInt _ | YBool _ => true | _ => false end. (* bool is an int *)
Definition is_bool (y : yaml) : bool := match y with YBool _ => true | _ => false end.
Definition is_dict (y : yaml) : bool := match y with YMap _ => true | _ => false end.
Definition is_list (y : yaml) : bool := match y with YSeq _ => true | _ => false end.
Definition is_none (y : yaml) : bool := match y with YNull => true | _ => false end.
(* isinstance(field, (str, Number, date, type(None))) *)
Definition is_scalar_value (y : yaml) : bool :=
  match y with
  | YNull | YBool _ | YInt _ | YFloat _ | YStr _ | YDate | YDateTime => true
  | _ => false
  end.
Definition hashable (y : yaml) : bool :=
  match y with YSeq _ | YMap _ | YSet _ => false | _ => true end.

(* ------------------------------------------------------------------ errors and checked primitives *)
Definition dge {A} : result A := Err (DGE "").
Definition crash {A} (exc site : string) : result A := Err (Internal (exc ++ ":" ++ site)%string).

Definition py_assert (site : string) (b : bool) : result unit :=
  if b then Ok tt else crash "AssertionError" site.

(* obj.get(k): AttributeError on a non-dict *)
Definition py_get (site : string) (y : yaml) (k : string) : result (option yaml) :=
  match y with YMap kv => Ok (lookup k kv) | _ => crash "AttributeError" site end.

(* obj[k] *)
Definition py_getitem (site : string) (y : yaml) (k : string) : result yaml :=
  match y with
  | YMap kv => match lookup k kv with Some v => Ok v | None => crash "KeyError" site end
  | _ => crash "TypeError" site
  end.

(* rc_obj.<name> of parse_element's result: set when the key is present, set to None when the key
   is a defaulted optional key, otherwise AttributeError *)
Definition py_attr (site : string) (kv : kvs) (name : string) (defaulted : bool) : result yaml :=
  match lookup name kv with
  | Some v => Ok v
  | None => if defaulted then Ok YNull else crash "AttributeError" site
  end.

Definition py_startswith_slash (site : string) (y : yaml) : result bool :=
  match y with YStr s => Ok (starts_with_slash s) | _ => crash "AttributeError" site end.

(* [x.strip() for x in yaml_sobj.get("include", "").split(",")] minus the empty strings *)
Definition py_split_include (site : string) (o : option yaml) : result (list string) :=
  match o with
  | None => Ok []
  | Some (YStr s) => Ok (filter nonempty (map strip (split_comma s)))
  | Some _ => crash "AttributeError" site
  end.

Definition py_hash (site : string) (y : yaml) : result unit :=
  if hashable y then Ok tt else crash "TypeError" site.

Definition as_dict (site : string) (y : yaml) : result kvs :=
  match y with YMap kv => Ok kv | _ => crash "AssertionError" site end.

(* ParseContext.line_num() / line_num(non-dict) falls back on current_parent_object and asserts it *)
Definition need_parent (has_parent : bool) : result unit :=
  py_assert "parse_recipe_yaml.py:line_num" has_parent.

(* ------------------------------------------------------------------ _coerce_to_string *)
(* str stays, int / bool / date / datetime become str(val) (never empty), anything else: DataGenSyntaxError.
   Only emptiness and the name itself matter; str(val) of a non-string is represented by a fixed
   non-empty name that no keyword equals. *)
Definition coerce_to_string (y : yaml) : result string :=
  match y with
  | YStr s => Ok s
  | YInt _ | YBool _ | YDate | YDateTime => Ok "<str(val)>"
  | _ => dge
  end.

(* ------------------------------------------------------------------ parse_element *)
Record espec := mkSpec {
  e_type : string;                              (* element_type: str *)
  e_mand : list (string * (yaml -> bool));
  e_opt : list (string * (yaml -> bool)) }.

Fixpoint assoc {A} (k : string) (l : list (string * A)) : option A :=
  match l with
  | [] => None
  | (k', a) :: r => if String.eqb k' k then Some a else assoc k r
  end.

(* {**mandatory, **optional, "__line__": .., element_type: str}: later entries win *)
Definition expected (sp : espec) (k : string) : option (yaml -> bool) :=
  if String.eqb k (e_type sp) then Some is_str
  else match assoc k (e_opt sp) with
       | Some p => Some p
       | None => assoc k (e_mand sp)
       end.

Fixpoint pe_keys (sp : espec) (kv : kvs) : bool :=
  match kv with
  | [] => true
  | (YStr k, v) :: r =>
    match expected sp k with
    | Some p => p v && pe_keys sp r
    | None => false
    end
  | _ => false                                  (* a non-string key is never expected *)
  end.

Definition has_key (kv : kvs) (k : string) : bool :=
  match lookup k kv with Some _ => true | None => false end.

Definition parse_element (sp : espec) (kv : kvs) : result unit :=
  if pe_keys sp kv then
    if forallb (fun m => has_key kv (fst m)) (e_mand sp) then Ok tt else dge
  else dge.

Definition str_int_dict (y : yaml) := is_str y || is_int y || is_dict y.
Definition str_int_dict_list (y : yaml) := is_str y || is_int y || is_dict y || is_list y.
Definition dict_str (y : yaml) := is_dict y || is_str y.

Definition object_spec := mkSpec "object" []
  [("fields", is_dict); ("friends", is_list); ("include", is_str); ("nickname", is_str);
   ("just_once", is_bool); ("for_each", is_dict); ("count", str_int_dict); ("update_key", is_str)].
Definition var_spec := mkSpec "var" [("value", str_int_dict_list)] [].
Definition for_each_spec := mkSpec "var" [("var", is_str); ("value", dict_str)] [].
Definition macro_spec := mkSpec "macro" []
  [("fields", is_dict); ("friends", is_list); ("include", is_str)].
Definition include_file_spec := mkSpec "include_file" [] [].

(* ------------------------------------------------------------------ random_reference bookkeeping *)
(* what get_referent_name will find in a StructuredValue's first argument *)
Inductive defkind := DKStr | DKOther | DKNoDef.   (* SimpleValue(str) | SimpleValue(other) | no .definition *)
Inductive rrv := RRok | RRdge.   (* the target names a table | random_reference should only refer to a name *)
Definition out := (defkind * list rrv)%type.

Definition rr_of_kind (k : defkind) : rrv :=
  match k with
  | DKStr => RRok
  | DKOther => RRdge
  | DKNoDef => RRdge              (* getattr(target, "definition", None) is None *)
  end.

Inductive sargs := SAList (l : list defkind) | SAKw (l : list (string * defkind)).

(* {k: v ...}[name] : the last binding wins *)
Fixpoint last_assoc {A} (k : string) (l : list (string * A)) : option A :=
  match l with
  | [] => None
  | (k', a) :: r =>
    match last_assoc k r with
    | Some x => Some x
    | None => if String.eqb k' k then Some a else None
    end
  end.

Definition rr_verdict (a : sargs) : rrv :=
  match a with
  | SAList [] | SAKw [] => RRdge  (* no target at all *)
  | SAList (k :: _) => rr_of_kind k
  | SAKw l => match last_assoc "to" l with
              | Some k => rr_of_kind k
              | None => RRdge     (* kwargs.get("to") is None *)
              end
  end.

(* ------------------------------------------------------------------ the recursive walk *)
Inductive mode := MField | MStmt (top : bool).

(* iterate a function over a list, concatenating the random_reference verdicts in order *)
(* (the function is a parameter outside the `fix`, as in List.map, so that the structural walk
   below may pass itself) *)
Definition each (f : yaml -> result out) : list yaml -> result (list defkind * list rrv) :=
  fix each l :=
  match l with
  | [] => Ok ([], [])
  | x :: r =>
    do a <- f x;
    do b <- each r;
    Ok (fst a :: fst b, snd a ++ snd b)
  end.

(* keyword arguments / fields: coerce the key, then parse the value *)
Definition each_kv (check_name : string -> result unit) (f : yaml -> result out)
  : kvs -> result (list (string * defkind) * list rrv) :=
  fix each_kv kv :=
  match kv with
  | [] => Ok ([], [])
  | (k, v) :: r =>
    do name <- coerce_to_string k;
    do _ <- check_name name;
    do a <- f v;
    do b <- each_kv r;
    Ok ((name, fst a) :: fst b, snd a ++ snd b)
  end.

Definition no_check (_ : string) : result unit := Ok tt.

(* parse_field: if not name: raise DataGenSyntaxError("Field names should not be empty") *)
Definition field_name_check (name : string) : result unit :=
  if nonempty name then Ok tt else dge.

Section Walk.
  (* include_macro name context.macro_stack as seen from a template *)
  Variable inc : string -> result (list rrv).

  Fixpoint each_inc (names : list string) : result (list rrv) :=
    match names with
    | [] => Ok []
    | n :: r => do a <- inc n; do b <- each_inc r; Ok (a ++ b)
    end.

  (* parse_structured_value_args *)
  Definition sv_args (rec : mode -> yaml -> result out) (a : yaml) : result (sargs * list rrv) :=
    match a with
    | YMap kv => do r <- each_kv no_check (rec MField) kv; Ok (SAKw (fst r), snd r)
    | YSeq l => do r <- each (rec MField) l; Ok (SAList (fst r), snd r)
    | _ => do r <- rec MField a; Ok (SAList [fst r], snd r)
    end.

  (* parse_structured_value (no parser-macro plugins) *)
  Definition psv (rec : mode -> yaml -> result out) (kv : kvs) : result out :=
    match kv with
    | [] => dge                                             (* "Strange datastructure" *)
    | (fn, a) :: rest =>
      do fname <- coerce_to_string fn;
      do r <- match rest with
              | [] => sv_args rec a
              | _ => do r <- each_kv no_check (rec MField) rest; Ok (SAKw (fst r), snd r)
              end;
      Ok (DKNoDef,
          if String.eqb fname "random_reference" then snd r ++ [rr_verdict (fst r)] else snd r)
    end.

  (* parse_fields; `parsed.fields or {}`: a falsy value stands for no fields *)
  Definition parse_fields (rec : mode -> yaml -> result out) (fields : yaml) : result (list rrv) :=
    if truthy fields then
      match fields with
      | YMap kv => do r <- each_kv field_name_check (rec MField) kv; Ok (snd r)
      | _ => crash "AssertionError" "parse_recipe_yaml.py:parse_fields"   (* assert isinstance(fields, dict) *)
      end
    else Ok [].

  (* parse_friends = parse_statement_list below a template; `parsed.friends or []` *)
  Definition parse_friends (rec : mode -> yaml -> result out) (friends : yaml) : result (list rrv) :=
    if truthy friends then
      match friends with
      | YSeq l => do r <- each (rec (MStmt false)) l; Ok (snd r)
      | _ => crash "TypeError" "parse_recipe_yaml.py:parse_statement_list"
      end
    else Ok [].

  (* check_identifier: set(name) *)
  Definition check_identifier (name : yaml) : result unit :=
    if truthy name && negb (is_str name) && negb (is_list name) && negb (is_dict name)
    then crash "TypeError" "parse_recipe_yaml.py:check_identifier" else Ok tt.

  (* The values of an element are parsed where they stand (so that the recursion is structural);
     the element's function then picks the results up in the order the code evaluates them. *)
  Definition map_kv {R} (f : yaml -> yaml -> R) : kvs -> list (yaml * R) :=
    fix map_kv kv :=
    match kv with
    | [] => []
    | (k, v) :: r => (k, f k v) :: map_kv r
    end.

  Fixpoint lookup_res {R} (k : string) (l : list (yaml * R)) : option R :=
    match l with
    | [] => None
    | (YStr s, v) :: r => if String.eqb s k then Some v else lookup_res k r
    | _ :: r => lookup_res k r
    end.

  Definition res_opt (k : string) (l : list (yaml * result (list rrv))) : result (list rrv) :=
    match lookup_res k l with Some r => r | None => Ok [] end.

  Definition key_is (k : yaml) (s : string) : bool :=
    match k with YStr s' => String.eqb s' s | _ => false end.

  (* the value of `value:` in a var / for_each element: parse_field_value("value", yaml_sobj.get("value")) *)
  Definition value_val (rec : mode -> yaml -> result out) (k v : yaml) : result (list rrv) :=
    if key_is k "value" then do r <- rec MField v; Ok (snd r) else Ok [].

  (* parse_for_each_variable_definition *)
  Definition pfe (rec : mode -> yaml -> result out) (kv : kvs) : result (list rrv) :=
    let site := "parse_recipe_yaml.py:parse_for_each_variable_definition" in
    do _ <- parse_element for_each_spec kv;
    do _ <- py_attr site kv "var" false;                   (* sobj_def["varname"] = parsed_template.var *)
    match lookup_res "value" (map_kv (value_val rec) kv) with
    | Some r => r
    | None => Ok []                                        (* parse_field_value("value", None) *)
    end.

  (* parse_variable_definition *)
  Definition pvd (rec : mode -> yaml -> result out) (kv : kvs) : result (list rrv) :=
    let site := "parse_recipe_yaml.py:parse_variable_definition" in
    do _ <- parse_element var_spec kv;
    do _ <- py_attr site kv "var" false;
    match lookup_res "value" (map_kv (value_val rec) kv) with
    | Some r => r
    | None => Ok []
    end.

  (* what parsing the value of key k of a template contributes *)
  Definition pot_val (rec : mode -> yaml -> result out) (k v : yaml) : result (list rrv) :=
    if key_is k "fields" then parse_fields rec v
    else if key_is k "friends" then parse_friends rec v
    else if key_is k "count" then
      (if is_none v then Ok [] else do r <- rec MField v; Ok (snd r))      (* count_expr is not None *)
    else if key_is k "for_each" then
      (if is_none v then Ok [] else
         match v with
         | YMap fkv => pfe rec fkv
         | _ => crash "AssertionError" "parse_recipe_yaml.py:parse_object_template"  (* assert isinstance(for_each_expr, dict) *)
         end)
    else Ok [].

  Definition present (kv : kvs) (k : string) : bool :=
    match lookup k kv with Some YNull | None => false | Some _ => true end.

  (* parse_object_template; `top` = context.top_level on entry *)
  Definition pot (rec : mode -> yaml -> result out) (top : bool) (kv : kvs) : result (list rrv) :=
    let site := "parse_recipe_yaml.py:parse_object_template" in
    let vals := map_kv (pot_val rec) kv in
    do _ <- parse_element object_spec kv;
    do just_once <- py_attr site kv "just_once" true;
    do _ <- (if negb top && truthy just_once then (do _ <- need_parent (negb top); dge) else Ok tt);
    do name <- py_attr site kv "object" false;
    do _ <- check_identifier name;
    do incs <- py_split_include "parse_recipe_yaml.py:parse_inclusions" (lookup "include" kv);
    do r1 <- each_inc incs;
    do _ <- py_attr site kv "fields" true;
    do r2 <- res_opt "fields" vals;
    do _ <- py_attr site kv "friends" true;
    do r3 <- res_opt "friends" vals;
    do nick <- py_attr site kv "nickname" true;
    do _ <- check_identifier nick;
    do r4 <- res_opt "count" vals;
    do r5 <- res_opt "for_each" vals;
    (* ObjectTemplate.__init__: count_expr and for_each_expr *)
    if present kv "count" && present kv "for_each" then dge
    else Ok (r1 ++ r2 ++ r3 ++ r4 ++ r5).

  Fixpoint walk (m : mode) (y : yaml) {struct y} : result out :=
    match m with
    | MField =>                                              (* parse_field_value *)
      match y with
      | YMap kv =>
        if truthy_opt (lookup "object" kv)
        then do r <- pot walk false kv; Ok (DKNoDef, r)
        else psv walk kv
      | YSeq [x] =>
        match x with
        | YMap _ => walk MField x                            (* unwrap a one-element list *)
        | _ => do _ <- need_parent true; dge
        end
      | YStr _ => Ok (DKStr, [])
      | YNull | YBool _ | YInt _ | YFloat _ | YDate | YDateTime => Ok (DKOther, [])
      | _ => do _ <- need_parent true; dge
      end
    | MStmt top =>                                           (* one turn of parse_statement_list *)
      match y with
      | YMap kv =>
        if truthy_opt (lookup "object" kv) then do r <- pot walk top kv; Ok (DKNoDef, r)
        else if truthy_opt (lookup "var" kv) then do r <- pvd walk kv; Ok (DKNoDef, r)
        else dge                                             (* This statement cannot be parsed *)
      | _ => do _ <- need_parent (negb top); dge
      end
    end.
End Walk.

(* ------------------------------------------------------------------ macros *)
Definition menv := list (yaml * kvs).                  (* context.macros: key -> macro element *)

Fixpoint lookup_macro (name : string) (m : menv) : option kvs :=
  match m with
  | [] => None
  | (k, body) :: r =>
    match lookup_macro name r with                      (* dict.update: the last definition wins *)
    | Some b => Some b
    | None => match k with YStr s => if String.eqb s name then Some body else None | _ => None end
    end
  end.

(* include_macro; fuel = nesting depth of macro expansion (Python: the recursion limit) *)
Fixpoint include_macro (M : menv) (n : nat) (parents : list string) (name : string)
  : result (list rrv) :=
  match n with
  | O => Err OutOfFuel
  | S n' =>
    match lookup_macro name M with
    | None => dge                                       (* Cannot find macro named .. *)
    | Some body =>
      let site := "parse_recipe_yaml.py:include_macro" in
      do _ <- parse_element macro_spec body;
      if mem name parents then dge                      (* Macro `a` calls ... which calls `a` *)
      else
        do incs <- py_split_include "parse_recipe_yaml.py:parse_inclusions" (lookup "include" body);
        do r1 <- each_inc (include_macro M n' (parents ++ [name])) incs;
        do fields <- py_attr site body "fields" true;
        (* context.macro_stack = parent_macros + (name,) while the body is parsed *)
        do r2 <- parse_fields (walk (include_macro M n' (parents ++ [name]))) fields;
        do friends <- py_attr site body "friends" true;
        do r3 <- parse_friends (walk (include_macro M n' (parents ++ [name]))) friends;
        Ok (r1 ++ r2 ++ r3)
    end
  end.

(* ------------------------------------------------------------------ files, plugins, top level *)
Inductive loaderr := LMarked | LUnmarked | LValueError | LExc (site : string).
Inductive fentry := FMissing | FDir | FBad (how : loaderr) | FDoc (key : string) (doc : yaml).
Inductive pres := PMissing | PNotPlugin | PFaker | PPlugin | PParser | PCrash (site : string).

Record env := mkEnv {
  fenv : list ((string * string) * fentry);             (* (including file, relative path) -> what is there *)
  penv : list (string * pres) }.                        (* dotted plugin name -> what importlib finds *)

Fixpoint find_file (k : string * string) (l : list ((string * string) * fentry)) : option fentry :=
  match l with
  | [] => None
  | (k', e) :: r =>
    if String.eqb (fst k') (fst k) && String.eqb (snd k') (snd k) then Some e else find_file k r
  end.

(* what parse_file does when yaml_safe_load_with_line_numbers raises *)
Definition load_failure {A} (how : loaderr) : result A :=
  match how with
  | LMarked => dge                                      (* DataGenYamlSyntaxError(str(y), path, y.problem_mark.line + 1) *)
  | LUnmarked => dge                                    (* getattr(y, "problem_mark", None): no line number *)
  | LValueError => dge                                  (* except ValueError: PyYAML's constructors (2020-13-45) *)
  | LExc site => Err (Internal site)                    (* neither YAMLError nor ValueError: not caught *)
  end.

Record ctx := mkCtx {
  c_stmts : list yaml;
  c_opts : list kvs;
  c_macros : menv;
  c_parser : bool;
  c_version : option yaml }.

Definition ctx0 := mkCtx [] [] [] false None.

Definition collection_rules : list (string * string) :=
  [("option", "option"); ("include_file", "include_file"); ("macro", "macro"); ("plugin", "plugin");
   ("object", "statement"); ("var", "statement"); ("snowfakery_version", "snowfakery_version")].

(* categorize_top_level_objects, one element *)
Definition categorize1 (y : yaml) : result string :=
  match y with
  | YMap kv =>
    match filter (fun r => truthy_opt (lookup (fst r) kv)) collection_rules with
    | [] => dge                                         (* Unknown object type *)
    | [r] => Ok (snd r)
    | _ => dge                                          (* matches two name patterns *)
    end
  | _ => dge                                            (* should all be dictionaries *)
  end.

Fixpoint categorize (data : list yaml) : result (list (string * yaml)) :=
  match data with
  | [] => Ok []
  | y :: r => do c <- categorize1 y; do cs <- categorize r; Ok ((c, y) :: cs)
  end.

Definition of_category (c : string) (l : list (string * yaml)) : list yaml :=
  map snd (filter (fun p => String.eqb (fst p) c) l).

(* str.isidentifier() on ASCII text *)
Definition is_alpha_ (c : ascii) : bool :=
  let n := N_of_ascii c in
  (N.leb 65 n && N.leb n 90) || (N.leb 97 n && N.leb n 122) || N.eqb n 95.
Definition is_alnum_ (c : ascii) : bool :=
  let n := N_of_ascii c in is_alpha_ c || (N.leb 48 n && N.leb n 57).
Fixpoint all_chars (p : ascii -> bool) (s : string) : bool :=
  match s with EmptyString => true | String c r => p c && all_chars p r end.
Definition is_identifier (s : string) : bool :=
  match s with String c r => is_alpha_ c && all_chars is_alnum_ r | EmptyString => false end.

(* plugin.split(".") ; cur is the current piece, reversed *)
Fixpoint split_dot_aux (s cur : string) : list string :=
  match s with
  | EmptyString => [srev cur]
  | String c r =>
    if Ascii.eqb c "."%char then srev cur :: split_dot_aux r EmptyString
    else split_dot_aux r (String c cur)
  end.
(* all(part.isidentifier() for part in plugin.split(".")) and "." in plugin *)
Definition valid_plugin_name (s : string) : bool :=
  has_char "."%char s && forallb is_identifier (split_dot_aux s EmptyString).

(* resolve_plugin *)
Definition resolve_plugin (E : env) (spec : yaml) : result bool (* is a ParserMacroPlugin *) :=
  match spec with
  | YStr s =>
    if valid_plugin_name s then
      match assoc s (penv E) with
      | Some PMissing => dge                            (* DataGenImportError *)
      | Some PNotPlugin => dge                          (* DataGenTypeError *)
      | Some PFaker | Some PPlugin => Ok false
      | Some PParser => Ok true
      | Some (PCrash site) => Err (Internal site)       (* importing the module itself raised *)
      | None => Err BadOracle
      end
    else dge                                            (* Plugin name should look like package.module.ClassName *)
  | _ => dge                                            (* Plugin name should be a string *)
  end.

Definition is_nan (y : yaml) : bool := match y with YFloat FlNan => true | _ => false end.
(* the value as one of the accepted version numbers *)
Definition ver23 (y : yaml) : option Z :=
  match y with
  | YInt z | YFloat (FlInt z) => if Z.eqb z 2 || Z.eqb z 3 then Some z else None
  | _ => None
  end.
Definition ver_eq (z : Z) (y : yaml) : bool :=
  match y with YInt z' | YFloat (FlInt z') => Z.eqb z' z | _ => false end.

(* parse_version over the values obj["snowfakery_version"] *)
Definition parse_version (vals : list yaml) : result (option yaml) :=
  match vals with
  | [] => Ok None
  | v0 :: rest =>
    if is_nan v0 then dge                               (* nan != nan: the declaration mismatches itself *)
    else match ver23 v0 with
         | None => dge                                  (* conflicting, or not 2 / 3 *)
         | Some z => if forallb (ver_eq z) rest then Ok (Some v0) else dge
         end
  end.

Fixpoint mapM {A B} (f : A -> result B) (l : list A) : result (list B) :=
  match l with
  | [] => Ok []
  | x :: r => do a <- f x; do b <- mapM f r; Ok (a :: b)
  end.

Definition inclusion_site := "parse_recipe_yaml.py:relpath_from_inclusion_element".

(* parse_included_file for one `include_file` element of the file `key`; `load` parses the included file *)
Definition include_one (E : env) (load : string -> yaml -> ctx -> result ctx) (stack : list string)
           (key : string) (y : yaml) (c : ctx) : result ctx :=
  do kv <- as_dict "parse_recipe_yaml.py:parse_element" y;
  do _ <- parse_element include_file_spec kv;
  do rel <- py_attr inclusion_site kv "include_file" false;
  do abs <- py_startswith_slash inclusion_site rel;
  if abs then dge else                                  (* Included file paths must be relative *)
  match rel with
  | YStr relpath =>
    match find_file (key, relpath) (fenv E) with
    | Some FMissing => dge                              (* Cannot load include file *)
    | Some FDir => dge                                  (* not inclusion_path.is_file() *)
    | Some (FBad how) => load_failure how
    | Some (FDoc k d) =>
      if String.eqb k key || mem k stack then dge       (* Include file .. includes itself *)
      else load k d c
    | None => Err BadOracle
    end
  | _ => crash "TypeError" "parse_recipe_yaml.py:parse_included_file"
  end.

(* parse_included_files: the elements with a truthy include_file, in order *)
Definition include_all (E : env) (load : string -> yaml -> ctx -> result ctx) (stack : list string)
           (key : string) : list (yaml * bool) -> ctx -> result ctx :=
  fix go l c :=
  match l with
  | [] => Ok c
  | (y, false) :: r => go r c
  | (y, true) :: r => do c' <- include_one E load stack key y c; go r c'
  end.

(* check_name_is_hashable: `option` / `macro` should be a name *)
Definition check_name (k : yaml) : result unit := if hashable k then Ok tt else dge.

(* the rest of parse_top_level_elements, after the included files *)
Definition top_level_rest (E : env) (cats : list (string * yaml)) (c1 : ctx) : result ctx :=
  let site := "parse_recipe_yaml.py:parse_top_level_elements" in
  (* check_name_is_hashable for the options, then for the macros *)
  do okvs <- mapM (fun y => do k <- py_getitem site y "option";
                            do _ <- check_name k;
                            as_dict site y) (of_category "option" cats);
  (* context.macros.update({obj["macro"]: obj for obj in ...}) *)
  do ms <- mapM (fun y => do k <- py_getitem site y "macro";
                          do _ <- check_name k;
                          do _ <- py_hash site k;
                          do kv <- as_dict site y;
                          Ok (k, kv)) (of_category "macro" cats);
  do specs <- mapM (fun y => py_getitem site y "plugin") (of_category "plugin" cats);
  do ps <- mapM (resolve_plugin E) specs;
  do vals <- mapM (fun y => py_getitem "parse_recipe_yaml.py:parse_version" y "snowfakery_version")
                  (of_category "snowfakery_version" cats);
  do ver <- parse_version vals;
  Ok (mkCtx (c_stmts c1 ++ of_category "statement" cats)
            (c_opts c1 ++ okvs)
            (c_macros c1 ++ ms)
            (c_parser c1 || existsb (fun b => b) ps)
            ver).

(* parse_file (after a successful load) + parse_top_level_elements; fuel = depth of file inclusion *)
Fixpoint load_file (E : env) (n : nat) (stack : list string) (key : string) (doc : yaml) (c : ctx)
  : result ctx :=
  match n with
  | O => Err OutOfFuel
  | S n' =>
    match doc with
    | YSeq data =>
      do cats <- categorize data;
      (* parse_included_files: [obj for obj in data if obj.get("include_file")] *)
      do incl <- mapM (fun y => do v <- py_get "parse_recipe_yaml.py:parse_included_files" y "include_file";
                                Ok (y, truthy_opt v)) data;
      (* context.inclusion_stack: the files above this one *)
      do c1 <- include_all E (load_file E n' (key :: stack)) stack key incl c;
      top_level_rest E cats c1
    | _ => dge                                          (* Recipe file should be a list *)
    end
  end.

(* ------------------------------------------------------------------ after the parse: generate() up to execute() *)
Definition version_option := "snowfakery.standard_plugins.SnowfakeryVersion.snowfakery_version".

(* merge_options with no user options; returns the value the version option ends up with *)
Fixpoint merge_options (opts : list kvs) (ver : option yaml) : result (option yaml) :=
  match opts with
  | [] => Ok ver
  | o :: r =>
    do name <- py_getitem "data_generator.py:merge_options" (YMap o) "option";
    do _ <- py_hash "data_generator.py:merge_options" name;       (* name in user_options *)
    match lookup "default" o with
    | Some d =>
      merge_options r (match name with
                       | YStr s => if String.eqb s version_option then Some d else ver
                       | _ => ver
                       end)
    | None => dge                                       (* No definition supplied for option *)
    end
  end.

(* Interpreter.__init__: if snowfakery_version not in (2, 3): raise DataGenValueError *)
Definition version_assert (ver : option yaml) : result unit :=
  match ver with
  | None => Ok tt
  | Some v => match ver23 v with Some _ => Ok tt | None => dge end
  end.

(* find_tables_to_keep_history_for: get_referent_name for every random_reference, in parse order *)
Fixpoint rr_scan (l : list rrv) : result unit :=
  match l with
  | [] => Ok tt
  | RRok :: r => rr_scan r
  | RRdge :: _ => dge
  end.

Fixpoint top_statements (inc : string -> result (list rrv)) (l : list yaml) : result (list rrv) :=
  match l with
  | [] => Ok []
  | y :: r => do a <- walk inc (MStmt true) y; do b <- top_statements inc r; Ok (snd a ++ b)
  end.

(* parse_recipe + generate() up to interpreter.execute() *)
Definition validate (E : env) (ffuel mfuel : nat) (doc : yaml) : result unit :=
  do c <- load_file E ffuel [] "" doc ctx0;
  if c_parser c then Err Unsupported else
  do rr <- top_statements (include_macro (c_macros c) mfuel []) (c_stmts c);
  do ver <- merge_options (c_opts c) (c_version c);
  do _ <- version_assert ver;
  rr_scan rr.

(* No crash site of Snowfakery's own is left: every checked primitive above is unreachable (proofs/RejectP.v).
   What remains Internal comes from the environment. *)
Definition known_crash_sites : list string := [].

(* crashes the environment hands in: a plugin module that raises while it is imported, PyYAML raising
   something that is neither a YAMLError nor a ValueError on an included file *)
Fixpoint env_crashes_files (l : list ((string * string) * fentry)) : list string :=
  match l with
  | [] => []
  | (_, FBad (LExc s)) :: r => s :: env_crashes_files r
  | _ :: r => env_crashes_files r
  end.
Fixpoint env_crashes_plugins (l : list (string * pres)) : list string :=
  match l with
  | [] => []
  | (_, PCrash s) :: r => s :: env_crashes_plugins r
  | _ :: r => env_crashes_plugins r
  end.
Definition env_crashes (E : env) : list string :=
  env_crashes_files (fenv E) ++ env_crashes_plugins (penv E).

(* ------------------------------------------------------------------ correspondence cases (static half) *)
Inductive outcome := OAccept | OReject | OCrash (e : string).

Definition outcome_eqb (a b : outcome) : bool :=
  match a, b with
  | OAccept, OAccept | OReject, OReject => true
  | OCrash x, OCrash y => String.eqb x y
  | _, _ => false
  end.

(* Python's recursion limit plays the role of the fuel: exhaustion is observed as RecursionError *)
Definition classify {A} (r : result A) : option outcome :=
  match r with
  | Ok _ => Some OAccept
  | Err (DGE _) => Some OReject
  | Err (Internal e) => Some (OCrash e)
  | Err OutOfFuel => Some (OCrash "RecursionError")
  | Err _ => None
  end.

Definition FFUEL := 12%nat.      (* depth of include_file nesting followed *)
Definition MFUEL := 120%nat.     (* depth of macro expansion followed *)

(* ================================================================== dynamic half: the wrappers *)
(* An exception (a subclass of Exception; KeyboardInterrupt / SystemExit are not considered) raised at a
   leaf of the execution travels outwards through the frames between the leaf and generate()'s caller. *)
Inductive exn := EDGE | EPy (name : string).          (* any DataGenError subclass | any other class *)

Definition exn_eqb (a b : exn) : bool :=
  match a, b with
  | EDGE, EDGE => true
  | EPy x, EPy y => String.eqb x y
  | _, _ => false
  end.

Inductive frame :=
| FSimpleRender            (* SimpleValue.render: UndefinedError -> DataGenNameError, Exception -> DataGenValueError *)
| FDefEH                   (* FieldDefinition.exception_handling: Exception -> fix_exception(..) *)
| FFieldFactory            (* FieldFactory.generate_value: Exception -> fix_exception(..) *)
| FTemplateEH              (* ObjectTemplate.exception_handling: DataGenError re-raised, Exception -> DataGenError *)
| FVarEH                   (* VariableDefinition.execute: DataGenError re-raised, Exception -> fix_exception(..) *)
| FCountConv               (* _evaluate_count: except (ValueError, TypeError, OverflowError): DataGenValueError *)
| FGenerate.               (* generate: except DataGenError: add the file name, re-raise; nothing else is caught *)

Definition is_count_conversion_error (e : exn) : bool :=
  match e with
  | EPy n => String.eqb n "ValueError" || String.eqb n "TypeError" || String.eqb n "OverflowError"
  | EDGE => false
  end.

(* fix_exception returns a DataGenError for every input *)
Definition through (f : frame) (e : exn) : exn :=
  match f with
  | FSimpleRender | FDefEH | FFieldFactory | FTemplateEH | FVarEH => EDGE
  | FCountConv => if is_count_conversion_error e then EDGE else e
  | FGenerate => e
  end.

Definition converts (f : frame) : bool :=
  match f with FSimpleRender | FDefEH | FFieldFactory | FTemplateEH | FVarEH => true | _ => false end.

(* the way from generate() down to a leaf, outermost step first *)
Inductive step :=
| SVarExpr                 (* VariableDefinition.execute: try .. evaluate -> expression.render *)
| SNested                  (* a template used as a definition (ObjectTemplate.render -> generate_rows): no handler of
                              its own on the way in; what happens inside is one of the STmpl steps *)
| STmplForEach             (* generate_rows' outer exception_handling("Cannot generate"), then _evaluate_for_each:
                              exception_handling("Cannot evaluate `for_each` definition") *)
| STmplCount               (* generate_rows' outer exception_handling, then _evaluate_count *)
| STmplField               (* outer handler, rows loop: exception_handling("Cannot generate"), _generate_fields:
                              exception_handling("Problem rendering value"), FieldFactory.generate_value *)
| STmplFriend              (* outer handler, rows loop handler -> loop_over_templates_once(friends) *)
| SCallArg.                (* StructuredValue.render: exception_handling("Cannot evaluate function") -> evaluate_function -> arg.render *)

Inductive leaf :=
| LCtxTmpl                 (* generate_rows: parent_context.child_context(..) (e.g. the Faker locale), inside the outer handler *)
| LCtxVar                  (* VariableDefinition.execute: child_context(..), inside its try *)
| LCompile                 (* SimpleValue.evaluator: context.get_evaluator inside exception_handling("Cannot parse value") *)
| LEval                    (* SimpleValue.render: evaluator(context) / val.render() inside try *)
| LPost                    (* SimpleValue.render: look_for_number(val), after the try *)
| LLookup                  (* StructuredValue.render: name resolution before the guarded call *)
| LFunc                    (* StructuredValue.render: the function itself, inside exception_handling *)
| LCountConv               (* _evaluate_count: int(float(..)) — below a STmplCount step *)
| LForEachType             (* ForEachVariableDefinition.evaluate / iter(val) — below a STmplForEach step *)
| LRowSetup                (* rows loop: register_variable, generate_id, register_object, remember_row *)
| LWrite.                  (* _generate_row: exception_handling("Cannot write row") inside the rows loop *)

(* frames of a step / a leaf, innermost first *)
Definition step_frames (s : step) : list frame :=
  match s with
  | SNested => []
  | SVarExpr => [FVarEH]
  | STmplForEach => [FTemplateEH; FTemplateEH]
  | STmplCount => [FCountConv; FTemplateEH]
  | STmplField => [FFieldFactory; FTemplateEH; FTemplateEH; FTemplateEH]
  | STmplFriend => [FTemplateEH; FTemplateEH]
  | SCallArg => [FDefEH]
  end.

Definition leaf_frames (l : leaf) : list frame :=
  match l with
  | LPost | LLookup | LCountConv => []
  | LCtxTmpl => [FTemplateEH]
  | LCtxVar => [FVarEH]
  | LCompile | LFunc => [FDefEH]
  | LEval => [FSimpleRender]
  | LForEachType => [FTemplateEH; FTemplateEH]
  | LRowSetup => [FTemplateEH; FTemplateEH]
  | LWrite => [FTemplateEH; FTemplateEH; FTemplateEH]
  end.

(* all frames from the leaf outwards *)
Fixpoint frames (path : list step) (l : leaf) : list frame :=
  match path with
  | [] => leaf_frames l ++ [FGenerate]
  | s :: r => frames r l ++ step_frames s
  end.

Definition escape (path : list step) (l : leaf) (e : exn) : exn :=
  fold_left (fun e f => through f e) (frames path l) e.

Definition protected_path (path : list step) (l : leaf) : bool := existsb converts (frames path l).

(* Paths that can occur: execution enters through a top-level statement, i.e. the first step is a `var`
   or one of the template steps; with no step at all the leaf is one a statement reaches directly.
   (look_for_number, name resolution and the count conversion only happen below a step.) *)
Definition rooted (path : list step) (l : leaf) : bool :=
  match path with
  | [] => match l with LPost | LLookup | LCountConv => false | _ => true end
  | SNested :: _ | SCallArg :: _ => false
  | _ => true
  end.

(* generate(): nothing is executed unless validate succeeds; what the execution then does is an oracle
   (rows written, and possibly an exception raised at some leaf) *)
Record dynamic := mkDyn { d_rows : nat; d_fault : option (list step * leaf * exn) }.

Definition exn_err (e : exn) : err :=
  match e with EDGE => DGE "" | EPy n => Internal n end.

Definition generate (E : env) (ffuel mfuel : nat) (doc : yaml) (dyn : dynamic) : result unit * nat :=
  match validate E ffuel mfuel doc with
  | Err e => (Err e, O)
  | Ok _ =>
    match d_fault dyn with
    | None => (Ok tt, d_rows dyn)
    | Some (p, l, e) => (Err (exn_err (escape p l e)), d_rows dyn)
    end
  end.

(* ================================================================== error messages: str.format *)
(* The wrappers build their messages from text the recipe supplies (table names, nicknames, field names,
   function names, variable names, definitions) and from the message of the exception they wrap.  Two ways of
   building are in use: concatenation (Python f-strings: total) and str.format over a CONSTANT template whose
   `{}` / `{e}` fields receive the user's text as arguments (fix_exception).  str.format is modelled as the
   partial function it is: a lone brace, a field that names a missing argument or keyword raise ValueError /
   IndexError / KeyError.  Fragment: field names that are empty, decimal or plain keys; conversions (`!r`),
   format specs (`:>5`), attribute / index access (`a.b`, `a[0]`) and non-ASCII field names are Unsupported
   (a model artefact, never reached by the templates of the code). *)
Inductive fstate := SLit | SOpen | SClose | SField (acc : string).   (* acc: the field name so far, reversed *)
Inductive numbering := NUnset | NAuto (next : nat) | NManual.

Definition fmt_error {A} (exc : string) : result A := Err (Internal exc).

Definition is_digit (c : ascii) : bool := let n := N_of_ascii c in N.leb 48 n && N.leb n 57.
Definition is_ascii7 (c : ascii) : bool := N.ltb (N_of_ascii c) 128.

Fixpoint digits_value (s : string) (acc : nat) : nat :=
  match s with
  | EmptyString => acc
  | String c r => digits_value r (10 * acc + (N.to_nat (N_of_ascii c) - 48))%nat
  end.

(* get_field_object / field_name_split: automatic numbering, explicit index, keyword *)
Definition resolve_field (name : string) (num : numbering) (args : list string) (kw : list (string * string))
  : result (string * numbering) :=
  match name with
  | EmptyString =>
    match num with
    | NManual => fmt_error "ValueError"          (* cannot switch from manual field specification to automatic *)
    | NUnset => match nth_error args 0 with Some v => Ok (v, NAuto 1) | None => fmt_error "IndexError" end
    | NAuto n => match nth_error args n with Some v => Ok (v, NAuto (S n)) | None => fmt_error "IndexError" end
    end
  | _ =>
    if all_chars is_digit name then
      if Nat.ltb 6 (String.length name) then Err Unsupported
      else match num with
           | NAuto _ => fmt_error "ValueError"   (* cannot switch from automatic field numbering to manual *)
           | _ => match nth_error args (digits_value name 0) with
                  | Some v => Ok (v, NManual)
                  | None => fmt_error "IndexError"
                  end
           end
    else match assoc name kw with Some v => Ok (v, num) | None => fmt_error "KeyError" end
  end.

Inductive faction := FaEnd | FaBad | FaUnsup | FaMore.
(* one character inside a replacement field (parse_field) *)
Definition field_char (c : ascii) : faction :=
  if Ascii.eqb c "}"%char then FaEnd
  else if Ascii.eqb c "{"%char then FaBad              (* unexpected '{' in field name *)
  else if Ascii.eqb c "["%char || Ascii.eqb c "!"%char || Ascii.eqb c ":"%char || Ascii.eqb c "."%char
          || negb (is_ascii7 c) then FaUnsup
  else FaMore.

(* MarkupIterator_next, character by character *)
Fixpoint fmt_go (s : string) (st : fstate) (num : numbering) (args : list string) (kw : list (string * string))
  : result string :=
  match s with
  | EmptyString =>
    match st with
    | SLit => Ok EmptyString
    | _ => fmt_error "ValueError"     (* Single '{' / Single '}' encountered, expected '}' before end of string *)
    end
  | String c r =>
    let in_field (acc : string) :=
      match field_char c with
      | FaEnd => do vn <- resolve_field (srev acc) num args kw;
                do t <- fmt_go r SLit (snd vn) args kw;
                Ok (fst vn ++ t)%string
      | FaBad => fmt_error "ValueError"
      | FaUnsup => Err Unsupported
      | FaMore => fmt_go r (SField (String c acc)) num args kw
      end in
    match st with
    | SLit =>
      if Ascii.eqb c "{"%char then fmt_go r SOpen num args kw
      else if Ascii.eqb c "}"%char then fmt_go r SClose num args kw
      else do t <- fmt_go r SLit num args kw; Ok (String c t)
    | SClose =>
      if Ascii.eqb c "}"%char then do t <- fmt_go r SLit num args kw; Ok (String c t)
      else fmt_error "ValueError"                     (* Single '}' encountered in format string *)
    | SOpen =>
      if Ascii.eqb c "{"%char then do t <- fmt_go r SLit num args kw; Ok (String c t)
      else in_field EmptyString
    | SField acc => in_field acc
    end
  end.

(* template.format( *args, **kw ) *)
Definition py_format (template : string) (args : list string) (kw : list (string * string)) : result string :=
  fmt_go template SLit NUnset args kw.

(* ------------------------------------------------------------------ exceptions with their text *)
Record exnv := mkX {
  x_cls : exn;            (* a DataGenError subclass | another class *)
  x_msg : string;         (* .message of a DataGenError, str(e) of anything else *)
  x_line : bool }.        (* a DataGenError that knows its line *)

Definition is_dge (e : exnv) : bool := match x_cls e with EDGE => true | EPy _ => false end.
(* a DataGenError made by a wrapper: it takes file and line from the object the wrapper belongs to *)
Definition dge_at (m : string) : exnv := mkX EDGE m true.

(* data_gen_exceptions.fix_exception(message, parentobj, e, args):
   message.format( *args, e=origmessage ); a DataGenError keeps its class and gets file / line if it has none *)
Definition fix_exception (message : string) (args : list string) (e : exnv) : result exnv :=
  do m <- py_format message args [("e", x_msg e)];
  Ok (dge_at m).

Definition nl : string := String (ascii_of_N 10) EmptyString.
(* the constant templates of the code *)
Definition T_func : string := "Cannot evaluate function `{}`:" ++ nl ++ " {e}".
Definition T_field : string := "Problem rendering field {}:" ++ nl ++ " {e}".
Definition T_var : string := "Cannot evaluate variable `{}`:" ++ nl ++ " {e}".
Definition T_parse : string := "Cannot parse value {}".

(* *definition: FieldDefinition.exception_handling(message, *args) hands args[0] to fix_exception's `args`
   parameter, so SimpleValue.evaluator's `self.definition` is spread character by character *)
Fixpoint chars (s : string) : list string :=
  match s with EmptyString => [] | String c r => String c EmptyString :: chars r end.

(* ObjectTemplate.name *)
Definition tmpl_name (table nick : string) : string :=
  if nonempty nick then table ++ " (" ++ nick ++ ")" else table.
Definition cannot_generate (table nick : string) : string := "Cannot generate " ++ tmpl_name table nick.

(* the frames of `frame`, each with the text it works with *)
Inductive iframe :=
| IFSimpleRender                          (* DataGenNameError(e.message) / DataGenValueError(str(e)) *)
| IFDefEHFunc (fname : string)            (* exception_handling(T_func, [function_name]) *)
| IFDefEHCompile (definition : string)    (* exception_handling(T_parse, self.definition) *)
| IFFieldFactory (field : string)         (* fix_exception(T_field, self, e, [self.name]) *)
| IFTemplateEH (message : string)         (* DataGenError(f"{message} : {str(e)}"); DataGenErrors pass *)
| IFVarEH (varname : string)              (* DataGenErrors pass; fix_exception(T_var, self, e, [varname]) *)
| IFCountConv (definition : string)       (* DataGenValueError(f"Cannot evaluate {definition} as number") *)
| IFGenerate.

Definition erase (f : iframe) : frame :=
  match f with
  | IFSimpleRender => FSimpleRender
  | IFDefEHFunc _ | IFDefEHCompile _ => FDefEH
  | IFFieldFactory _ => FFieldFactory
  | IFTemplateEH _ => FTemplateEH
  | IFVarEH _ => FVarEH
  | IFCountConv _ => FCountConv
  | IFGenerate => FGenerate
  end.

(* what leaves the frame when e arrives: Ok e' = the exception e' is raised; Err (Internal X) = building the
   message itself failed with X, which is what leaves the frame *)
Definition wrap (f : iframe) (e : exnv) : result exnv :=
  match f with
  | IFSimpleRender => Ok (dge_at (x_msg e))
  | IFDefEHFunc fname => fix_exception T_func [fname] e
  | IFDefEHCompile d => fix_exception T_parse (chars d) e
  | IFFieldFactory n => fix_exception T_field [n] e
  | IFTemplateEH m => if is_dge e then Ok e else Ok (dge_at (m ++ " : " ++ x_msg e))
  | IFVarEH v => if is_dge e then Ok e else fix_exception T_var [v] e
  | IFCountConv d =>
    if is_count_conversion_error (x_cls e) then Ok (dge_at ("Cannot evaluate " ++ d ++ " as number")) else Ok e
  | IFGenerate => Ok e
  end.

(* an exception raised while a handler builds its message replaces the one being handled and travels on *)
Definition wrap_or_replace (f : iframe) (e : exnv) : exnv :=
  match wrap f e with
  | Ok e' => e'
  | Err (Internal x) => mkX (EPy x) "" false
  | Err _ => mkX (EPy "<model>") "" false
  end.

(* the seeded variant of ObjectTemplate.exception_handling: the message, user text included, is the template *)
Definition wrap_unified_template_eh (m : string) (e : exnv) : result exnv :=
  if is_dge e then Ok e else fix_exception (m ++ " : {e}") [] e.

(* steps and leaves with their text *)
Inductive istep :=
| ISVarExpr (varname : string)
| ISNested
| ISTmplForEach (table nick : string)
| ISTmplCount (table nick definition : string)
| ISTmplField (table nick field : string)
| ISTmplFriend (table nick : string)
| ISCallArg (fname : string).

Inductive ileaf :=
| ILCtxTmpl (table nick : string)
| ILCtxVar (varname : string)
| ILCompile (definition : string)
| ILEval
| ILPost
| ILLookup
| ILFunc (fname : string)
| ILCountConv
| ILForEachType (table nick : string)
| ILRowSetup (table nick : string)
| ILWrite (table nick : string).

Definition erase_step (s : istep) : step :=
  match s with
  | ISVarExpr _ => SVarExpr | ISNested => SNested | ISTmplForEach _ _ => STmplForEach
  | ISTmplCount _ _ _ => STmplCount | ISTmplField _ _ _ => STmplField | ISTmplFriend _ _ => STmplFriend
  | ISCallArg _ => SCallArg
  end.

Definition erase_leaf (l : ileaf) : leaf :=
  match l with
  | ILCtxTmpl _ _ => LCtxTmpl | ILCtxVar _ => LCtxVar | ILCompile _ => LCompile | ILEval => LEval
  | ILPost => LPost | ILLookup => LLookup | ILFunc _ => LFunc | ILCountConv => LCountConv
  | ILForEachType _ _ => LForEachType | ILRowSetup _ _ => LRowSetup | ILWrite _ _ => LWrite
  end.

Definition M_for_each : string := "Cannot evaluate `for_each` definition".
Definition M_field : string := "Problem rendering value".
Definition M_write : string := "Cannot write row".

Definition istep_frames (s : istep) : list iframe :=
  match s with
  | ISNested => []
  | ISVarExpr v => [IFVarEH v]
  | ISTmplForEach t n => [IFTemplateEH M_for_each; IFTemplateEH (cannot_generate t n)]
  | ISTmplCount t n d => [IFCountConv d; IFTemplateEH (cannot_generate t n)]
  | ISTmplField t n f =>
    [IFFieldFactory f; IFTemplateEH M_field; IFTemplateEH (cannot_generate t n); IFTemplateEH (cannot_generate t n)]
  | ISTmplFriend t n => [IFTemplateEH (cannot_generate t n); IFTemplateEH (cannot_generate t n)]
  | ISCallArg fn => [IFDefEHFunc fn]
  end.

Definition ileaf_frames (l : ileaf) : list iframe :=
  match l with
  | ILPost | ILLookup | ILCountConv => []
  | ILCtxTmpl t n => [IFTemplateEH (cannot_generate t n)]
  | ILCtxVar v => [IFVarEH v]
  | ILCompile d => [IFDefEHCompile d]
  | ILFunc fn => [IFDefEHFunc fn]
  | ILEval => [IFSimpleRender]
  | ILForEachType t n => [IFTemplateEH M_for_each; IFTemplateEH (cannot_generate t n)]
  | ILRowSetup t n => [IFTemplateEH (cannot_generate t n); IFTemplateEH (cannot_generate t n)]
  | ILWrite t n => [IFTemplateEH M_write; IFTemplateEH (cannot_generate t n); IFTemplateEH (cannot_generate t n)]
  end.

Fixpoint iframes (path : list istep) (l : ileaf) : list iframe :=
  match path with
  | [] => ileaf_frames l ++ [IFGenerate]
  | s :: r => iframes r l ++ istep_frames s
  end.

Definition escape_v (path : list istep) (l : ileaf) (e : exnv) : exnv :=
  fold_left (fun e f => wrap_or_replace f e) (iframes path l) e.

(* get_evaluator raises only after compiler_for_string found one of Jinja's opening delimiters in the text *)
Fixpoint is_prefix (p s : string) : bool :=
  match p, s with
  | EmptyString, _ => true
  | String a p', String b s' => Ascii.eqb a b && is_prefix p' s'
  | _, EmptyString => false
  end.
Fixpoint contains (sub s : string) : bool :=
  is_prefix sub s || match s with EmptyString => false | String _ r => contains sub r end.
Definition jinja_delimiters : list string := ["${%"; "${{"; "<%"; "<<"].
Definition compile_can_raise (definition : string) : bool :=
  existsb (fun d => contains d definition) jinja_delimiters.
Definition ileaf_possible (l : ileaf) : bool :=
  match l with ILCompile d => compile_can_raise d | _ => true end.

(* ================================================================== documents with anchors: a graph *)
(* PyYAML turns `&a` / `*a` into shared Python objects: what parse_file receives is a graph.  A heap of
   nodes, containers referring to their members by index, stands for it; check_no_recursive_aliases walks
   it depth first with the path from the root (`ancestors`) and a memo of the containers it has finished
   (`finished`, shared by the whole walk).  a_calls counts the invocations of the function. *)
Inductive hnode := HLeaf (y : yaml) | HSeq (items : list nat) | HMap (kv : list (yaml * nat)).
Definition heap := list hnode.

Definition children (n : hnode) : list nat :=
  match n with HLeaf _ => [] | HSeq l => l | HMap kv => map snd kv end.
Definition is_container (n : hnode) : bool := match n with HLeaf _ => false | _ => true end.
Definition memn (i : nat) (l : list nat) : bool := existsb (Nat.eqb i) l.

Record astate := mkA { a_fin : list nat; a_calls : nat }.

Definition aloop (rec : nat -> astate -> result astate) : list nat -> astate -> result astate :=
  fix go cs st :=
  match cs with
  | [] => Ok st
  | c :: r => do s1 <- rec c st; go r s1
  end.

Fixpoint acheck (h : heap) (fuel : nat) (anc : list nat) (i : nat) (st : astate) : result astate :=
  match fuel with
  | O => Err OutOfFuel
  | S f =>
    let st1 := mkA (a_fin st) (S (a_calls st)) in
    match nth_error h i with
    | None => Err BadOracle
    | Some n =>
      if negb (is_container n) || memn i (a_fin st1) then Ok st1   (* not a dict / list, or id(data) in finished *)
      else if memn i anc then dge                                    (* id(data) in ancestors: recursive alias *)
      else
        do st' <- aloop (acheck h f (i :: anc)) (children n) st1;
        Ok (mkA (i :: a_fin st') (a_calls st'))                      (* finished.add(id(data)) *)
    end
  end.

(* the walk of a whole document *)
Definition alias_fuel (h : heap) : nat := S (S (length h)).
Definition alias_check (h : heap) (root : nat) : result astate := acheck h (alias_fuel h) [] root (mkA [] 0).

(* the seeded variant: `finished = finished or set()` - an empty memo is replaced by a private one, what a
   call adds is lost for its caller as long as the caller's own memo is empty: nothing is ever remembered *)
Fixpoint acheck_nomemo (h : heap) (fuel : nat) (anc : list nat) (i : nat) (calls : nat) : result nat :=
  match fuel with
  | O => Err OutOfFuel
  | S f =>
    match nth_error h i with
    | None => Err BadOracle
    | Some n =>
      if negb (is_container n) then Ok (S calls)
      else if memn i anc then dge
      else (fix go cs calls := match cs with
                               | [] => Ok calls
                               | c :: r => do k <- acheck_nomemo h f (i :: anc) c calls; go r k
                               end) (children n) (S calls)
    end
  end.

(* number of member slots of the whole heap: the size of the document as PyYAML holds it *)
Definition kids (h : heap) (i : nat) : nat :=
  match nth_error h i with Some n => length (children n) | None => O end.
Definition edges (h : heap) : nat := list_sum (map (fun n => length (children n)) h).

(* the tree a graph stands for (what the parser sees when it follows the references) *)
Fixpoint unfold (h : heap) (fuel : nat) (i : nat) : result yaml :=
  match fuel with
  | O => Err OutOfFuel
  | S f =>
    match nth_error h i with
    | None => Err BadOracle
    | Some (HLeaf y) => Ok y
    | Some (HSeq l) => do ys <- mapM (unfold h f) l; Ok (YSeq ys)
    | Some (HMap kv) =>
      do vs <- mapM (fun p => do v <- unfold h f (snd p); Ok (fst p, v)) kv; Ok (YMap vs)
    end
  end.

(* parse_file on the main document: the alias check, then everything else on the tree *)
Definition validate_graph (E : env) (ffuel mfuel : nat) (h : heap) (root : nat) : result unit :=
  do _ <- alias_check h root;
  do doc <- unfold h (S (length h)) root;
  validate E ffuel mfuel doc.

(* ------------------------------------------------------------------ correspondence cases *)
Inductive fmtres := FROk (s : string) | FRErr (exc : string).

Inductive case :=
| CDoc (E : env) (doc : yaml) (expected : outcome)            (* static verdict on a loaded document *)
| CText (how : loaderr) (expected : outcome)                  (* text PyYAML cannot load *)
| CFault (path : list step) (l : leaf) (e : exn) (expected : exn)   (* an injected run-time exception *)
(* a document as a graph (anchors and aliases kept): static verdict, and the number of invocations of the
   alias check observed on the implementation (0 = not observed) against the model's *)
| CGraph (E : env) (h : heap) (root : nat) (expected : outcome) (impl_calls slack : Z)
(* the alias check alone (graphs whose tree is too big to build): rejected as recursive or not *)
| CAlias (h : heap) (root : nat) (recursive : bool) (impl_calls slack : Z)
(* Python's own str.format on (template, args, kwargs) *)
| CFmt (template : string) (args : list string) (kw : list (string * string)) (expected : fmtres)
(* fix_exception(template, parent, e, args) of the implementation: class of what it returns / raises *)
| CFix (template : string) (args : list string) (e : exnv) (expected : exn)
(* an injected run-time exception with all the text around it: class leaving generate, whether the
   DataGenError has a message and a line *)
| CFaultV (path : list istep) (l : ileaf) (e : exnv) (expected : exn) (has_msg has_line : bool).

Definition calls_within (impl_calls slack : Z) (st : astate) : bool :=
  Z.leb impl_calls (Z.of_nat (a_calls st) + slack).

Definition fmtres_eqb (a b : fmtres) : bool :=
  match a, b with
  | FROk x, FROk y | FRErr x, FRErr y => String.eqb x y
  | _, _ => false
  end.

Definition static_agrees (r : result unit) (expected : outcome) : bool :=
  match r with
  | Err Unsupported => true
  | r => match classify r with Some o => outcome_eqb o expected | None => false end
  end.

Definition check_case (c : case) : bool :=
  match c with
  | CDoc E doc expected => static_agrees (validate E FFUEL MFUEL doc) expected
  | CText how expected =>
    match classify (@load_failure unit how) with Some o => outcome_eqb o expected | None => false end
  | CFault p l e expected => exn_eqb (escape p l e) expected
  | CGraph E h root expected impl_calls slack =>
    match alias_check h root with
    | Ok st => calls_within impl_calls slack st && static_agrees (validate_graph E FFUEL MFUEL h root) expected
    | Err (DGE _) => outcome_eqb OReject expected
    | Err _ => false
    end
  | CAlias h root recursive impl_calls slack =>
    match alias_check h root with
    | Ok st => negb recursive && calls_within impl_calls slack st
    | Err (DGE _) => recursive
    | Err _ => false
    end
  | CFmt t args kw expected =>
    match py_format t args kw with
    | Ok s => fmtres_eqb (FROk s) expected
    | Err (Internal x) => fmtres_eqb (FRErr x) expected
    | Err Unsupported => true
    | Err _ => false
    end
  | CFix t args e expected =>
    match fix_exception t args e with
    | Ok e' => exn_eqb (x_cls e') expected
    | Err (Internal x) => exn_eqb (EPy x) expected
    | Err Unsupported => true
    | Err _ => false
    end
  | CFaultV p l e expected has_msg has_line =>
    let r := escape_v p l e in
    exn_eqb (x_cls r) expected &&
    (* what the model promises must hold on the implementation (not the converse: the code may say more) *)
    (if is_dge r then implb (nonempty (x_msg r)) has_msg && implb (x_line r) has_line else true)
  end.

(* cases outside the modelled fragment (a parser-macro plugin is declared; a format template with
   conversions / format specs / attribute access) *)
Definition case_unsupported (c : case) : bool :=
  match c with
  | CDoc E doc _ => match validate E FFUEL MFUEL doc with Err Unsupported => true | _ => false end
  | CGraph E h root _ _ _ =>
    match validate_graph E FFUEL MFUEL h root with Err Unsupported => true | _ => false end
  | CFmt t args kw _ => match py_format t args kw with Err Unsupported => true | _ => false end
  | CFix t args e _ => match fix_exception t args e with Err Unsupported => true | _ => false end
  | _ => false
  end.
