(* Datasets.v — model of Snowfakery's dataset iteration (property C17).

   Transcribed code (as it is in /repo now):
     snowfakery/plugins.py                 PluginResultIterator.next / restart, memorable,
                                           evaluate_memorable_function
     snowfakery/standard_plugins/datasets.py
                                           CSV / SQL iterators: start() linear and shuffled
     snowfakery/data_generator_runtime.py  Interpreter.get_contextual_state (one state per call
                                           site, kept across iterations), RuntimeContext
                                           (recalculate_every_time is inherited by child contexts;
                                           on only while a for_each expression is rendered)
     snowfakery/data_generator_runtime_object_model.py
                                           ForEachVariableDefinition.evaluate, ObjectTemplate.
                                           generate_rows / _generate_row / _generate_fields
     snowfakery/parse_recipe_yaml.py       build_update_recipe

   A record is an opaque payload R; the only thing ever done to a record is projecting a
   column (for_each variable / update-mode pass-through fields), modelled by [col].
   random.shuffle is Fisher-Yates driven by an explicit oracle stream of _randbelow results. *)
From SFV Require Import Base.

Inductive mode := Linear | Shuffled.

Section Model.
Variable R : Type.                       (* a record of the dataset                  *)
Variable C : Type.                       (* a rendered column value                  *)
Variable col : R -> nat -> option C.     (* ${{var.column}}; None = no such column   *)

(* ------------------------------------------------------------------ random.shuffle *)

Fixpoint upd (l : list R) (i : nat) (v : R) : list R :=
  match l, i with
  | [], _ => []
  | _ :: r, O => v :: r
  | x :: r, S k => x :: upd r k v
  end.

(* x[i], x[j] = x[j], x[i] *)
Definition swap (l : list R) (i j : nat) : result (list R) :=
  match nth_error l i, nth_error l j with
  | Some xi, Some xj => Ok (upd (upd l i xj) j xi)
  | _, _ => Err (Internal "IndexError")
  end.

(* for i in reversed(range(1, len(x))): j = randbelow(i + 1); x[i], x[j] = x[j], x[i]
   [fy i l orc] runs the loop for indices i, i-1, ..., 1. *)
Fixpoint fy (i : nat) (l : list R) (orc : list Z) : result (list R * list Z) :=
  match i with
  | O => Ok (l, orc)
  | S i' =>
    match orc with
    | [] => Err BadOracle
    | j :: rest =>
      if (0 <=? j) && (j <=? Z.of_nat i) then
        do l' <- swap l i (Z.to_nat j); fy i' l' rest
      else Err BadOracle
    end
  end.

Definition shuffle (l : list R) (orc : list Z) : result (list R * list Z) :=
  fy (Nat.pred (length l)) l orc.

(* ------------------------------------------------------------------ the iterator *)

(* what a Dataset.iterate / Dataset.shuffle call denotes: the file's records in file order,
   the iteration mode, the `repeat` keyword (default True) *)
Record dsref := mkDs { d_data : list R; d_mode : mode; d_repeat : bool }.

(* a live PluginResultIterator: self.repeat is mutable (for_each turns it off),
   i_rest = what self.results still has to deliver in the current pass *)
Record iter := mkIter { i_ds : dsref; i_repeat : bool; i_rest : list R }.

(* start(): re-read the file from the top (seek(0) / re-run the query); shuffled mode loads
   all rows and shuffles them *)
Definition start (d : dsref) (orc : list Z) : result (list R * list Z) :=
  match d_mode d with
  | Linear => Ok (d_data d, orc)
  | Shuffled => shuffle (d_data d) orc
  end.

(* the constructors call start() once *)
Definition new_iter (d : dsref) (orc : list Z) : result (iter * list Z) :=
  do '(res, orc') <- start d orc;
  Ok (mkIter d (d_repeat d) res, orc').

(* PluginResultIterator.next():
     try: return self.next_result()
     except StopIteration:
         if self.repeat: self.restart(); return self.next_result()
         else: raise                                                        *)
Definition iter_next (it : iter) (orc : list Z) : result (R * iter * list Z) :=
  match i_rest it with
  | x :: r => Ok (x, mkIter (i_ds it) (i_repeat it) r, orc)
  | [] =>
    if i_repeat it then
      do '(res, orc') <- start (i_ds it) orc;
      match res with
      | x :: r => Ok (x, mkIter (i_ds it) (i_repeat it) r, orc')
      | [] => Err StopIter          (* second exhaustion in a row propagates *)
      end
    else Err StopIter
  end.

(* _generate_fields: value.next(), StopIteration -> DataGenError *)
Definition field_draw (it : iter) (orc : list Z) : result (R * iter * list Z) :=
  match iter_next it orc with
  | Err StopIter => Err (DGE "Could not generate enough values to create rows")
  | r => r
  end.

(* k successive field draws from one iterator *)
Fixpoint draw_seq (k : nat) (it : iter) (orc : list Z) : result (list R * iter * list Z) :=
  match k with
  | O => Ok ([], it, orc)
  | S k' =>
    do '(x, it1, orc1) <- field_draw it orc;
    do '(l, it2, orc2) <- draw_seq k' it1 orc1;
    Ok (x :: l, it2, orc2)
  end.

(* next() until StopIteration, as zip(iterator, count()) does in generate_rows;
   fuel-bounded because a repeating iterator never stops *)
Fixpoint zip_drain (fuel : nat) (it : iter) (orc : list Z) : result (list R * list Z) :=
  match fuel with
  | O => Err OutOfFuel
  | S f =>
    match iter_next it orc with
    | Err StopIter => Ok ([], orc)
    | Err e => Err e
    | Ok (x, it1, orc1) => do '(l, orc2) <- zip_drain f it1 orc1; Ok (x :: l, orc2)
    end
  end.

(* ------------------------------------------------------------------ recipes *)

Inductive loop :=
| LDefault                       (* no count: one row                                  *)
| LCount (m : nat)               (* count: m                                           *)
| LForEach (d : dsref).          (* for_each: var: v, value: Dataset.iterate/shuffle   *)

(* An ObjectTemplate.  sites  = fields whose value is a Dataset.iterate / Dataset.shuffle
   call (call-site identifier, arguments), in field order;  pass = columns of the for_each
   variable that later fields project (update mode appends its pass-through fields here);
   nested = object templates that are field values;  friends = the friends list. *)
Inductive tmpl :=
| Tmpl (tid : nat) (lp : loop) (sites : list (nat * dsref)) (pass : list nat)
       (nested friends : tmpls)
with tmpls :=
| TNil
| TCons (t : tmpl) (r : tmpls).

Record row := mkRow {
  r_tid : nat;                       (* which template wrote the row            *)
  r_fe : option R;                   (* value of the for_each variable          *)
  r_index : Z;                       (* child_index                             *)
  r_cons : list (nat * R);           (* records consumed, by call site          *)
  r_pass : list C                    (* projected columns                       *)
}.

Record st := mkSt {
  s_sites : list (nat * iter);       (* Interpreter.instance_states             *)
  s_orc : list Z;                    (* remaining _randbelow results            *)
  s_out : list row                   (* rows written so far                     *)
}.

(* outcome of a step: the run goes on in state s, or the run has failed with e after having
   written the rows out *)
Inductive res (A : Type) := ROk (a : A) (s : st) | RErr (e : err) (out : list row).
Arguments ROk {A} a s.
Arguments RErr {A} e out.

Fixpoint lookup (sid : nat) (l : list (nat * iter)) : option iter :=
  match l with
  | [] => None
  | (k, v) :: r => if Nat.eqb k sid then Some v else lookup sid r
  end.

Fixpoint store (sid : nat) (v : iter) (l : list (nat * iter)) : list (nat * iter) :=
  match l with
  | [] => [(sid, v)]
  | (k, w) :: r => if Nat.eqb k sid then (k, v) :: r else (k, w) :: store sid v r
  end.

(* A Dataset.* field of a row.  @memorable: under recalculate_every_time the function is
   simply called (a new iterator each time, stored nowhere); otherwise the iterator of this
   call site is fetched from / created in instance_states.  Then _generate_fields draws.
   Since the repair of ForEachVariableDefinition.evaluate the flag is on only inside a for_each
   expression, so every field of a run started by run_recipe is drawn with recalc = false. *)
Definition site_draw (recalc : bool) (sid : nat) (d : dsref) (s : st) : res R :=
  if recalc then
    match new_iter d (s_orc s) with
    | Err e => RErr e (s_out s)
    | Ok (it, orc1) =>
      match field_draw it orc1 with
      | Err e => RErr e (s_out s)
      | Ok (x, _, orc2) => ROk x (mkSt (s_sites s) orc2 (s_out s))
      end
    end
  else
    match (match lookup sid (s_sites s) with
           | Some it => Ok (it, s_orc s)
           | None => new_iter d (s_orc s)
           end) with
    | Err e => RErr e (s_out s)
    | Ok (it, orc1) =>
      match field_draw it orc1 with
      | Err e => RErr e (s_out s)
      | Ok (x, it', orc2) => ROk x (mkSt (store sid it' (s_sites s)) orc2 (s_out s))
      end
    end.

Fixpoint draw_sites (recalc : bool) (sites : list (nat * dsref)) (s : st) : res (list (nat * R)) :=
  match sites with
  | [] => ROk [] s
  | (sid, d) :: rest =>
    match site_draw recalc sid d s with
    | RErr e o => RErr e o
    | ROk x s1 =>
      match draw_sites recalc rest s1 with
      | RErr e o => RErr e o
      | ROk l s2 => ROk ((sid, x) :: l) s2
      end
    end
  end.

(* fields ${{var.column}} *)
Fixpoint project (fe : option R) (pass : list nat) : result (list C) :=
  match pass with
  | [] => Ok []
  | c :: rest =>
    match fe with
    | None => Err (DGE "undefined variable")
    | Some x =>
      match col x c with
      | None => Err (DGE "attribute not found")
      | Some v => do l <- project fe rest; Ok (v :: l)
      end
    end
  end.

Definition emit (r : row) (s : st) : st := mkSt (s_sites s) (s_orc s) (s_out s ++ [r]).

(* for i in range(m) *)
Fixpoint count_loop (body : Z -> st -> res unit) (m : nat) (i : Z) (s : st) : res unit :=
  match m with
  | O => ROk tt s
  | S m' =>
    match body i s with
    | ROk _ s1 => count_loop body m' (i + 1) s1
    | e => e
    end
  end.

(* for i, (x, child_index) in enumerate(zip(iterator, count())) where the iterator does not
   repeat: it delivers the rest of its current pass and stops (proofs/DatasetsP.v,
   zip_drain_norepeat, ties this to iter_next) *)
Fixpoint each_loop (body : R -> Z -> st -> res unit) (l : list R) (i : Z) (s : st) : res unit :=
  match l with
  | [] => ROk tt s
  | x :: r =>
    match body x i s with
    | ROk _ s1 => each_loop body r (i + 1) s1
    | e => e
    end
  end.

(* ObjectTemplate.generate_rows in a parent context whose recalculate_every_time is rc *)
Fixpoint gen_rows (t : tmpl) (rc : bool) (s : st) {struct t} : res unit :=
  match t with
  | Tmpl tid lp sites pass nested friends =>
    (* _generate_row: fields (dataset draws, nested objects, projections), write, friends *)
    let one_row (rc' : bool) (fe : option R) (i : Z) (s : st) : res unit :=
      match draw_sites rc' sites s with
      | RErr e o => RErr e o
      | ROk cs s1 =>
        match gen_list nested rc' s1 with
        | RErr e o => RErr e o
        | ROk _ s2 =>
          match project fe pass with
          | Err e => RErr e (s_out s2)
          | Ok p => gen_list friends rc' (emit (mkRow tid fe i cs p) s2)
          end
        end
      end in
    match lp with
    | LDefault => count_loop (one_row rc None) 1 0 s
    | LCount m => count_loop (one_row rc None) m 0 s
    | LForEach d =>
      (* ForEachVariableDefinition.evaluate: recalculate_every_time is True only while the
         for_each expression is rendered (a fresh iterator at every evaluation) and is then
         restored, so the rows are generated under the inherited flag; ret.repeat = False *)
      match new_iter d (s_orc s) with
      | Err e => RErr e (s_out s)
      | Ok (it, orc1) =>
        each_loop (fun x => one_row rc (Some x)) (i_rest it) 0
                  (mkSt (s_sites s) orc1 (s_out s))
      end
    end
  end
with gen_list (ts : tmpls) (rc : bool) (s : st) {struct ts} : res unit :=
  match ts with
  | TNil => ROk tt s
  | TCons t r =>
    match gen_rows t rc s with
    | ROk _ s1 => gen_list r rc s1
    | e => e
    end
  end.

(* loop_over_templates_until_finished with a stopping criterion met after `iters` passes;
   the root context has recalculate_every_time = False *)
Fixpoint iterations (iters : nat) (ts : tmpls) (s : st) : res unit :=
  match iters with
  | O => ROk tt s
  | S k =>
    match gen_list ts false s with
    | ROk _ s1 => iterations k ts s1
    | e => e
    end
  end.

Definition run_recipe (iters : nat) (ts : tmpls) (orc : list Z) : list row * option err :=
  match iterations iters ts (mkSt [] orc []) with
  | ROk _ s => (s_out s, None)
  | RErr e out => (out, Some e)
  end.

(* build_update_recipe: exactly one statement, an object template without count; it gets
   for_each: input <- CSVDatasetLinearIterator(update_input_file, repeat=False) and one extra
   field ${{input.<name>}} per pass-through field (after the template's own fields).
   The iterator object is created once, at parse time; update recipes run one iteration. *)
Definition build_update (ts : tmpls) (input : list R) (passthrough : list nat) : result tmpls :=
  match ts with
  | TCons (Tmpl tid lp sites pass nested friends) TNil =>
    match lp with
    | LCount _ => Err (DGE "Update templates should have no 'count'")
    | _ => Ok (TCons (Tmpl tid (LForEach (mkDs input Linear false)) sites
                           (pass ++ passthrough) nested friends) TNil)
    end
  | _ => Err (DGE "Update recipes should have a single object declaration.")
  end.

Definition run_update (ts : tmpls) (input : list R) (passthrough : list nat) (orc : list Z)
  : list row * option err :=
  match build_update ts input passthrough with
  | Err e => ([], Some e)
  | Ok ts' => run_recipe 1 ts' orc
  end.

End Model.

Arguments mkDs {R} _ _ _.
Arguments Tmpl {R} _ _ _ _ _ _.
Arguments TNil {R}.
Arguments TCons {R} _ _.
Arguments LDefault {R}.
Arguments LCount {R} _.
Arguments LForEach {R} _.
Arguments mkRow {R C} _ _ _ _ _.
Arguments r_tid {R C} _.

(* ------------------------------------------------------------------ correspondence cases *)

(* a cell is the text of a CSV field / SQL value as code points, None where the record has
   no value for the column (short CSV line, SQL NULL) *)
Definition cell := option (list Z).
Definition rec := list cell.

(* Jinja renders a missing value as the text None *)
Definition render_cell (c : cell) : list Z :=
  match c with Some s => s | None => [78; 111; 110; 101] end.
Definition rec_col (r : rec) (i : nat) : option (list Z) := option_map render_cell (nth_error r i).

Definition cell_eqb : cell -> cell -> bool := option_eqb (list_eqb Z.eqb).
Definition rec_eqb : rec -> rec -> bool := list_eqb cell_eqb.

Definition row_eqb (a b : row rec (list Z)) : bool :=
  Nat.eqb (r_tid a) (r_tid b) &&
  option_eqb rec_eqb (r_fe _ _ a) (r_fe _ _ b) &&
  (r_index _ _ a =? r_index _ _ b) &&
  list_eqb (fun p q => Nat.eqb (fst p) (fst q) && rec_eqb (snd p) (snd q)) (r_cons _ _ a) (r_cons _ _ b) &&
  list_eqb (list_eqb Z.eqb) (r_pass _ _ a) (r_pass _ _ b).

(* The comparison is per template: the order of rows of one template is what C17 speaks
   about; how rows of different templates interleave is not. *)
Definition by_template (tids : list nat) (rows : list (row rec (list Z))) : list (row rec (list Z)) :=
  concat (map (fun t => filter (fun r => Nat.eqb (r_tid r) t) rows) tids).

Definition outcome_eqb (tids : list nat) (a b : list (row rec (list Z)) * option err) : bool :=
  list_eqb row_eqb (by_template tids (fst a)) (by_template tids (fst b)) &&
  option_eqb err_eqb (snd a) (snd b).

Inductive case :=
| CRun (iters : nat) (ts : tmpls rec) (orc : list Z) (tids : list nat)
       (exp_rows : list (row rec (list Z))) (exp_err : option err)
| CUpdate (ts : tmpls rec) (input : list rec) (passthrough : list nat) (orc : list Z)
          (tids : list nat) (exp_rows : list (row rec (list Z))) (exp_err : option err).

Definition check_case (c : case) : bool :=
  match c with
  | CRun iters ts orc tids rows e =>
    outcome_eqb tids (run_recipe rec (list Z) rec_col iters ts orc) (rows, e)
  | CUpdate ts input pt orc tids rows e =>
    outcome_eqb tids (run_update rec (list Z) rec_col ts input pt orc) (rows, e)
  end.
