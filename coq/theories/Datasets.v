(* Datasets.v — model of Snowfakery's dataset iteration (property C17).

   Transcribed code (as it is in /repo now):
     snowfakery/plugins.py                 PluginResultIterator.next / restart, memorable,
                                           evaluate_memorable_function
     snowfakery/standard_plugins/datasets.py
                                           CSV / SQL iterators: start() linear and shuffled
     snowfakery/data_generator_runtime.py  Interpreter.get_contextual_state (one state per call
                                           site, kept across iterations), RuntimeContext
                                           (recalculate_every_time is inherited by child contexts;
                                           on only while a for_each expression is rendered)
     snowfakery/data_generator_runtime_object_model.py
                                           ForEachVariableDefinition.evaluate, ObjectTemplate.
                                           generate_rows / _generate_row / _generate_fields
     snowfakery/parse_recipe_yaml.py       build_update_recipe

   A record is an opaque payload R; the only thing ever done to a record is projecting a
   column (for_each variable / update-mode pass-through fields), modelled by [col].
   random.shuffle is Fisher-Yates driven by an explicit oracle stream of _randbelow results.
   Memoisation of Dataset calls (which evaluations share an iterator: `name`, function, call
   site; the recalculate_every_time bypass) is [key_of] / [memo_get].
   Further down (outside the section): the CSV record reader the CSV iterators rely on —
   utf-8-sig, universal-newline line iteration, the csv.reader state machine, csv.DictReader —
   as an executable model ([csv_rows], [csv_records]) next to a writer ([write_file]). *)
From SFV Require Import Base.

Inductive mode := Linear | Shuffled.

Section Model.
Variable R : Type.                       (* a record of the dataset                  *)
Variable C : Type.                       (* a rendered column value                  *)
Variable col : R -> nat -> option C.     (* ${{var.column}}; None = no such column   *)

(* ------------------------------------------------------------------ random.shuffle *)

Fixpoint upd (l : list R) (i : nat) (v : R) : list R :=
  match l, i with
  | [], _ => []
  | _ :: r, O => v :: r
  | x :: r, S k => x :: upd r k v
  end.

(* x[i], x[j] = x[j], x[i] *)
Definition swap (l : list R) (i j : nat) : result (list R) :=
  match nth_error l i, nth_error l j with
  | Some xi, Some xj => Ok (upd (upd l i xj) j xi)
  | _, _ => Err (Internal "IndexError")
  end.

(* for i in reversed(range(1, len(x))): j = randbelow(i + 1); x[i], x[j] = x[j], x[i]
   [fy i l orc] runs the loop for indices i, i-1, ..., 1. *)
Fixpoint fy (i : nat) (l : list R) (orc : list Z) : result (list R * list Z) :=
  match i with
  | O => Ok (l, orc)
  | S i' =>
    match orc with
    | [] => Err BadOracle
    | j :: rest =>
      if (0 <=? j) && (j <=? Z.of_nat i) then
        do l' <- swap l i (Z.to_nat j); fy i' l' rest
      else Err BadOracle
    end
  end.

Definition shuffle (l : list R) (orc : list Z) : result (list R * list Z) :=
  fy (Nat.pred (length l)) l orc.

(* ------------------------------------------------------------------ the iterator *)

(* what a Dataset.iterate / Dataset.shuffle call denotes: the file's records in file order,
   the function called (iterate = Linear, shuffle = Shuffled), the `repeat` keyword (default True)
   and the `name` keyword (None: absent or falsy) *)
Record dsref := mkDs { d_data : list R; d_mode : mode; d_repeat : bool; d_name : option nat }.

(* a live PluginResultIterator: self.repeat is mutable (for_each turns it off),
   i_rest = what self.results still has to deliver in the current pass *)
Record iter := mkIter { i_ds : dsref; i_repeat : bool; i_rest : list R }.

(* start(): re-read the file from the top (seek(0) / re-run the query); shuffled mode loads
   all rows and shuffles them *)
Definition start (d : dsref) (orc : list Z) : result (list R * list Z) :=
  match d_mode d with
  | Linear => Ok (d_data d, orc)
  | Shuffled => shuffle (d_data d) orc
  end.

(* the constructors call start() once *)
Definition new_iter (d : dsref) (orc : list Z) : result (iter * list Z) :=
  do '(res, orc') <- start d orc;
  Ok (mkIter d (d_repeat d) res, orc').

(* PluginResultIterator.next():
     try: return self.next_result()
     except StopIteration:
         if self.repeat: self.restart(); return self.next_result()
         else: raise                                                        *)
Definition iter_next (it : iter) (orc : list Z) : result (R * iter * list Z) :=
  match i_rest it with
  | x :: r => Ok (x, mkIter (i_ds it) (i_repeat it) r, orc)
  | [] =>
    if i_repeat it then
      do '(res, orc') <- start (i_ds it) orc;
      match res with
      | x :: r => Ok (x, mkIter (i_ds it) (i_repeat it) r, orc')
      | [] => Err StopIter          (* second exhaustion in a row propagates *)
      end
    else Err StopIter
  end.

(* _generate_fields: value.next(), StopIteration -> DataGenError *)
Definition field_draw (it : iter) (orc : list Z) : result (R * iter * list Z) :=
  match iter_next it orc with
  | Err StopIter => Err (DGE "Could not generate enough values to create rows")
  | r => r
  end.

(* k successive field draws from one iterator *)
Fixpoint draw_seq (k : nat) (it : iter) (orc : list Z) : result (list R * iter * list Z) :=
  match k with
  | O => Ok ([], it, orc)
  | S k' =>
    do '(x, it1, orc1) <- field_draw it orc;
    do '(l, it2, orc2) <- draw_seq k' it1 orc1;
    Ok (x :: l, it2, orc2)
  end.

(* next() until StopIteration, as zip(iterator, count()) does in generate_rows;
   fuel-bounded because a repeating iterator never stops *)
Fixpoint zip_drain (fuel : nat) (it : iter) (orc : list Z) : result (list R * list Z) :=
  match fuel with
  | O => Err OutOfFuel
  | S f =>
    match iter_next it orc with
    | Err StopIter => Ok ([], orc)
    | Err e => Err e
    | Ok (x, it1, orc1) => do '(l, orc2) <- zip_drain f it1 orc1; Ok (x :: l, orc2)
    end
  end.

(* ------------------------------------------------------------------ recipes *)

Inductive loop :=
| LDefault                       (* no count: one row                                  *)
| LCount (m : nat)               (* count: m                                           *)
| LForEach (d : dsref).          (* for_each: var: v, value: Dataset.iterate/shuffle   *)

(* An ObjectTemplate.  sites  = fields whose value is a Dataset.iterate / Dataset.shuffle
   call (call-site identifier, arguments), in field order;  pass = columns of the for_each
   variable that later fields project (update mode appends its pass-through fields here);
   nested = object templates that are field values;  friends = the friends list. *)
Inductive tmpl :=
| Tmpl (tid : nat) (lp : loop) (sites : list (nat * dsref)) (pass : list nat)
       (nested friends : tmpls)
with tmpls :=
| TNil
| TCons (t : tmpl) (r : tmpls).

(* plugins.evaluate_memorable_function: the key under which a call's state is remembered in
   Interpreter.instance_states is (func.__module__, func.__name__, user_key) with
     user_key = kwargs.get("name") or (unique_context_identifier, args, kwargs.items())
   — a named call shares its state with every call of the same function under the same name,
   wherever it is written; an unnamed call has a state of its own (its call site: the id of the
   StructuredValue; the arguments are the same at every evaluation of a static call site). *)
Inductive key := KSite (sid : nat) | KName (fn : mode) (nm : nat).

Definition mode_eqb (a b : mode) : bool :=
  match a, b with Linear, Linear => true | Shuffled, Shuffled => true | _, _ => false end.

Definition key_eqb (a b : key) : bool :=
  match a, b with
  | KSite x, KSite y => Nat.eqb x y
  | KName f x, KName g y => mode_eqb f g && Nat.eqb x y
  | _, _ => false
  end.

Definition key_of (sid : nat) (d : dsref) : key :=
  match d_name d with
  | Some nm => KName (d_mode d) nm
  | None => KSite sid
  end.

Record row := mkRow {
  r_tid : nat;                       (* which template wrote the row            *)
  r_fe : option R;                   (* value of the for_each variable          *)
  r_index : Z;                       (* child_index                             *)
  r_cons : list (key * R);           (* records consumed, by state key, in field order *)
  r_pass : list C                    (* projected columns                       *)
}.

Record st := mkSt {
  s_sites : list (key * iter);       (* Interpreter.instance_states             *)
  s_orc : list Z;                    (* remaining _randbelow results            *)
  s_out : list row                   (* rows written so far                     *)
}.

(* outcome of a step: the run goes on in state s, or the run has failed with e after having
   written the rows out *)
Inductive res (A : Type) := ROk (a : A) (s : st) | RErr (e : err) (out : list row).
Arguments ROk {A} a s.
Arguments RErr {A} e out.

Fixpoint lookup (k0 : key) (l : list (key * iter)) : option iter :=
  match l with
  | [] => None
  | (k, v) :: r => if key_eqb k k0 then Some v else lookup k0 r
  end.

Fixpoint store (k0 : key) (v : iter) (l : list (key * iter)) : list (key * iter) :=
  match l with
  | [] => [(k0, v)]
  | (k, w) :: r => if key_eqb k k0 then (k, v) :: r else (k, w) :: store k0 v r
  end.

(* evaluate_memorable_function(context, func, self, args, kwargs):
     if context.interpreter.current_context.recalculate_every_time:
         return func(self, *args, **kwargs)             -- whatever the keywords, also `name`
     key = (module, func name, kwargs.get("name") or (call site, args, kwargs))
     return interpreter.get_contextual_state(name=key, make_state_func=lambda: func(...))
   The result says whether the iterator lives in instance_states (then the caller's draws
   advance the remembered state) or is a fresh one that nothing else can see. *)
Definition memo_get (recalc : bool) (sid : nat) (d : dsref) (s : st)
  : result (iter * list Z * option key) :=
  if recalc then
    do '(it, orc1) <- new_iter d (s_orc s); Ok (it, orc1, None)
  else
    let k := key_of sid d in
    match lookup k (s_sites s) with
    | Some it => Ok (it, s_orc s, Some k)
    | None => do '(it, orc1) <- new_iter d (s_orc s); Ok (it, orc1, Some k)
    end.

(* A Dataset.* field of a row: the memorable call, then _generate_fields draws one record.
   Since the repair of ForEachVariableDefinition.evaluate the flag is on only inside a for_each
   expression, so every field of a run started by run_recipe is drawn with recalc = false. *)
Definition site_draw (recalc : bool) (sid : nat) (d : dsref) (s : st) : res R :=
  match memo_get recalc sid d s with
  | Err e => RErr e (s_out s)
  | Ok (it, orc1, ko) =>
    match field_draw it orc1 with
    | Err e => RErr e (s_out s)
    | Ok (x, it', orc2) =>
      ROk x (mkSt (match ko with Some k => store k it' (s_sites s) | None => s_sites s end)
                  orc2 (s_out s))
    end
  end.

Fixpoint draw_sites (recalc : bool) (sites : list (nat * dsref)) (s : st) : res (list (key * R)) :=
  match sites with
  | [] => ROk [] s
  | (sid, d) :: rest =>
    match site_draw recalc sid d s with
    | RErr e o => RErr e o
    | ROk x s1 =>
      match draw_sites recalc rest s1 with
      | RErr e o => RErr e o
      | ROk l s2 => ROk ((key_of sid d, x) :: l) s2
      end
    end
  end.

(* fields ${{var.column}} *)
Fixpoint project (fe : option R) (pass : list nat) : result (list C) :=
  match pass with
  | [] => Ok []
  | c :: rest =>
    match fe with
    | None => Err (DGE "undefined variable")
    | Some x =>
      match col x c with
      | None => Err (DGE "attribute not found")
      | Some v => do l <- project fe rest; Ok (v :: l)
      end
    end
  end.

Definition emit (r : row) (s : st) : st := mkSt (s_sites s) (s_orc s) (s_out s ++ [r]).

(* for i in range(m) *)
Fixpoint count_loop (body : Z -> st -> res unit) (m : nat) (i : Z) (s : st) : res unit :=
  match m with
  | O => ROk tt s
  | S m' =>
    match body i s with
    | ROk _ s1 => count_loop body m' (i + 1) s1
    | e => e
    end
  end.

(* for i, (x, child_index) in enumerate(zip(iterator, count())) where the iterator does not
   repeat: it delivers the rest of its current pass and stops (proofs/DatasetsP.v,
   zip_drain_norepeat, ties this to iter_next) *)
Fixpoint each_loop (body : R -> Z -> st -> res unit) (l : list R) (i : Z) (s : st) : res unit :=
  match l with
  | [] => ROk tt s
  | x :: r =>
    match body x i s with
    | ROk _ s1 => each_loop body r (i + 1) s1
    | e => e
    end
  end.

(* ObjectTemplate.generate_rows in a parent context whose recalculate_every_time is rc *)
Fixpoint gen_rows (t : tmpl) (rc : bool) (s : st) {struct t} : res unit :=
  match t with
  | Tmpl tid lp sites pass nested friends =>
    (* _generate_row: fields (dataset draws, nested objects, projections), write, friends *)
    let one_row (rc' : bool) (fe : option R) (i : Z) (s : st) : res unit :=
      match draw_sites rc' sites s with
      | RErr e o => RErr e o
      | ROk cs s1 =>
        match gen_list nested rc' s1 with
        | RErr e o => RErr e o
        | ROk _ s2 =>
          match project fe pass with
          | Err e => RErr e (s_out s2)
          | Ok p => gen_list friends rc' (emit (mkRow tid fe i cs p) s2)
          end
        end
      end in
    match lp with
    | LDefault => count_loop (one_row rc None) 1 0 s
    | LCount m => count_loop (one_row rc None) m 0 s
    | LForEach d =>
      (* ForEachVariableDefinition.evaluate: recalculate_every_time is True only while the
         for_each expression is rendered — the memorable call bypasses instance_states, also
         when the call has a `name` (a fresh iterator at every evaluation, the remembered state
         of that name is neither used nor touched) — and is then restored, so the rows are
         generated under the inherited flag; ret.repeat = False.  (The call-site id is not
         looked at under the flag.) *)
      match memo_get true 0%nat d s with
      | Err e => RErr e (s_out s)
      | Ok (it, orc1, _) =>
        each_loop (fun x => one_row rc (Some x)) (i_rest it) 0
                  (mkSt (s_sites s) orc1 (s_out s))
      end
    end
  end
with gen_list (ts : tmpls) (rc : bool) (s : st) {struct ts} : res unit :=
  match ts with
  | TNil => ROk tt s
  | TCons t r =>
    match gen_rows t rc s with
    | ROk _ s1 => gen_list r rc s1
    | e => e
    end
  end.

(* loop_over_templates_until_finished with a stopping criterion met after `iters` passes;
   the root context has recalculate_every_time = False *)
Fixpoint iterations (iters : nat) (ts : tmpls) (s : st) : res unit :=
  match iters with
  | O => ROk tt s
  | S k =>
    match gen_list ts false s with
    | ROk _ s1 => iterations k ts s1
    | e => e
    end
  end.

Definition run_recipe (iters : nat) (ts : tmpls) (orc : list Z) : list row * option err :=
  match iterations iters ts (mkSt [] orc []) with
  | ROk _ s => (s_out s, None)
  | RErr e out => (out, Some e)
  end.

(* build_update_recipe: exactly one statement, an object template without count; it gets
   for_each: input <- CSVDatasetLinearIterator(update_input_file, repeat=False) and one extra
   field ${{input.<name>}} per pass-through field (after the template's own fields).
   The iterator object is created once, at parse time; update recipes run one iteration. *)
Definition build_update (ts : tmpls) (input : list R) (passthrough : list nat) : result tmpls :=
  match ts with
  | TCons (Tmpl tid lp sites pass nested friends) TNil =>
    match lp with
    | LCount _ => Err (DGE "Update templates should have no 'count'")
    | _ => Ok (TCons (Tmpl tid (LForEach (mkDs input Linear false None)) sites
                           (pass ++ passthrough) nested friends) TNil)
    end
  | _ => Err (DGE "Update recipes should have a single object declaration.")
  end.

Definition run_update (ts : tmpls) (input : list R) (passthrough : list nat) (orc : list Z)
  : list row * option err :=
  match build_update ts input passthrough with
  | Err e => ([], Some e)
  | Ok ts' => run_recipe 1 ts' orc
  end.

End Model.

Arguments mkDs {R} _ _ _ _.
Arguments Tmpl {R} _ _ _ _ _ _.
Arguments TNil {R}.
Arguments TCons {R} _ _.
Arguments LDefault {R}.
Arguments LCount {R} _.
Arguments LForEach {R} _.
Arguments mkRow {R C} _ _ _ _ _.
Arguments r_tid {R C} _.

(* ------------------------------------------------------------------ macros *)

(* parse_recipe_yaml.include_macro / parse_inclusions: `include: m` parses the YAML of macro m
   AGAIN at every inclusion, so every inclusion gets StructuredValue / ObjectTemplate objects of
   its own (the call-site identifier of an unnamed Dataset call is the id() of its
   StructuredValue); the fields and friends of the macro go in front of the template's own.
   A macro body is written once, its call sites and templates numbered locally; the objects
   parsed for the inclusion with offset k carry the numbers k + local. *)
Section Macros.
Variable R : Type.

Definition shift_sites (k : nat) (l : list (nat * dsref R)) : list (nat * dsref R) :=
  map (fun sd => ((k + fst sd)%nat, snd sd)) l.

Fixpoint shift_tmpl (k : nat) (t : tmpl R) : tmpl R :=
  match t with
  | Tmpl tid lp sites pass nested friends =>
    Tmpl (k + tid) lp (shift_sites k sites) pass (shift_tmpls k nested) (shift_tmpls k friends)
  end
with shift_tmpls (k : nat) (ts : tmpls R) : tmpls R :=
  match ts with
  | TNil => TNil
  | TCons t r => TCons (shift_tmpl k t) (shift_tmpls k r)
  end.

Fixpoint tapp (a b : tmpls R) : tmpls R :=
  match a with TNil => b | TCons t r => TCons t (tapp r b) end.

Record macro := mkMacro { m_sites : list (nat * dsref R); m_nested : tmpls R; m_friends : tmpls R }.

(* template t says `include: m`; this inclusion's objects are numbered from k *)
Definition include_macro (k : nat) (m : macro) (t : tmpl R) : tmpl R :=
  match t with
  | Tmpl tid lp sites pass nested friends =>
    Tmpl tid lp (shift_sites k (m_sites m) ++ sites) pass
         (tapp (shift_tmpls k (m_nested m)) nested) (tapp (shift_tmpls k (m_friends m)) friends)
  end.

(* the call sites written in a template tree *)
Fixpoint tmpl_sids (t : tmpl R) : list nat :=
  match t with
  | Tmpl _ _ sites _ nested friends => map fst sites ++ tmpls_sids nested ++ tmpls_sids friends
  end
with tmpls_sids (ts : tmpls R) : list nat :=
  match ts with
  | TNil => []
  | TCons t r => tmpl_sids t ++ tmpls_sids r
  end.

Definition macro_sids (m : macro) : list nat :=
  map fst (m_sites m) ++ tmpls_sids (m_nested m) ++ tmpls_sids (m_friends m).
End Macros.
Arguments mkMacro {R} _ _ _.

(* ------------------------------------------------------------------ arguments rendered per row *)

(* The arguments of a Dataset.* field are rendered before the call, so ONE call site can name
   another dataset on every row (`dataset: words_${{lang}}.csv`, `table: ${{...}}`).
   evaluate_memorable_function keeps the state of an unnamed call under
       (call site, tuple(args), tuple(kwargs.items()))
   i.e. per call site AND rendered arguments.  [acall]: one evaluation of such a field — the call
   site, the identity of the rendered argument tuple, the dataset those arguments name;
   [args_run]: the evaluations of a run in the order they happen (any number of call sites and
   argument tuples, interleaved in any way), each followed by the row's draw. *)
Section ArgsMemo.
Variable R : Type.

Definition akey := (nat * nat)%type.          (* call site, rendered arguments *)
Definition akey_eqb (a b : akey) : bool := Nat.eqb (fst a) (fst b) && Nat.eqb (snd a) (snd b).

Record acall := mkCall { c_site : nat; c_args : nat; c_ds : dsref R }.
Definition c_key (c : acall) : akey := (c_site c, c_args c).

Fixpoint alookup (k0 : akey) (l : list (akey * iter R)) : option (iter R) :=
  match l with
  | [] => None
  | (k, v) :: r => if akey_eqb k k0 then Some v else alookup k0 r
  end.

Fixpoint astore (k0 : akey) (v : iter R) (l : list (akey * iter R)) : list (akey * iter R) :=
  match l with
  | [] => [(k0, v)]
  | (k, w) :: r => if akey_eqb k k0 then (k, v) :: r else (k, w) :: astore k0 v r
  end.

(* records handed out, and the error that ended the run (the failing row is not written) *)
Fixpoint args_run (calls : list acall) (tbl : list (akey * iter R)) (orc : list Z)
  : list R * option err :=
  match calls with
  | [] => ([], None)
  | c :: rest =>
    match (match alookup (c_key c) tbl with
           | Some it => Ok (it, orc)
           | None => new_iter R (c_ds c) orc            (* make_state_func *)
           end) with
    | Err e => ([], Some e)
    | Ok (it, orc1) =>
      match field_draw R it orc1 with
      | Err e => ([], Some e)
      | Ok (x, it', orc2) =>
        let '(xs, e) := args_run rest (astore (c_key c) it' tbl) orc2 in (x :: xs, e)
      end
    end
  end.

(* how many of the evaluations in l were made under key k *)
Definition prior (k : akey) (l : list acall) : nat :=
  length (filter (fun c => akey_eqb (c_key c) k) l).

End ArgsMemo.
Arguments mkCall {R} _ _ _.

(* ------------------------------------------------------------------ correspondence cases *)

(* a cell is the text of a CSV field / SQL value as code points, None where the record has
   no value for the column (short CSV line, SQL NULL) *)
Definition cell := option (list Z).
Definition rec := list cell.

(* Jinja renders a missing value as the text None *)
Definition render_cell (c : cell) : list Z :=
  match c with Some s => s | None => [78; 111; 110; 101] end.
Definition rec_col (r : rec) (i : nat) : option (list Z) := option_map render_cell (nth_error r i).

Definition cell_eqb : cell -> cell -> bool := option_eqb (list_eqb Z.eqb).
Definition rec_eqb : rec -> rec -> bool := list_eqb cell_eqb.

(* ------------------------------------------------------------------ records: columns by name *)

(* What a consuming row holds is a DatasetPluginResult: PluginResult.__init__ puts the mapping it is
   given (csv.DictReader's dict(zip(header, row)) / dict(row._mapping) of a SQL row) into a
   snowfakery/utils/collections.py CaseInsensitiveDict, and ${{row.Column}} is
   PluginResult.__getattr__ = CaseInsensitiveDict.__getitem__.  The dictionary keeps
   _store[fold(key)] = (key, value) with fold = str.lower; a Python dict keeps insertion order
   and assigning to a key that is present keeps its place.  Column names are texts (code points);
   `fold` is a parameter of the model: the theorems hold for every folding function, the
   correspondence check is given the names folded by Python's str.lower. *)
Definition name := list Z.
Definition name_eqb : name -> name -> bool := list_eqb Z.eqb.

Section CiRecord.
  Variable V : Type.

  Definition cidict := list (name * (name * V)).     (* folded key -> (key as written, value) *)

  (* CaseInsensitiveDict.__setitem__ *)
  Fixpoint cid_set (d : cidict) (fk k : name) (v : V) : cidict :=
    match d with
    | [] => [(fk, (k, v))]
    | (fk', kv) :: r =>
      if name_eqb fk' fk then (fk', (k, v)) :: r else (fk', kv) :: cid_set r fk k v
    end.

  (* CaseInsensitiveDict.__getitem__ (None: KeyError) *)
  Fixpoint cid_get (d : cidict) (fk : name) : option V :=
    match d with
    | [] => None
    | (fk', (_, v)) :: r => if name_eqb fk' fk then Some v else cid_get r fk
    end.

  (* CaseInsensitiveDict.items(): the keys as written with their values, in store order *)
  Definition cid_items (d : cidict) : list (name * V) := map snd d.

  (* MutableMapping.update: one __setitem__ per pair, in order; the pairs come with their folded key *)
  Fixpoint cid_build (d : cidict) (l : list (name * (name * V))) : cidict :=
    match l with
    | [] => d
    | (fk, (k, v)) :: r => cid_build (cid_set d fk k v) r
    end.

  Variable fold : name -> name.

  Definition with_fold (l : list (name * V)) : list (name * (name * V)) :=
    map (fun kv => (fold (fst kv), kv)) l.

  (* the record made from the columns (name, value) of one dataset row, in header order *)
  Definition record_of (l : list (name * V)) : cidict := cid_build [] (with_fold l).

  (* ${{row.k}} *)
  Definition record_get (d : cidict) (k : name) : option V := cid_get d (fold k).
End CiRecord.
Arguments cid_set {V} _ _ _ _.
Arguments cid_get {V} _ _.
Arguments cid_items {V} _.
Arguments cid_build {V} _ _.
Arguments with_fold {V} _ _.
Arguments record_of {V} _ _.
Arguments record_get {V} _ _ _.

(* ------------------------------------------------------------------ the CSV record reader *)

(* What CSVDatasetLinearIterator / CSVDatasetRandomPermutationIterator read: the file is opened with
   open(path, 'r', newline='', encoding='utf-8-sig') and handed to csv.DictReader (default dialect
   excel: delimiter comma, quotechar double quote, doublequote, no escapechar, no skipinitialspace, not
   strict).  Transcribed: Modules/_csv.c parse_process_char / Reader_iternext (CPython 3.12),
   Lib/csv.py DictReader.__next__ / fieldnames, and the line iteration of a text file in
   universal-newlines mode without translation.  A text is a list of code points (the UTF-8
   decoding itself is not modelled). *)
Definition LF : Z := 10.
Definition CR : Z := 13.
Definition COMMA : Z := 44.
Definition QUOTE : Z := 34.
Definition BOMC : Z := 65279.             (* U+FEFF *)
Definition FIELD_LIMIT : Z := 131072.     (* csv.field_size_limit() *)

(* encoding utf-8-sig: one leading U+FEFF is not part of the text (also after seek(0)) *)
Definition strip_bom (t : list Z) : list Z :=
  match t with
  | c :: r => if c =? BOMC then r else t
  | [] => []
  end.

(* The reader is fed the lines of the file (newline='': a line ends after LF, after CR LF, or
   after a CR that is not followed by LF; the terminator stays in the line; a last line without
   terminator is a line) and, after the characters of each line, the pseudo-character EOL.
   [eolize pcr mid t] is that stream of symbols (Some c = character, None = EOL) for the rest t of
   the text; pcr: the previous character was CR (its line ends here unless LF follows);
   mid: the current line has characters already. *)
Fixpoint eolize (pcr mid : bool) (t : list Z) : list (option Z) :=
  match t with
  | [] => if pcr || mid then [None] else []
  | c :: r =>
    (if pcr && negb (c =? LF) then [None] else []) ++
    (if c =? LF then Some c :: None :: eolize false false r
     else if c =? CR then Some c :: eolize true false r
     else Some c :: eolize false true r)
  end.

Inductive cstate := StartRecord | StartField | InField | InQuoted | QuoteInQuoted | EatCRNL.

(* ReaderObj: state, the fields of the record so far (latest first), the characters of the field
   so far (latest first) *)
Record rd := mkRd { rd_state : cstate; rd_fields : list (list Z); rd_field : list Z }.

Definition is_nl (c : Z) : bool := (c =? LF) || (c =? CR).

(* parse_add_char *)
Definition add_char (s : rd) (c : Z) (st' : cstate) : result rd :=
  if Z.of_nat (length (rd_field s)) <? FIELD_LIMIT
  then Ok (mkRd st' (rd_fields s) (c :: rd_field s))
  else Err (Internal "_csv.Error: field larger than field limit").

(* parse_save_field *)
Definition save_field (s : rd) (st' : cstate) : rd :=
  mkRd st' (rev (rd_field s) :: rd_fields s) [].

Definition set_state (s : rd) (st' : cstate) : rd := mkRd st' (rd_fields s) (rd_field s).

(* case START_FIELD (also reached by falling through from START_RECORD) *)
Definition start_field (s : rd) (c : option Z) : result rd :=
  match c with
  | None => Ok (save_field s StartRecord)
  | Some ch =>
    if is_nl ch then Ok (save_field s EatCRNL)
    else if ch =? QUOTE then Ok (set_state s InQuoted)
    else if ch =? COMMA then Ok (save_field s StartField)
    else add_char s ch InField
  end.

(* parse_process_char for the excel dialect *)
Definition csv_step (s : rd) (c : option Z) : result rd :=
  match rd_state s with
  | StartRecord =>
    match c with
    | None => Ok s                                     (* empty line: return [] *)
    | Some ch => if is_nl ch then Ok (set_state s EatCRNL) else start_field s c
    end
  | StartField => start_field s c
  | InField =>
    match c with
    | None => Ok (save_field s StartRecord)
    | Some ch =>
      if is_nl ch then Ok (save_field s EatCRNL)
      else if ch =? COMMA then Ok (save_field s StartField)
      else add_char s ch InField
    end
  | InQuoted =>
    match c with
    | None => Ok s
    | Some ch => if ch =? QUOTE then Ok (set_state s QuoteInQuoted) else add_char s ch InQuoted
    end
  | QuoteInQuoted =>
    match c with
    | None => Ok (save_field s StartRecord)
    | Some ch =>
      if ch =? QUOTE then add_char s ch InQuoted       (* a doubled quote inside quotes is one quote *)
      else if ch =? COMMA then Ok (save_field s StartField)
      else if is_nl ch then Ok (save_field s EatCRNL)
      else add_char s ch InField                       (* not strict: text after the closing quote *)
    end
  | EatCRNL =>
    match c with
    | None => Ok (set_state s StartRecord)
    | Some ch => if is_nl ch then Ok s
                 else Err (Internal "_csv.Error: new-line character seen in unquoted field")
    end
  end.

Definition rd0 : rd := mkRd StartRecord [] [].

(* Reader_iternext, for all records of the input: a record is complete when the state is
   START_RECORD after the EOL of a line; at the end of the input a record that is under way inside
   a quoted field is returned as it is (not strict). acc = the records so far, latest first. *)
Fixpoint csv_run (s : rd) (acc : list (list (list Z))) (syms : list (option Z))
  : result (list (list (list Z))) :=
  match syms with
  | [] =>
    match rd_field s, rd_state s with
    | [], StartRecord => Ok (rev acc)
    | [], InQuoted => Ok (rev (rev (rev (rd_field s) :: rd_fields s) :: acc))
    | [], _ => Ok (rev acc)
    | _ :: _, _ => Ok (rev (rev (rev (rd_field s) :: rd_fields s) :: acc))
    end
  | c :: r =>
    do s' <- csv_step s c;
    match c, rd_state s' with
    | None, StartRecord => csv_run rd0 (rev (rd_fields s') :: acc) r
    | _, _ => csv_run s' acc r
    end
  end.

(* list(csv.reader(f)) for the text of a file *)
Definition csv_rows (text : list Z) : result (list (list (list Z))) :=
  csv_run rd0 [] (eolize false false (strip_bom text)).

(* DictReader: the first row (blank or not) is the header; blank rows after it are skipped; a row
   shorter than the header is filled with None (restval), a longer one gets the key None
   (restkey), which Snowfakery's plugin_result turns into a DataGenError when the row is reached.
   Records are the cells in header order (header names are taken to be distinct). *)
Definition is_blank (r : list (list Z)) : bool := match r with [] => true | _ => false end.

Definition dict_record (nh : nat) (r : list (list Z)) : result (list (option (list Z))) :=
  if Nat.ltb nh (length r) then Err (DGE "Your CSV row has more columns than the CSV header")
  else Ok (map Some r ++ repeat None (nh - length r)).

Fixpoint all_ok {A} (l : list (result A)) : result (list A) :=
  match l with
  | [] => Ok []
  | Ok x :: r => do xs <- all_ok r; Ok (x :: xs)
  | Err e :: _ => Err e
  end.

Definition dict_reader (rows : list (list (list Z)))
  : option (list (list Z)) * list (result (list (option (list Z)))) :=
  match rows with
  | [] => (None, [])
  | h :: rest => (Some h, map (dict_record (length h)) (filter (fun r => negb (is_blank r)) rest))
  end.

(* header and records of a file none of whose rows is longer than the header *)
Definition csv_records (text : list Z) : result (option (list (list Z)) * list rec) :=
  do rows <- csv_rows text;
  let '(h, rs) := dict_reader rows in
  do recs <- all_ok rs; Ok (h, recs).

(* the writer the generated files come from (harness render_csv; any RFC-4180 style writer): a
   cell is written bare or between quotes with inner quotes doubled, cells are joined by commas,
   a row ends with LF or CR LF; a last row may come without terminator *)
Record wcell := mkCell { w_text : list Z; w_quoted : bool }.
Record wrow := mkWRow { w_cells : list wcell; w_crlf : bool }.

Fixpoint escape_quotes (f : list Z) : list Z :=
  match f with
  | [] => []
  | c :: r => if c =? QUOTE then QUOTE :: QUOTE :: escape_quotes r else c :: escape_quotes r
  end.

Definition write_cell (c : wcell) : list Z :=
  if w_quoted c then QUOTE :: escape_quotes (w_text c) ++ [QUOTE] else w_text c.

Fixpoint write_cells (cs : list wcell) : list Z :=
  match cs with
  | [] => []
  | [c] => write_cell c
  | c :: r => write_cell c ++ COMMA :: write_cells r
  end.

Definition write_eol (crlf : bool) : list Z := if crlf then [CR; LF] else [LF].

Fixpoint write_rows (rows : list wrow) : list Z :=
  match rows with
  | [] => []
  | r :: rest => write_cells (w_cells r) ++ write_eol (w_crlf r) ++ write_rows rest
  end.

(* rows, then possibly a last row without terminator; bom: the file starts with a byte order mark *)
Definition write_file (bom : bool) (rows : list wrow) (last : option (list wcell)) : list Z :=
  (if bom then [BOMC] else []) ++ write_rows rows ++
  match last with Some cs => write_cells cs | None => [] end.

(* when a cell may be written bare: no comma, quote, CR, LF in it, and it is not the empty only
   cell of its row (that would be a blank line) *)
Definition plain_char (c : Z) : bool :=
  negb ((c =? COMMA) || (c =? QUOTE) || (c =? CR) || (c =? LF)).

Definition is_blank_text (t : list Z) : bool := match t with [] => true | _ => false end.

Definition cell_ok (alone : bool) (c : wcell) : bool :=
  (Z.of_nat (length (w_text c)) <=? FIELD_LIMIT) &&
  (w_quoted c || (forallb plain_char (w_text c) && negb (alone && is_blank_text (w_text c)))).


(* the cells of a row: a single cell counts as alone *)
Definition cells_ok (cs : list wcell) : bool :=
  match cs with
  | [c] => cell_ok true c
  | _ => forallb (cell_ok false) cs
  end.

Definition row_ok (r : wrow) : bool := cells_ok (w_cells r).

Definition row_texts (cs : list wcell) : list (list Z) := map w_text cs.

(* without a byte order mark the text itself must not start with U+FEFF (utf-8-sig would take it
   for one) *)
Definition bom_ok (bom : bool) (body : list Z) : bool :=
  bom || match body with c :: _ => negb (c =? BOMC) | [] => true end.

Definition row_eqb (a b : row rec (list Z)) : bool :=
  Nat.eqb (r_tid a) (r_tid b) &&
  option_eqb rec_eqb (r_fe _ _ a) (r_fe _ _ b) &&
  (r_index _ _ a =? r_index _ _ b) &&
  list_eqb (fun p q => key_eqb (fst p) (fst q) && rec_eqb (snd p) (snd q)) (r_cons _ _ a) (r_cons _ _ b) &&
  list_eqb (list_eqb Z.eqb) (r_pass _ _ a) (r_pass _ _ b).

(* The comparison is per template: the order of rows of one template is what C17 speaks
   about; how rows of different templates interleave is not. *)
Definition by_template (tids : list nat) (rows : list (row rec (list Z))) : list (row rec (list Z)) :=
  concat (map (fun t => filter (fun r => Nat.eqb (r_tid r) t) rows) tids).

Definition outcome_eqb (tids : list nat) (a b : list (row rec (list Z)) * option err) : bool :=
  list_eqb row_eqb (by_template tids (fst a)) (by_template tids (fst b)) &&
  option_eqb err_eqb (snd a) (snd b).

(* a CSV file of a case: its text (code points, with the byte order mark if the file has one),
   what csv.reader returns for it, and — when no row is longer than the header — the header and the
   records the dataset iterators deliver *)
Record csvfile := mkFile {
  f_text : list Z;
  f_rows : list (list (list Z));
  f_recs : option (option (list (list Z)) * list rec)
}.

Definition rows_eqb : list (list (list Z)) -> list (list (list Z)) -> bool :=
  list_eqb (list_eqb (list_eqb Z.eqb)).

Definition file_ok (f : csvfile) : bool :=
  result_eqb rows_eqb (csv_rows (f_text f)) (Ok (f_rows f)) &&
  match f_recs f with
  | None => true
  | Some (h, rs) =>
    result_eqb (fun a b => option_eqb (list_eqb (list_eqb Z.eqb)) (fst a) (fst b) &&
                           list_eqb rec_eqb (snd a) (snd b))
               (csv_records (f_text f)) (Ok (h, rs))
  end.

(* the records a linear CSV iterator delivers before it stops or fails on a row that is longer
   than the header *)
Fixpoint delivered (l : list (result rec)) : list rec * bool :=
  match l with
  | [] => ([], false)
  | Ok r :: rest => let '(rs, failed) := delivered rest in (r :: rs, failed)
  | Err _ :: _ => ([], true)
  end.

Inductive case :=
| CRun (files : list csvfile) (iters : nat) (ts : tmpls rec) (orc : list Z) (tids : list nat)
       (exp_rows : list (row rec (list Z))) (exp_err : option err)
| CUpdate (files : list csvfile) (ts : tmpls rec) (input : list rec) (passthrough : list nat) (orc : list Z)
          (tids : list nat) (exp_rows : list (row rec (list Z))) (exp_err : option err)
(* an arbitrary text read by csv.reader (exp_rows) and, if the header names are distinct, drained
   through CSVDatasetLinearIterator (records delivered, whether it ended in a DataGenError) *)
| CCsv (text : list Z) (exp_rows : list (list (list Z))) (exp_recs : option (list rec * bool))
(* the unnamed Dataset.iterate field evaluations of a run in the order they happen: (call site,
   which of the datasets in tbl the rendered arguments name, repeat); the records of the rows that
   were written (a prefix of the evaluations) and how the run ended *)
| CArgs (tbl : list (list rec)) (calls : list (nat * nat * bool)) (exp : list rec) (exp_err : option err)
(* the records of a CSV file as the consuming rows see them: header (name folded by str.lower, name as
   written), the records (cells in header order), names to look up (folded); per record the items the
   implementation's record shows and what looking up every probe gives (None: no such column) *)
| CRec (header : list (name * name)) (recs : list rec) (probes : list name)
       (exp : list (list (name * cell) * list (option cell))).

Definition rec_view (header : list (name * name)) (probes : list name) (r : rec)
  : list (name * cell) * list (option cell) :=
  let d := cid_build [] (map (fun hc => (fst (fst hc), (snd (fst hc), snd hc))) (combine header r)) in
  (cid_items d, map (cid_get d) probes).

Definition view_eqb (a b : list (name * cell) * list (option cell)) : bool :=
  list_eqb (fun x y => name_eqb (fst x) (fst y) && cell_eqb (snd x) (snd y)) (fst a) (fst b) &&
  list_eqb (option_eqb cell_eqb) (snd a) (snd b).

Fixpoint calls_of (tbl : list (list rec)) (l : list (nat * nat * bool)) : option (list (acall rec)) :=
  match l with
  | [] => Some []
  | (sid, a, rp) :: r =>
    match nth_error tbl a, calls_of tbl r with
    | Some data, Some cs => Some (mkCall sid a (mkDs data Linear rp None) :: cs)
    | _, _ => None
    end
  end.

Definition check_case (c : case) : bool :=
  match c with
  | CRun files iters ts orc tids rows e =>
    forallb file_ok files &&
    outcome_eqb tids (run_recipe rec (list Z) rec_col iters ts orc) (rows, e)
  | CUpdate files ts input pt orc tids rows e =>
    forallb file_ok files &&
    outcome_eqb tids (run_update rec (list Z) rec_col ts input pt orc) (rows, e)
  | CCsv text rows recs =>
    result_eqb rows_eqb (csv_rows text) (Ok rows) &&
    match recs with
    | None => true
    | Some (rs, failed) =>
      let '(rs', failed') := delivered (snd (dict_reader rows)) in
      list_eqb rec_eqb rs' rs && Bool.eqb failed' failed
    end
  | CArgs tbl calls exp e =>
    match calls_of tbl calls with
    | None => false
    | Some cs =>
      let '(xs, e') := args_run rec cs [] [] in
      Nat.leb (length exp) (length xs) && list_eqb rec_eqb (firstn (length exp) xs) exp &&
      match e', e with
      | Some _, None => false                        (* the model runs dry, the run went on *)
      | None, None => Nat.eqb (length exp) (length xs)
      | _, Some _ => true                            (* some other part of the recipe may have failed *)
      end
    end
  | CRec header recs probes exp =>
    forallb (fun r => Nat.eqb (length r) (length header)) recs &&
    list_eqb view_eqb (map (rec_view header probes) recs) exp
  end.
