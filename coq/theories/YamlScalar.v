(* YamlScalar.v — how PyYAML decides the TYPE of a scalar when a continuation file is written and
   read back (property C05: "strings that look like numbers or YAML keywords stay strings; ints of
   any size, floats, booleans, null, dates, datetimes and decimals keep their type").

   Transcribes (PyYAML 6.0.x, pure-Python SafeDumper / SafeLoader as used by
   snowfakery/utils/yaml_utils.py SnowfakeryDumper and yaml.safe_load):
     yaml/resolver.py     BaseResolver.resolve (scalar branch) and the eight implicit resolvers
                          (first-character table + regular expressions, in registration order),
     yaml/serializer.py   Serializer.serialize_node, scalar branch: implicit = (tag == resolve(value),
                          tag == default tag),
     yaml/emitter.py      Emitter.choose_scalar_style (event.style = None, not canonical) and
                          Emitter.process_tag, scalar branch,
     yaml/parser.py       parse_node, scalar branch: implicit of the ScalarEvent,
     yaml/composer.py     compose_scalar_node: tag = explicit tag or resolve(value, implicit),
     yaml/representer.py  represent_str / int / bool / none (text and tag of the node),
     yaml/constructor.py  construct_yaml_str / int (decimal texts) / bool / null.
   Regular expressions are a datatype with a Brzozowski-derivative matcher; the eight patterns are
   written out literally.  Strings are UTF-8 byte strings: every character class of the patterns is
   ASCII, so a byte >= 0x80 matches none of them, exactly like the code point it belongs to. *)
From SFV Require Import Base.
From Coq Require Import DecimalString DecimalZ.
Open Scope string_scope.

(* ---------------------------------------------------------------- tags *)
Inductive ytag :=
| TgStr | TgInt | TgFloat | TgBool | TgNull | TgTimestamp | TgMerge | TgValue | TgYaml
| TgOther (name : string).          (* application tags, e.g. !snowfakery_decimal *)

Definition ytag_eqb (a b : ytag) : bool :=
  match a, b with
  | TgStr, TgStr | TgInt, TgInt | TgFloat, TgFloat | TgBool, TgBool | TgNull, TgNull
  | TgTimestamp, TgTimestamp | TgMerge, TgMerge | TgValue, TgValue | TgYaml, TgYaml => true
  | TgOther x, TgOther y => String.eqb x y
  | _, _ => false
  end.

(* ---------------------------------------------------------------- regular expressions *)
Inductive re :=
| Emp                       (* matches nothing *)
| Eps                       (* matches the empty string *)
| Chr (p : ascii -> bool)   (* one character of a class *)
| Cat (a b : re)
| Alt (a b : re)
| Star (a : re).

Fixpoint nullable (r : re) : bool :=
  match r with
  | Emp => false
  | Eps => true
  | Chr _ => false
  | Cat a b => nullable a && nullable b
  | Alt a b => nullable a || nullable b
  | Star _ => true
  end.

Definition cat (a b : re) : re :=
  match a, b with
  | Emp, _ => Emp
  | _, Emp => Emp
  | Eps, _ => b
  | _, _ => Cat a b
  end.

Definition alt (a b : re) : re :=
  match a, b with
  | Emp, _ => b
  | _, Emp => a
  | _, _ => Alt a b
  end.

Fixpoint deriv (c : ascii) (r : re) : re :=
  match r with
  | Emp => Emp
  | Eps => Emp
  | Chr p => if p c then Eps else Emp
  | Cat a b => if nullable a then alt (cat (deriv c a) b) (deriv c b) else cat (deriv c a) b
  | Alt a b => alt (deriv c a) (deriv c b)
  | Star a => cat (deriv c a) (Star a)
  end.

Fixpoint re_match (r : re) (s : string) : bool :=
  match s with
  | EmptyString => nullable r
  | String c s' => re_match (deriv c r) s'
  end.

(* the usual meaning of a regular expression (the matcher is proved to decide it) *)
Inductive lang : re -> string -> Prop :=
| LEps : lang Eps ""
| LChr p c : p c = true -> lang (Chr p) (String c "")
| LCat a b s1 s2 : lang a s1 -> lang b s2 -> lang (Cat a b) (s1 ++ s2)
| LAltL a b s : lang a s -> lang (Alt a b) s
| LAltR a b s : lang b s -> lang (Alt a b) s
| LStar0 a : lang (Star a) ""
| LStarS a s1 s2 : lang a s1 -> lang (Star a) s2 -> lang (Star a) (s1 ++ s2).

(* character classes *)
Definition code (c : ascii) : nat := nat_of_ascii c.
Definition is_char (x : ascii) : ascii -> bool := fun c => Ascii.eqb c x.
Definition in_range (lo hi : ascii) : ascii -> bool :=
  fun c => (Nat.leb (code lo) (code c) && Nat.leb (code c) (code hi))%bool.
Definition one_of (s : string) : ascii -> bool :=
  fun c => existsb (Ascii.eqb c) (list_ascii_of_string s).
Definition either (p q : ascii -> bool) : ascii -> bool := fun c => (p c || q c)%bool.

Definition digit := in_range "0" "9".
Definition digit_us := either digit (is_char "_").
Definition sign := one_of "-+".

(* combinators *)
Definition ch (x : ascii) : re := Chr (is_char x).
Fixpoint lit (s : string) : re :=
  match s with
  | EmptyString => Eps
  | String c s' => Cat (ch c) (lit s')
  end.
Definition opt (r : re) : re := Alt r Eps.
Definition plus (r : re) : re := Cat r (Star r).
Fixpoint alts (l : list re) : re :=
  match l with
  | [] => Emp
  | [r] => r
  | r :: l' => Alt r (alts l')
  end.
Fixpoint cats (l : list re) : re :=
  match l with
  | [] => Eps
  | [r] => r
  | r :: l' => Cat r (cats l')
  end.
Definition words (l : list string) : re := alts (map lit l).

(* yes|Yes|YES|no|No|NO|true|True|TRUE|false|False|FALSE|on|On|ON|off|Off|OFF *)
Definition re_bool : re :=
  words ["yes"; "Yes"; "YES"; "no"; "No"; "NO"; "true"; "True"; "TRUE"; "false"; "False"; "FALSE";
         "on"; "On"; "ON"; "off"; "Off"; "OFF"].

(* (?:[eE][-+][0-9]+)? *)
Definition re_exp : re := opt (cats [Chr (one_of "eE"); Chr sign; plus (Chr digit)]).
(* (?::[0-5]?[0-9])+ *)
Definition re_sexa : re := plus (cats [ch ":"; opt (Chr (in_range "0" "5")); Chr digit]).

(*  [-+]?(?:[0-9][0-9_]* )\.[0-9_]*(?:[eE][-+][0-9]+)?
   |\.[0-9][0-9_]*(?:[eE][-+][0-9]+)?
   |[-+]?[0-9][0-9_]*(?::[0-5]?[0-9])+\.[0-9_]*
   |[-+]?\.(?:inf|Inf|INF)
   |\.(?:nan|NaN|NAN)                                                          *)
Definition re_float : re :=
  alts [cats [opt (Chr sign); Chr digit; Star (Chr digit_us); ch "."; Star (Chr digit_us); re_exp];
        cats [ch "."; Chr digit; Star (Chr digit_us); re_exp];
        cats [opt (Chr sign); Chr digit; Star (Chr digit_us); re_sexa; ch "."; Star (Chr digit_us)];
        cats [opt (Chr sign); ch "."; words ["inf"; "Inf"; "INF"]];
        cats [ch "."; words ["nan"; "NaN"; "NAN"]]].

(*  [-+]?0b[0-1_]+
   |[-+]?0[0-7_]+
   |[-+]?(?:0|[1-9][0-9_]* )
   |[-+]?0x[0-9a-fA-F_]+
   |[-+]?[1-9][0-9_]*(?::[0-5]?[0-9])+                                         *)
Definition re_int : re :=
  alts [cats [opt (Chr sign); lit "0b"; plus (Chr (one_of "01_"))];
        cats [opt (Chr sign); ch "0"; plus (Chr (either (in_range "0" "7") (is_char "_")))];
        cats [opt (Chr sign); Alt (ch "0") (Cat (Chr (in_range "1" "9")) (Star (Chr digit_us)))];
        cats [opt (Chr sign); lit "0x";
              plus (Chr (either digit (either (in_range "a" "f") (either (in_range "A" "F") (is_char "_")))))];
        cats [opt (Chr sign); Chr (in_range "1" "9"); Star (Chr digit_us); re_sexa]].

Definition re_merge : re := lit "<<".
(* ~ | null|Null|NULL | (empty) *)
Definition re_null : re := alts [ch "~"; words ["null"; "Null"; "NULL"]; Eps].

Definition blank := one_of (String " " (String (ascii_of_nat 9) EmptyString)).   (* [ \t] *)
(*  [0-9][0-9][0-9][0-9]-[0-9][0-9]-[0-9][0-9]
   |[0-9][0-9][0-9][0-9]-[0-9][0-9]?-[0-9][0-9]?(?:[Tt]|[ \t]+)[0-9][0-9]?:[0-9][0-9]:[0-9][0-9]
    (?:\.[0-9]* )?(?:[ \t]*(?:Z|[-+][0-9][0-9]?(?::[0-9][0-9])?))?                              *)
Definition re_timestamp : re :=
  let d := Chr digit in
  alts [cats [d; d; d; d; ch "-"; d; d; ch "-"; d; d];
        cats [d; d; d; d; ch "-"; d; opt d; ch "-"; d; opt d;
              Alt (Chr (one_of "Tt")) (plus (Chr blank)); d; opt d; ch ":"; d; d; ch ":"; d; d;
              opt (Cat (ch ".") (Star d));
              opt (Cat (Star (Chr blank))
                       (Alt (ch "Z") (cats [Chr sign; d; opt d; opt (cats [ch ":"; d; d])])))]].

Definition re_value : re := lit "=".
Definition re_yaml : re := alts [ch "!"; ch "&"; ch "*"].

(* `^(?:...)$` with re.match: Python's `$` also matches just before a newline that ends the
   string; no pattern above can consume a newline *)
Definition nl : ascii := ascii_of_nat 10.
Fixpoint chop_final_newline (s : string) : option string :=
  match s with
  | EmptyString => None
  | String c EmptyString => if Ascii.eqb c nl then Some EmptyString else None
  | String c s' => option_map (String c) (chop_final_newline s')
  end.
Definition anchored_match (r : re) (s : string) : bool :=
  re_match r s || match chop_final_newline s with Some s' => re_match r s' | None => false end.

(* Resolver.add_implicit_resolver(tag, regexp, first): in registration order.
   [first]: the characters under which the resolver is filed; [on_empty]: also filed under ''. *)
Record implicit_resolver := mkIR { ir_tag : ytag; ir_first : string; ir_on_empty : bool; ir_re : re }.

Definition implicit_resolvers : list implicit_resolver :=
  [mkIR TgBool "yYnNtTfFoO" false re_bool;
   mkIR TgFloat "-+0123456789." false re_float;
   mkIR TgInt "-+0123456789" false re_int;
   mkIR TgMerge "<" false re_merge;
   mkIR TgNull "~nN" true re_null;
   mkIR TgTimestamp "0123456789" false re_timestamp;
   mkIR TgValue "=" false re_value;
   mkIR TgYaml "!&*" false re_yaml].

(* yaml_implicit_resolvers.get(value[0] or '', []) *)
Definition filed_under (s : string) (r : implicit_resolver) : bool :=
  match s with
  | EmptyString => ir_on_empty r
  | String c _ => one_of (ir_first r) c
  end.

Fixpoint first_match (l : list implicit_resolver) (s : string) : option ytag :=
  match l with
  | [] => None
  | r :: l' => if anchored_match (ir_re r) s then Some (ir_tag r) else first_match l' s
  end.

(* BaseResolver.resolve(ScalarNode, value, (True, False)); no path resolvers, no wildcard resolvers *)
Definition default_scalar_tag : ytag := TgStr.
Definition resolve_plain (s : string) : ytag :=
  match first_match (filter (filed_under s) implicit_resolvers) s with
  | Some t => t
  | None => default_scalar_tag
  end.

(* ---------------------------------------------------------------- writing one scalar *)
(* ScalarNode made by the representer (style None) *)
Record snode := mkSN { sn_tag : ytag; sn_text : string }.

(* what reaches the character level: explicit tag (or none), plain or quoted, text *)
Record pscalar := mkPS { ps_tag : option ytag; ps_plain : bool; ps_text : string }.

(* ScalarAnalysis: the flags choose_scalar_style reads *)
Record analysis := mkAn {
  an_empty : bool; an_multiline : bool; an_allow_flow_plain : bool; an_allow_block_plain : bool;
  an_allow_single_quoted : bool }.

Inductive sstyle := Plain | SingleQuoted | DoubleQuoted.
Definition is_plain (st : sstyle) : bool := match st with Plain => true | _ => false end.

Section Scalar.
  (* the implicit resolver shared by dumper and loader, and the tag of a scalar that is not plain
     (BaseResolver.DEFAULT_SCALAR_TAG); the theorems hold for every choice of both *)
  Variable resolve : string -> ytag.
  Variable default_tag : ytag.
  (* Emitter.analyze_scalar *)
  Variable analyze : string -> analysis.

  (* Serializer.serialize_node: implicit = (node.tag == detected_tag, node.tag == default_tag) *)
  Definition implicit_of (n : snode) : bool * bool :=
    (ytag_eqb (sn_tag n) (resolve (sn_text n)), ytag_eqb (sn_tag n) default_tag).

  (* Emitter.choose_scalar_style with event.style = None and canonical = False *)
  Definition choose_scalar_style (simple_key flow : bool) (impl0 : bool) (an : analysis) : sstyle :=
    if impl0 && negb (simple_key && (an_empty an || an_multiline an)) &&
       (if flow then an_allow_flow_plain an else an_allow_block_plain an)
    then Plain
    else if an_allow_single_quoted an && negb (simple_key && an_multiline an) then SingleQuoted
    else DoubleQuoted.

  (* Emitter.process_tag: the tag is left out iff (plain and implicit[0]) or (not plain and implicit[1]) *)
  Definition written_tag (plain : bool) (impl : bool * bool) (tag : ytag) : option ytag :=
    if (if plain then fst impl else snd impl) then None else Some tag.

  Definition emit_scalar (simple_key flow : bool) (n : snode) : pscalar :=
    let impl := implicit_of n in
    let st := choose_scalar_style simple_key flow (fst impl) (analyze (sn_text n)) in
    mkPS (written_tag (is_plain st) impl (sn_tag n)) (is_plain st) (sn_text n).

  (* the same with the style given from outside (used to compare with an observed file): the
     emitter may choose plain only when implicit[0] holds *)
  Definition emit_scalar_as (plain : bool) (n : snode) : option pscalar :=
    let impl := implicit_of n in
    if plain && negb (fst impl) then None
    else Some (mkPS (written_tag plain impl (sn_tag n)) plain (sn_text n)).

  (* Parser.parse_node + Composer.compose_scalar_node: an explicit tag wins; a plain scalar goes
     through the implicit resolver; a quoted scalar gets the default tag *)
  Definition composed_tag (p : pscalar) : ytag :=
    match ps_tag p with
    | Some t => t
    | None => if ps_plain p then resolve (ps_text p) else default_tag
    end.

  Definition compose_scalar (p : pscalar) : snode := mkSN (composed_tag p) (ps_text p).
End Scalar.

(* ---------------------------------------------------------------- decimal integers *)
(* str(n) for a Python int *)
Definition int_text (z : Z) : string := NilZero.string_of_int (Z.to_int z).

Fixpoint remove_char (x : ascii) (s : string) : string :=
  match s with
  | EmptyString => EmptyString
  | String c s' => if Ascii.eqb c x then remove_char x s' else String c (remove_char x s')
  end.

Fixpoint has_char (x : ascii) (s : string) : bool :=
  match s with
  | EmptyString => false
  | String c s' => Ascii.eqb c x || has_char x s'
  end.

(* int(value) for a text of ASCII decimal digits *)
Definition digits_value (s : string) : option Z :=
  match s with
  | EmptyString => None
  | _ => option_map Z.of_uint (NilEmpty.uint_of_string s)
  end.

(* construct_yaml_int.  Base 2 / 8 / 16 and base-60 texts are outside the model (None): the
   dumper never writes them for an int. *)
Definition construct_int (text : string) : option Z :=
  let v := remove_char "_" text in
  match v with
  | EmptyString => None
  | String c rest =>
    let sgn := if Ascii.eqb c "-" then (-1)%Z else 1%Z in
    let v' := if one_of "+-" c then rest else v in
    if String.eqb v' "0" then Some 0%Z
    else match v' with
         | EmptyString => None
         | String c' _ =>
           if Ascii.eqb c' "0" then None             (* 0b.. / 0x.. / octal *)
           else if has_char ":" v' then None         (* base 60 *)
           else option_map (fun n => (sgn * n)%Z) (digits_value v')
         end
  end.

(* construct_yaml_bool: bool_values[value.lower()] (None = KeyError) *)
Definition ascii_lower (c : ascii) : ascii :=
  if in_range "A" "Z" c then ascii_of_nat (code c + 32) else c.
Fixpoint lower (s : string) : string :=
  match s with
  | EmptyString => EmptyString
  | String c s' => String (ascii_lower c) (lower s')
  end.
Definition construct_bool (text : string) : option bool :=
  let w := lower text in
  if String.eqb w "yes" || String.eqb w "true" || String.eqb w "on" then Some true
  else if String.eqb w "no" || String.eqb w "false" || String.eqb w "off" then Some false
  else None.
