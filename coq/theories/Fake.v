(* Fake.v — model of snowfakery/fakedata/fake_data_generator.py (property C18).

   Python strings are sequences of code points: [str := list Z].  Provider / attribute names
   are Python identifiers (ASCII in every Faker release looked at) and are Coq [string]s.

   What is modelled
     * email_templates (the 3 x 5 x 4 product), FakeNames.email, FakeNames.user_name,
       FakeNames._already_have + replace_unicode_strings_with_None,
     * FakeData.__init__: obj_to_func_list's filter, the five-layer name table,
       FakeData._get_fake_data: lookup, NotImplemented test, recording of the result in
       local_vars under the underscore-free lower-case name,
     * a row = a sequence of `fake:` calls; every template instantiation (top level, nested
       object, friend) has a local_vars dictionary of its own (RuntimeContext.local_vars).
   Faker itself is NOT modelled: every value Faker returns (safe_domain_name(),
   ascii_safe_email(), hostname(), uuid4(), first_name(), last_name(), ...) is an element of
   an explicit log [flog] that the model consumes in call order; the two draws of the
   module-level `random` (template choice, year) are elements of [draws].                  *)
From SFV Require Import Base.
From Coq Require Decimal.

(* ------------------------------------------------------------------ strings *)

Definition str := list Z.

Definition of_ascii (a : ascii) : Z := Z.of_N (N_of_ascii a).
Fixpoint of_string (s : string) : str :=
  match s with EmptyString => [] | String a r => of_ascii a :: of_string r end.

(* literals as the harness writes them: A = ASCII text, U = explicit code points *)
Inductive lit := A (s : string) | U (l : list Z).
Definition cp (x : lit) : str := match x with A s => of_string s | U l => l end.

Definition str_eqb (a b : str) : bool := list_eqb Z.eqb a b.

Definition AT : Z := 64.          (* "@" *)
Definition USCORE : Z := 95.      (* "_" *)
Definition DOT : Z := 46.         (* "." *)

Definition count_at (s : str) : nat := length (filter (Z.eqb AT) s).
Definition no_at (s : str) : bool := forallb (fun c => negb (c =? AT)) s.

(* str(int) *)
Fixpoint uint_str (u : Decimal.uint) : str :=
  match u with
  | Decimal.Nil => []
  | Decimal.D0 r => 48 :: uint_str r | Decimal.D1 r => 49 :: uint_str r
  | Decimal.D2 r => 50 :: uint_str r | Decimal.D3 r => 51 :: uint_str r
  | Decimal.D4 r => 52 :: uint_str r | Decimal.D5 r => 53 :: uint_str r
  | Decimal.D6 r => 54 :: uint_str r | Decimal.D7 r => 55 :: uint_str r
  | Decimal.D8 r => 56 :: uint_str r | Decimal.D9 r => 57 :: uint_str r
  end.
Definition dec (z : Z) : str :=
  match Z.to_int z with
  | Decimal.Pos u => uint_str u
  | Decimal.Neg u => 45 :: uint_str u
  end.

(* s[0:n] — a negative stop counts from the end (Python slice semantics) *)
Definition slice0 (s : str) (n : Z) : str :=
  if 0 <=? n then firstn (Z.to_nat n) s
  else firstn (Z.to_nat (Z.of_nat (length s) + n)) s.

(* s[i] for i >= 0 *)
Definition idx (s : str) (i : nat) : result Z :=
  match nth_error s i with Some c => Ok c | None => Err (Internal "IndexError") end.

(* ------------------------------------------------------------------ cleaning *)

(* replace_unicode_strings_with_None on a str (None = Python None) *)
Definition isascii (s : str) : bool := forallb (fun c => c <? 128) s.
Definition isalnum (c : Z) : bool :=
  ((48 <=? c) && (c <=? 57)) || ((65 <=? c) && (c <=? 90)) || ((97 <=? c) && (c <=? 122)).
Definition clean_str (s : str) : option str :=
  if isascii s then Some (filter isalnum s) else None.
Definition clean (v : option str) : option str :=
  match v with None => None | Some s => clean_str s end.

(* all(already_created) on two cleaned values *)
Definition truthy (v : option str) : bool :=
  match v with Some (_ :: _) => true | _ => false end.

(* local_vars: association list, newest binding first *)
Definition lvars := list (string * str).
Fixpoint assoc {V} (k : string) (l : list (string * V)) : option V :=
  match l with
  | [] => None
  | (k', v) :: r => if String.eqb k k' then Some v else assoc k r
  end.

(* _already_have(("firstname","lastname")) followed by `matching and all(...)` *)
Definition names_for (matching : bool) (lv : lvars) : option (str * str) :=
  match clean (assoc "firstname" lv), clean (assoc "lastname" lv) with
  | Some (a :: f), Some (b :: l) => if matching then Some (a :: f, b :: l) else None
  | _, _ => None
  end.

(* ------------------------------------------------------------------ e-mail *)

Inductive fpat := FFull | FInit | FTwo.           (* first_name_patterns *)
Inductive ypat := YFull | YTwo | YOne | YNone.    (* year_patterns *)
Definition fpats := [FFull; FInit; FTwo].
Definition seps : list str := [[]; [46]; [45]; [95]; [43]].   (* "" . - _ + *)
Definition ypats := [YFull; YTwo; YOne; YNone].
Definition template := (fpat * (str * ypat))%type.
(* itertools.product order: first pattern outermost, year pattern innermost *)
Definition templates : list template := list_prod fpats (list_prod seps ypats).

(* str.ljust(2, "_") *)
Definition ljust2 (s : str) : str :=
  match s with [] => [USCORE; USCORE] | [a] => [a; USCORE] | _ => s end.

Definition fpat_apply (p : fpat) (first : str) : result str :=
  match p with
  | FFull => Ok first
  | FInit => do a <- idx first 0; Ok [a]
  | FTwo => do a <- idx first 0; do b <- idx first 1; Ok [a; b]
  end.
Definition ypat_apply (p : ypat) (ys : str) : result str :=
  match p with
  | YFull => Ok ys
  | YTwo => do a <- idx ys 2; do b <- idx ys 3; Ok [a; b]
  | YOne => do a <- idx ys 3; Ok [a]
  | YNone => Ok []
  end.

(* template.format(firstname=…, lastname=…, domain=…, year=…) *)
Definition fill (t : template) (first last ys dom : str) : result str :=
  let '(fp, (sep, yp)) := t in
  do f <- fpat_apply fp first;
  do y <- ypat_apply yp ys;
  Ok (f ++ sep ++ last ++ y ++ [AT] ++ dom).

(* the `matching` branch of FakeNames.email: [tpl] = index drawn by random.choice,
   [year] = value of random.randint(this_year - 80, this_year - 10) *)
Definition email_matching (f l : str) (tpl year : Z) (dom : str) : result str :=
  if (tpl <? 0) then Err BadOracle else
  match nth_error templates (Z.to_nat tpl) with
  | None => Err BadOracle
  | Some t => fill t (ljust2 f) l (dec year) dom
  end.

(* FakeNames.email as a function of everything it reads *)
Definition email_of (matching : bool) (lv : lvars) (tpl year : Z) (dom ase : str) : result str :=
  match names_for matching lv with
  | Some (f, l) => email_matching f l tpl year dom
  | None => Ok ase
  end.

(* the three reserved example domains *)
Definition reserved (d : str) : bool :=
  str_eqb d (of_string "example.com") || str_eqb d (of_string "example.org")
  || str_eqb d (of_string "example.net").

(* split at the first "@" *)
Fixpoint split_at (s : str) : option (str * str) :=
  match s with
  | [] => None
  | c :: r => if c =? AT then Some ([], r)
              else match split_at r with Some (a, b) => Some (c :: a, b) | None => None end
  end.
(* an address whose domain (everything after the first "@") is reserved — hence exactly one "@" *)
Definition safe_addr (e : str) : bool :=
  match split_at e with Some (_, d) => reserved d | None => false end.

(* ------------------------------------------------------------------ username *)

(* FakeNames.user_name: [host] = f.hostname(), [uuid] = f.uuid4(),
   [ff]/[fl] = f.first_name()/f.last_name() (only read in the non-matching branch).
   The names are cut first — as far as needed to keep UNIQUE_MIN_LEN characters of the uuid —
   and only then the uuid. *)
Definition unique_min_len : Z := 16.
Definition names_of (matching : bool) (lv : lvars) (ff fl : str) : str :=
  match names_for matching lv with
  | Some (f, l) => f ++ [DOT] ++ l
  | None => ff ++ [USCORE] ++ fl
  end.
Definition namepart_max_len (host : str) : Z := Z.max (80 - (Z.of_nat (length host) + 1)) 0.
Definition kept_names (matching : bool) (lv : lvars) (host ff fl : str) : str :=
  slice0 (names_of matching lv ff fl) (Z.max (namepart_max_len host - (unique_min_len + 1)) 0).
(* f"{names}_{unique}" if names else unique *)
Definition join_unique (names uuid : str) : str :=
  match names with [] => uuid | _ => names ++ [USCORE] ++ uuid end.
Definition user_name_of (matching : bool) (lv : lvars) (host ff fl uuid : str) : str :=
  slice0 (join_unique (kept_names matching lv host ff fl) uuid) (namepart_max_len host)
  ++ [AT] ++ host.

(* ------------------------------------------------------------------ the name table *)

Definition lower_ascii (a : ascii) : ascii :=
  let n := N_of_ascii a in
  if ((65 <=? n) && (n <=? 90))%N then ascii_of_N (n + 32) else a.
Fixpoint lower (s : string) : string :=
  match s with EmptyString => EmptyString | String a r => String (lower_ascii a) (lower r) end.
Fixpoint no_us (s : string) : string :=
  match s with
  | EmptyString => EmptyString
  | String a r => if Ascii.eqb a "_" then no_us r else String a (no_us r)
  end.
(* no_underscore_name *)
Definition canon (s : string) : string := no_us (lower s).

(* the model's lower() is Python's only on ASCII text *)
Fixpoint ascii_only (s : string) : bool :=
  match s with
  | EmptyString => true
  | String a r => (N_of_ascii a <? 128)%N && ascii_only r
  end.

Definition starts_us (s : string) : bool :=
  match s with String a _ => Ascii.eqb a "_" | EmptyString => false end.
Definition mem (s : string) (l : list string) : bool := existsb (String.eqb s) l.

Inductive src := Fk | Sf.                 (* the Faker object / the FakeNames object *)
Definition prov := (src * string)%type.   (* attribute [name] of that object *)
Definition src_eqb (a b : src) : bool :=
  match a, b with Fk, Fk | Sf, Sf => true | _, _ => false end.

(* names kept by obj_to_func_list(obj, _, ignore_list), in dir() order *)
Definition attrs_of (dir ignore : list string) : list string :=
  filter (fun n => negb (starts_us n) && negb (mem n ignore)) dir.
Definition layer (s : src) (cf : string -> string) (attrs : list string) : list (string * prov) :=
  map (fun n => (cf n, (s, n))) attrs.

(* the fifth entry of the dict display: every Faker name (lower case) whose canonical form is
   the canonical form of a Snowfakery name is bound to what that canonical key is bound to *)
Definition layer5 (fa sa : list string) : list (string * prov) :=
  flat_map (fun n => match assoc (canon n) (rev (layer Sf canon sa)) with
                     | Some p => [(lower n, p)]
                     | None => []
                     end) fa.

(* {**L1, **L2, **L3, **L4, **L5}: a later writer of a key wins, so the association list is
   searched from the last layer's last name backwards *)
Definition build (fa sa : list string) : list (string * prov) :=
  rev (layer5 fa sa) ++ rev (layer Sf canon sa) ++ rev (layer Sf lower sa)
  ++ rev (layer Fk canon fa) ++ rev (layer Fk lower fa).

(* self.fake_names.get(origname.lower()) *)
Definition lookup (tbl : list (string * prov)) (q : string) : option prov := assoc (lower q) tbl.

(* … followed by `meth != NotImplemented`; [ni] = FakeNames attributes set to NotImplemented *)
Definition get_fake (tbl : list (string * prov)) (ni : list string) (q : string) : option prov :=
  match lookup tbl q with
  | Some (Sf, n) => if mem n ni then None else Some (Sf, n)
  | r => r
  end.

(* ---- hypotheses of the spelling theorem, decidable so that they can be evaluated on the
        real attribute lists;  [val p] stands for the Python object an attribute is bound to *)
Section Consistency.
  Context {V : Type} (veqb : V -> V -> bool) (val : prov -> V).
  Definition consistentb (s : src) (attrs : list string) : bool :=
    let l := map (fun n => (canon n, val (s, n))) attrs in
    forallb (fun p1 => forallb (fun p2 =>
      negb (String.eqb (fst p1) (fst p2)) || veqb (snd p1) (snd p2)) l) l.
End Consistency.
(* ------------------------------------------------------------------ one row *)

Record st := mkSt {
  s_lv : lvars;
  s_flog : list (string * str);     (* Faker calls still to come: (method, returned text) *)
  s_draws : list (Z * Z)            (* draws of the global random: (width, value) *)
}.

Definition call (m : string) (s : st) : result (str * st) :=
  match s_flog s with
  | (m', v) :: r => if String.eqb m m' then Ok (v, mkSt (s_lv s) r (s_draws s)) else Err BadOracle
  | [] => Err BadOracle
  end.
Definition draw (n : Z) (s : st) : result (Z * st) :=
  match s_draws s with
  | (n', v) :: r => if (n =? n') && (0 <=? v) && (v <? n)
                    then Ok (v, mkSt (s_lv s) (s_flog s) r) else Err BadOracle
  | [] => Err BadOracle
  end.

Definition n_templates : Z := 60.
Definition n_years : Z := 71.

Definition fake_email (this_year : Z) (matching : bool) (s : st) : result (str * st) :=
  match names_for matching (s_lv s) with
  | Some (f, l) =>
    do '(t, s1) <- draw n_templates s;              (* random.choice(email_templates) *)
    do '(dom, s2) <- call "safe_domain_name" s1;
    do '(y, s3) <- draw n_years s2;                 (* random.randint(this_year-80, this_year-10) *)
    do e <- email_matching f l t (this_year - 80 + y) dom;
    Ok (e, s3)
  | None => call "ascii_safe_email" s
  end.

Definition fake_user_name (matching : bool) (s : st) : result (str * st) :=
  do '(host, s1) <- call "hostname" s;
  match names_for matching (s_lv s) with
  | Some _ =>
    do '(uuid, s2) <- call "uuid4" s1;
    Ok (user_name_of matching (s_lv s) host [] [] uuid, s2)
  | None =>
    do '(ff, s2) <- call "first_name" s1;
    do '(fl, s3) <- call "last_name" s2;
    do '(uuid, s4) <- call "uuid4" s3;
    Ok (user_name_of matching (s_lv s) host ff fl uuid, s4)
  end.

(* _get_fake_data(origname, **kwargs) where kwargs is {} or {matching: False} *)
Definition fake_step (tbl : list (string * prov)) (ni : list string) (this_year : Z)
           (q : string) (matching : bool) (s : st) : result (str * st) :=
  if negb (ascii_only q) then Err Unsupported else
  match get_fake tbl ni q with
  | None => Err (DGE "no fake data type")            (* AttributeError, reported as a recipe error *)
  | Some (src, n) =>
    do '(v, s1) <-
      match src with
      | Fk => call n s
      | Sf => if String.eqb n "email" then fake_email this_year matching s
              else if String.eqb n "user_name" then fake_user_name matching s
              else Err Unsupported
      end;
    (* local_faker_vars[name.replace("_", "")] = ret *)
    Ok (v, mkSt ((canon q, v) :: s_lv s1) (s_flog s1) (s_draws s1))
  end.

(* a sequence of `fake:` calls inside one context, returning the final state *)
Fixpoint run_fakes (tbl : list (string * prov)) (ni : list string) (this_year : Z)
         (fields : list (string * bool)) (s : st) : result (list str * st) :=
  match fields with
  | [] => Ok ([], s)
  | (q, m) :: rest =>
    do '(v, s1) <- fake_step tbl ni this_year q m s;
    do '(vs, s2) <- run_fakes tbl ni this_year rest s1;
    Ok (v :: vs, s2)
  end.

(* What one top-level template does, in evaluation order.  Every template instantiation
   (top level, nested object in a field, friend) runs in a RuntimeContext of its own, whose
   local_vars start empty (OPush) and are dropped at the end (OPop: the enclosing context's
   local_vars are current again).  All rows of one `count:` loop share their template's
   context.  The Faker log and the random draws are global. *)
Inductive op := OFake (q : string) (matching : bool) | OPush | OPop.

Fixpoint run_ops (tbl : list (string * prov)) (ni : list string) (this_year : Z)
         (ops : list op) (stack : list lvars) (s : st) : result (list str) :=
  match ops with
  | [] => Ok []
  | OFake q m :: rest =>
    do '(v, s1) <- fake_step tbl ni this_year q m s;
    do vs <- run_ops tbl ni this_year rest stack s1;
    Ok (v :: vs)
  | OPush :: rest =>
    run_ops tbl ni this_year rest (s_lv s :: stack) (mkSt [] (s_flog s) (s_draws s))
  | OPop :: rest =>
    match stack with
    | lv :: stack' => run_ops tbl ni this_year rest stack' (mkSt lv (s_flog s) (s_draws s))
    | [] => Err BadOracle
    end
  end.

(* ------------------------------------------------------------------ correspondence cases *)

Inductive rowcase :=
  Row (ops : list op) (flog : list (string * lit)) (draws : list (Z * Z))
      (expected : result (list lit)).

Definition lits_eqb (a : list str) (b : list lit) : bool := list_eqb str_eqb a (map cp b).

Definition is_unsupported {X} (r : result X) : bool :=
  match r with Err Unsupported => true | _ => false end.

Definition check_row (tbl : list (string * prov)) (ni : list string) (this_year : Z)
           (r : rowcase) : bool :=
  let '(Row ops flog draws expected) := r in
  let got := run_ops tbl ni this_year ops []
                     (mkSt [] (map (fun p => (fst p, cp (snd p))) flog) draws) in
  is_unsupported got ||
  match got, expected with
  | Ok vs, Ok ws => lits_eqb vs ws
  | Err e1, Err e2 => err_eqb e1 e2
  | _, _ => false
  end.

(* signature of a provider as the harness observes it (Faker stubbed: attribute n returns
   the text "F:n"); [sigs] gives the observed behaviour of each FakeNames attribute, and under
   the key "F:n" that of Faker attributes that are not callable *)
Definition sig_of (sigs : list (string * string)) (p : option prov) : string :=
  match p with
  | None => "!AttributeError"
  | Some (Fk, n) => let d := String "F" (String ":" n) in
                    match assoc d sigs with Some s => s | None => d end   (* non-callable attribute *)
  | Some (Sf, n) => match assoc n sigs with Some s => s | None => "?" end
  end.

Definition check_query (tbl : list (string * prov)) (ni : list string)
           (sigs : list (string * string)) (qo : string * string) : bool :=
  negb (ascii_only (fst qo)) || String.eqb (sig_of sigs (get_fake tbl ni (fst qo))) (snd qo).

Definition hyps_hold (fa sa : list string) (sigs : list (string * string)) : bool :=
  consistentb String.eqb (fun p => sig_of sigs (Some p)) Fk fa
  && consistentb String.eqb (fun p => sig_of sigs (Some p)) Sf sa.

Inductive case :=
| CLocale (fk_dir ignore sf_dir ni : list string) (sigs : list (string * string))
          (hyp_ok : option bool)                   (* the harness' own evaluation of hyps_hold (table cases) *)
          (queries : list (string * string))       (* spelling, observed signature *)
          (doms : list lit)                        (* the provider's safe_domain_names *)
          (doms_ok : bool)
          (this_year : Z)
          (rows : list rowcase)
| CClean (items : list (lit * option lit))         (* replace_unicode_strings_with_None *)
| CUser (matching : bool) (lv : list (string * lit)) (host ff fl uuid : lit) (expected : lit)
| CEmail (matching : bool) (lv : list (string * lit)) (tpl year : Z) (dom ase : lit)
         (expected : result lit).

Definition opt_str_eqb (a : option str) (b : option lit) : bool :=
  match a, b with
  | Some x, Some y => str_eqb x (cp y)
  | None, None => true
  | _, _ => false
  end.

Definition lv_of (l : list (string * lit)) : lvars := map (fun p => (fst p, cp (snd p))) l.

Definition check_case (c : case) : bool :=
  match c with
  | CLocale fk_dir ignore sf_dir ni sigs hyp_ok queries doms doms_ok this_year rows =>
    let fa := attrs_of fk_dir ignore in
    let sa := attrs_of sf_dir [] in
    let tbl := build fa sa in
    forallb (check_query tbl ni sigs) queries
    && match hyp_ok with Some b => Bool.eqb (hyps_hold fa sa sigs) b | None => true end
    && Bool.eqb (forallb (fun d => reserved (cp d)) doms) doms_ok
    && forallb (check_row tbl ni this_year) rows
  | CClean items => forallb (fun p => opt_str_eqb (clean_str (cp (fst p))) (snd p)) items
  | CUser m lv host ff fl uuid e =>
    str_eqb (user_name_of m (lv_of lv) (cp host) (cp ff) (cp fl) (cp uuid)) (cp e)
  | CEmail m lv tpl year dom ase e =>
    match email_of m (lv_of lv) tpl year (cp dom) (cp ase), e with
    | Ok x, Ok y => str_eqb x (cp y)
    | Err e1, Err e2 => err_eqb e1 e2
    | _, _ => false
    end
  end.
