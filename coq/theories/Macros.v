(* Macros.v — model of Snowfakery's composition features (property C14).

   snowfakery/parse_recipe_yaml.py
     _dedupe_field_list            list({f.name: f for f in fields}.values())
     include_macro / parse_inclusions   recursive macro expansion, parent_macros cycle check
     parse_object_template         fields = dedupe (macro fields ++ own fields)
     parse_included_files / parse_top_level_elements / parse_file / parse_recipe
                                   included files first, statements / options / macros merged
   snowfakery/data_generator.py
     merge_options                 user value, else declared default, else DataGenNameError

   What is opaque here (type parameters, the model never looks inside):
     P  a field definition (SimpleValue / StructuredValue / nested template) as written in YAML
     F  a friend statement as written in YAML (parsed independently of where it is placed)
     V  an option value
   The `include:` string of a template/macro is represented by the list of names obtained by
   `[x.strip() for x in s.split(",")]` minus the empty ones (done by the harness; a change in
   that splitting shows up as a correspondence disagreement).                                 *)
From SFV Require Import Base.

Set Implicit Arguments.

(* ------------------------------------------------------------------ Python dicts *)
(* A dict with string keys, as the list of its items in insertion order. *)
Section Dict.
  Variable V : Type.
  Definition dict := list (string * V).

  Definition names (d : dict) : list string := map fst d.

  (* d[k] = v : overwrite in place (position kept) or append *)
  Fixpoint dict_set (d : dict) (k : string) (v : V) : dict :=
    match d with
    | [] => [(k, v)]
    | (k', v') :: r => if String.eqb k' k then (k', v) :: r else (k', v') :: dict_set r k v
    end.

  (* d.get(k) *)
  Fixpoint lookup (k : string) (d : dict) : option V :=
    match d with
    | [] => None
    | (k', v) :: r => if String.eqb k' k then Some v else lookup k r
    end.

  (* {k: v for (k, v) in l} starting from the dict d   (also: d.update(l)) *)
  Definition dict_update (d : dict) (l : list (string * V)) : dict :=
    fold_left (fun acc kv => dict_set acc (fst kv) (snd kv)) l d.

  (* _dedupe_field_list: list({f.name: f for f in fields}.values()) *)
  Definition dedupe (l : list (string * V)) : dict := dict_update [] l.

  (* specification vocabulary (not used by the executable model) *)
  Fixpoint last_lookup (k : string) (l : list (string * V)) : option V :=
    match l with
    | [] => None
    | (k', v) :: r =>
      match last_lookup k r with
      | Some x => Some x
      | None => if String.eqb k' k then Some v else None
      end
    end.
End Dict.

Definition mem (k : string) (l : list string) : bool := existsb (String.eqb k) l.

(* the distinct names of a list in order of first occurrence *)
Fixpoint first_occurrences (ns : list string) : list string :=
  match ns with
  | [] => []
  | n :: r => n :: filter (fun m => negb (String.eqb m n)) (first_occurrences r)
  end.

(* ------------------------------------------------------------------ recipes *)
Section Model.
  Variables P F V : Type.

  Definition field := (string * P)%type.

  (* - macro: name / include: "a, b" / fields: {...} / friends: [...] *)
  Record macro := mkMacro {
    m_include : list string;
    m_fields : list field;
    m_friends : list F
  }.

  (* context.macros after all files have been read: definitions in the order in which
     `context.macros.update` saw them; a later definition of a name replaces an earlier one *)
  Definition menv := list (string * macro).
  Definition find_macro (name : string) (env : menv) : option macro := last_lookup name env.

  Inductive stmt :=
  | SObj (table : string) (include : list string) (fields : list field) (friends : list F)
  | SVar (name : string) (value : P).

  (* what the parser produces: ObjectTemplate(tablename, fields, friends) / VariableDefinition *)
  Inductive pstmt :=
  | PObj (table : string) (fields : list field) (friends : list F)
  | PVar (name : string) (value : P).

  (* - option: name [default: v] *)
  Record optdecl := mkOpt { o_name : string; o_default : option V }.

  (* ---------------- parse_inclusions: for inclusion in names: extend fields, friends *)
  Fixpoint incl_all (f : string -> result (list field * list F)) (ns : list string)
    : result (list field * list F) :=
    match ns with
    | [] => Ok ([], [])
    | n :: r =>
      do '(fs, fr) <- f n;
      do '(fs', fr') <- incl_all f r;
      Ok (fs ++ fs', fr ++ fr')
    end.

  (* ---------------- include_macro(name, context, parent_macros)
     fuel bounds the recursion depth; S (length env) always suffices (MacrosP.expand_fuel_ok) *)
  Fixpoint expand (fuel : nat) (env : menv) (parents : list string) (name : string)
    : result (list field * list F) :=
    match fuel with
    | O => Err OutOfFuel
    | S n =>
      match find_macro name env with
      | None => Err (DGE "Cannot find macro")                 (* DataGenNameError *)
      | Some m =>
        if mem name parents then Err (DGE "Macro calls itself") (* DataGenError *)
        else
          do '(fs, fr) <- incl_all (expand n env (parents ++ [name])) (m_include m);
          Ok (dedupe (fs ++ m_fields m), fr ++ m_friends m)
      end
    end.

  Definition macro_fuel (env : menv) : nat := S (length env).

  (* parse_inclusions(yaml_sobj, fields, friends, context) at template level: parent_macros=() *)
  Definition expand_includes (env : menv) (ns : list string) : result (list field * list F) :=
    incl_all (expand (macro_fuel env) env []) ns.

  (* parse_object_template / parse_variable_definition *)
  Definition parse_stmt (env : menv) (s : stmt) : result pstmt :=
    match s with
    | SObj t inc own fr_own =>
      do '(fs, fr) <- expand_includes env inc;
      Ok (PObj t (dedupe (fs ++ own)) (fr ++ fr_own))
    | SVar n v => Ok (PVar n v)
    end.

  Fixpoint parse_stmts (env : menv) (l : list stmt) : result (list pstmt) :=
    match l with
    | [] => Ok []
    | s :: r => do p <- parse_stmt env s; do ps <- parse_stmts env r; Ok (p :: ps)
    end.

  (* ---------------- specification: the same expansion WITHOUT the intermediate
     de-duplication, i.e. the raw macro fields in inclusion order (included macros first,
     then the macro's own fields).  MacrosP.expand_flat relates the two. *)
  Fixpoint flat (fuel : nat) (env : menv) (parents : list string) (name : string)
    : result (list field * list F) :=
    match fuel with
    | O => Err OutOfFuel
    | S n =>
      match find_macro name env with
      | None => Err (DGE "Cannot find macro")
      | Some m =>
        if mem name parents then Err (DGE "Macro calls itself")
        else
          do '(fs, fr) <- incl_all (flat n env (parents ++ [name])) (m_include m);
          Ok (fs ++ m_fields m, fr ++ m_friends m)
      end
    end.

  Definition flat_includes (env : menv) (ns : list string) : result (list field * list F) :=
    incl_all (flat (macro_fuel env) env []) ns.

  (* ---------------- files *)
  (* One recipe file: its `include_file` entries (None = the file does not exist), option
     declarations, macros and statements, each in file order (categorize_top_level_objects
     separates the categories; their interleaving is irrelevant).  The include graph is a tree
     here: a file included twice is parsed twice (as in the code); a file that includes itself
     has no representation (the code recurses until Python gives up). *)
  Inductive file :=
  | File (incs : list (option file)) (opts : list optdecl) (macs : list (string * macro))
         (stmts : list stmt).

  Definition flat3 := (list stmt * list optdecl * menv)%type.

  (* parse_file / parse_top_level_elements: what the file contributes to
     (statements, context.options, context.macros); included files first *)
  Fixpoint flatten (f : file) : result flat3 :=
    match f with
    | File incs opts macs stmts =>
      do '(s, o, m) <-
         (fix go (l : list (option file)) : result flat3 :=
            match l with
            | [] => Ok ([], [], [])
            | None :: _ => Err (DGE "Cannot load include file")
            | Some g :: r =>
              do '(s1, o1, m1) <- flatten g;
              do '(s2, o2, m2) <- go r;
              Ok (s1 ++ s2, o1 ++ o2, m1 ++ m2)
            end) incs;
      Ok (s ++ stmts, o ++ opts, m ++ macs)
    end.

  (* the same loop as a top-level function, for statements about it *)
  Fixpoint flatten_incs (l : list (option file)) : result flat3 :=
    match l with
    | [] => Ok ([], [], [])
    | None :: _ => Err (DGE "Cannot load include file")
    | Some g :: r =>
      do '(s1, o1, m1) <- flatten g;
      do '(s2, o2, m2) <- flatten_incs r;
      Ok (s1 ++ s2, o1 ++ o2, m1 ++ m2)
    end.

  (* parse_recipe: ParseResult.statements and ParseResult.options *)
  Definition parse_recipe (f : file) : result (list pstmt * list optdecl) :=
    do '(s, o, m) <- flatten f;
    do ps <- parse_stmts m s;
    Ok (ps, o).

  (* ---------------- merge_options(option_definitions, user_options, raw_plugin_options) *)
  Fixpoint merge_loop (decls : list optdecl) (user : dict V) (options : dict V)
    : result (dict V) :=
    match decls with
    | [] => Ok options
    | d :: r =>
      match lookup (o_name d) user with
      | Some v => merge_loop r user (dict_set options (o_name d) v)   (* name in user_options *)
      | None =>
        match o_default d with
        | Some v => merge_loop r user (dict_set options (o_name d) v) (* "default" in option *)
        | None => Err (DGE "No definition supplied for option")
        end
      end
    end.

  (* returns (options, extra_options); extra_options is a set in the code *)
  Definition merge_options (decls : list optdecl) (user : dict V) (plugin : dict V)
    : result (dict V * list string) :=
    do o <- merge_loop decls user plugin;
    Ok (o, filter (fun k => negb (mem k (names o))) (names user)).

  (* the default written in the last declaration of an option *)
  Fixpoint last_decl (k : string) (decls : list optdecl) : option optdecl :=
    match decls with
    | [] => None
    | d :: r =>
      match last_decl k r with
      | Some x => Some x
      | None => if String.eqb (o_name d) k then Some d else None
      end
    end.
End Model.

Arguments SVar {P F} name value.
Arguments PVar {P F} name value.
Arguments File {P F V} incs opts macs stmts.
Arguments mkOpt {V} o_name o_default.

(* ------------------------------------------------------------------ histories of runs *)
(* A chain of generate() calls in one process.  Every link has its own recipe (declarations), its
   own user_options, and either starts afresh or continues the run before it from that run's
   continuation file.  generate() calls merge_options(parse_result.options, user_options, ...)
   on the arguments of THIS call; the continuation file (Globals.__getstate__: last used ids,
   just_once rows, nicknames, today, dependencies) has no entry for options and is loaded only
   after the merge.  The model threads the continuation through the chain as the code does - a
   run that fails leaves no usable file, the next link goes on from the last run that succeeded -
   and keeps of the file only how many runs of history stand behind it. *)
Section Chain.
  Variable V : Type.

  Record link := mkLink {
    l_decls : list (optdecl V);      (* - option: statements of the link's recipe *)
    l_user : dict V;                 (* user_options of the link's generate() call *)
    l_cont : bool                    (* continuation_file= given *)
  }.

  Definition contfile := nat.        (* number of runs whose state the file carries *)

  (* one generate() call: (options the interpreter is built with, continuation file written) *)
  Definition run_link (prev : option contfile) (l : link) : result (dict V * contfile) :=
    do '(o, _) <- merge_options (l_decls l) (l_user l) [];
    let loaded := if l_cont l then prev else None in
    Ok (o, match loaded with Some k => S k | None => 1%nat end).

  Fixpoint run_chain (prev : option contfile) (ls : list link)
    : list (result (dict V * contfile)) :=
    match ls with
    | [] => []
    | l :: r =>
      match run_link prev l with
      | Ok (o, c) => Ok (o, c) :: run_chain (Some c) r
      | Err e => Err e :: run_chain prev r
      end
    end.

  (* the options of every run of the chain *)
  Definition chain_options (prev : option contfile) (ls : list link) : list (result (dict V)) :=
    map (fun r => do '(o, _) <- r; Ok o) (run_chain prev ls).

  (* a link's options from its own inputs alone *)
  Definition own_options (l : link) : result (dict V) :=
    do '(o, _) <- merge_options (l_decls l) (l_user l) []; Ok o.

  (* NOT the code (specification vocabulary for a refuted reading): a continued run that treats the
     options of the run it continues as supplied by the user *)
  Fixpoint inheriting_options (carried : dict V) (ls : list link) : list (result (dict V)) :=
    match ls with
    | [] => []
    | l :: r =>
      let user := dict_update (if l_cont l then carried else []) (l_user l) in
      match merge_options (l_decls l) user [] with
      | Ok (o, _) => Ok o :: inheriting_options user r
      | Err e => Err e :: inheriting_options carried r
      end
    end.
End Chain.

Arguments mkLink {V} l_decls l_user l_cont.

(* ------------------------------------------------------------------ the `include:` string *)
(* parse_inclusions:  [x.strip() for x in yaml_sobj.get("include", "").split(",")], empty items
   dropped by filter(None, ...).  ASCII white space as str.strip() knows it. *)
Definition is_ws (c : ascii) : bool :=
  match nat_of_ascii c with
  | 9%nat | 10%nat | 11%nat | 12%nat | 13%nat | 28%nat | 29%nat | 30%nat | 31%nat | 32%nat => true
  | _ => false
  end.
Definition is_comma (c : ascii) : bool := Ascii.eqb c ","%char.

(* s.split(",") *)
Fixpoint split_commas (s : string) : list string :=
  match s with
  | EmptyString => [EmptyString]
  | String c r =>
    if is_comma c then EmptyString :: split_commas r
    else match split_commas r with
         | h :: t => String c h :: t
         | [] => [String c EmptyString]
         end
  end.

Fixpoint lstrip (s : string) : string :=
  match s with
  | EmptyString => EmptyString
  | String c r => if is_ws c then lstrip r else s
  end.

Fixpoint rstrip (s : string) : string :=
  match s with
  | EmptyString => EmptyString
  | String c r =>
    match rstrip r with
    | EmptyString => if is_ws c then EmptyString else String c EmptyString
    | r' => String c r'
    end
  end.

Definition strip (s : string) : string := rstrip (lstrip s).

Definition nonempty (s : string) : bool := match s with EmptyString => false | _ => true end.

Definition split_includes (s : string) : list string :=
  filter nonempty (map strip (split_commas s)).

(* specification vocabulary *)
Fixpoint all_ws (s : string) : bool :=
  match s with EmptyString => true | String c r => is_ws c && all_ws r end.
Fixpoint no_comma (s : string) : bool :=
  match s with EmptyString => true | String c r => negb (is_comma c) && no_comma r end.
(* a macro name as it can be written in an include string: not empty, no comma, no white space
   at either end (white space inside is kept) *)
Definition clean_name (n : string) : Prop :=
  exists c r, n = String c r /\ is_ws c = false /\ rstrip n = n /\ no_comma n = true.
(* the written string: items (left padding, name or nothing, right padding) separated by commas *)
Fixpoint join_includes (items : list (string * string * string)) : string :=
  match items with
  | [] => EmptyString
  | [(l, n, r)] => l ++ n ++ r
  | (l, n, r) :: rest => l ++ n ++ r ++ String ","%char (join_includes rest)
  end.

(* ------------------------------------------------------------------ names seen by formulas *)
(* snowfakery/data_generator_runtime.py  EvaluationNamespace.field_vars / simple_field_vars:
     {"id", "count", "child_index", "this", "today", "now", "fake", "template",   built-in names
      **interpreter.options,                         the result of merge_options
      **interpreter.globals.object_names,            forward-reference slots, nicknames, table names
      **(obj._values if obj else {}),                "id" and the fields of the current row so far
      **interpreter.plugin_function_libraries,       declared plugins by their short name
      **self.runtime_context.variable_definitions(), `var` statements, child_index, for_each variables
      **self.field_funcs()}                          the standard functions (date, random_number, ...)
   One Python dict is built from these seven dicts; an entry of a later dict replaces the entry
   of an earlier one.  ${{name}} evaluates to what this dict holds for `name`. *)
Section Namespace.
  Variable V : Type.

  Record scopes := mkScopes {
    sc_builtins : list (string * V);
    sc_options  : list (string * V);
    sc_objects  : list (string * V);
    sc_fields   : list (string * V);
    sc_plugins  : list (string * V);
    sc_vars     : list (string * V);
    sc_funcs    : list (string * V)
  }.

  (* the dicts in the order in which they are merged *)
  Definition layers (s : scopes) : list (list (string * V)) :=
    [sc_builtins s; sc_options s; sc_objects s; sc_fields s; sc_plugins s; sc_vars s; sc_funcs s].

  (* {**l1, **l2, ...} *)
  Definition merge_dicts (ls : list (list (string * V))) : dict V :=
    fold_left (@dict_update V) ls [].

  Definition field_vars (s : scopes) : dict V := merge_dicts (layers s).

  (* what ${{n}} evaluates to (None: jinja's Undefined) *)
  Definition resolve (n : string) (s : scopes) : option V := lookup n (field_vars s).

  (* specification vocabulary: a scope closer than the options defines the name *)
  Definition closer_defines (n : string) (s : scopes) : Prop :=
    last_lookup n (sc_objects s) <> None \/ last_lookup n (sc_fields s) <> None \/
    last_lookup n (sc_plugins s) <> None \/ last_lookup n (sc_vars s) <> None \/
    last_lookup n (sc_funcs s) <> None.

  Definition with_options (s : scopes) (o : list (string * V)) : scopes :=
    mkScopes (sc_builtins s) o (sc_objects s) (sc_fields s) (sc_plugins s) (sc_vars s) (sc_funcs s).
End Namespace.

(* ------------------------------------------------------------------ include files on disk *)
(* snowfakery/parse_recipe_yaml.py  parse_included_file / parse_included_files / parse_file:
     inclusion_path = parent_path.parent / relpath        relative to the INCLUDING file
     if not inclusion_path.is_file(): DataGenError "Cannot load include file"
     including, included = parent_path.resolve(), inclusion_path.resolve()
     if included == including or included in context.inclusion_stack: DataGenError "includes itself"
     context.inclusion_stack.append(including); parse_file(included); pop
   A path is the list of its segments below the directory of the main recipe (no symbolic
   links in the model).  An `include_file` string is given split at "/" (harness). *)
Definition path := list string.
Definition path_eqb (a b : path) : bool := list_eqb String.eqb a b.
Definition mem_path (p : path) (l : list path) : bool := existsb (path_eqb p) l.

(* d is a proper prefix of p *)
Fixpoint proper_prefix (d p : path) : bool :=
  match d, p with
  | [], _ :: _ => true
  | x :: d', y :: p' => String.eqb x y && proper_prefix d' p'
  | _, _ => false
  end.

Section FsModel.
  Variables P F V : Type.

  Inductive fsfile :=
  | FsFile (incs : list (list string)) (opts : list (optdecl V)) (macs : list (string * macro P F))
           (stmts : list (stmt P F)).

  (* the regular files below the main recipe's directory; directories exist iff a file lies below *)
  Definition fsys := list (path * fsfile).

  Fixpoint fs_lookup (p : path) (fs : fsys) : option fsfile :=
    match fs with
    | [] => None
    | (q, f) :: r => if path_eqb q p then Some f else fs_lookup p r
    end.

  Definition fs_paths (fs : fsys) : list path := map fst fs.

  Definition is_dir (fs : fsys) (d : path) : bool :=
    existsb (fun e => proper_prefix d (fst e)) fs.

  (* pathlib: Path("a//./b") drops empty and "." segments (".." is kept) *)
  Definition pure_segs (segs : list string) : list string :=
    filter (fun s => negb (String.eqb s "" || String.eqb s ".")) segs.

  (* the operating system follows the segments from directory cur: every segment that is
     followed by another one must be an existing directory; ".." leaves the directory *)
  Inductive walked := WPath (p : path) | WMissing | WEscape.

  Fixpoint walk (fs : fsys) (cur : path) (segs : list string) : walked :=
    match segs with
    | [] => WPath cur
    | s :: r =>
      if String.eqb s ".." then
        match cur with
        | [] => WEscape                           (* above the modelled directory *)
        | _ :: _ => walk fs (removelast cur) r
        end
      else
        match r with
        | [] => WPath (cur ++ [s])
        | _ :: _ => if is_dir fs (cur ++ [s]) then walk fs (cur ++ [s]) r else WMissing
        end
    end.

  (* where `include_file: rel` written in file p points to *)
  Definition resolve_include (fs : fsys) (p : path) (rel : list string) : walked :=
    walk fs (removelast p) (pure_segs rel).

  (* parse_included_files: for fi in file_inclusions: templates.extend(parse_included_file(...));
     `rec` is parse_file on the included path *)
  Fixpoint fs_incs {A} (fs : fsys) (p : path) (stack : list path) (rec : path -> result A)
           (l : list (list string)) : result (list A) :=
    match l with
    | [] => Ok []
    | rel :: r =>
      match resolve_include fs p rel with
      | WEscape => Err Unsupported
      | WMissing => Err (DGE "Cannot load include file")
      | WPath q =>
        match fs_lookup q fs with
        | None => Err (DGE "Cannot load include file")
        | Some _ =>
          if path_eqb q p || mem_path q stack then Err (DGE "Include file includes itself")
          else do a <- rec q; do rest <- fs_incs fs p stack rec r; Ok (a :: rest)
        end
      end
    end.

  Fixpoint concat3 (parts : list (flat3 P F V)) : flat3 P F V :=
    match parts with
    | [] => ([], [], [])
    | (s1, o1, m1) :: r => let '(s2, o2, m2) := concat3 r in (s1 ++ s2, o1 ++ o2, m1 ++ m2)
    end.

  (* parse_file(path) with context.inclusion_stack = stack: what the file contributes to
     (statements, context.options, context.macros).  fuel bounds the nesting depth;
     S (number of files) always suffices (MacrosP.fs_fuel_enough). *)
  Fixpoint fs_flatten (fuel : nat) (fs : fsys) (stack : list path) (p : path)
    : result (flat3 P F V) :=
    match fuel with
    | O => Err OutOfFuel
    | S k =>
      match fs_lookup p fs with
      | None => Err (DGE "Cannot load include file")
      | Some (FsFile incs opts macs stmts) =>
        do parts <- fs_incs fs p stack (fs_flatten k fs (stack ++ [p])) incs;
        let '(s, o, m) := concat3 parts in
        Ok (s ++ stmts, o ++ opts, m ++ macs)
      end
    end.

  Definition fs_fuel (fs : fsys) : nat := S (length fs).

  (* parse_recipe on the file system *)
  Definition fs_parse_recipe (fs : fsys) (main : path)
    : result (list (pstmt P F) * list (optdecl V)) :=
    do '(s, o, m) <- fs_flatten (fs_fuel fs) fs [] main;
    do ps <- parse_stmts m s;
    Ok (ps, o).

  (* specification: the tree of files that following the include_file lines unfolds to
     (the representation the theorems about `flatten` speak of) *)
  Fixpoint fs_tree (fuel : nat) (fs : fsys) (stack : list path) (p : path)
    : result (file P F V) :=
    match fuel with
    | O => Err OutOfFuel
    | S k =>
      match fs_lookup p fs with
      | None => Err (DGE "Cannot load include file")
      | Some (FsFile incs opts macs stmts) =>
        do gs <- fs_incs fs p stack (fs_tree k fs (stack ++ [p])) incs;
        Ok (File (map Some gs) opts macs stmts)
      end
    end.

  (* the whole tree moved below directory `pre` *)
  Definition relocate (pre : path) (fs : fsys) : fsys :=
    map (fun e => (pre ++ fst e, snd e)) fs.
End FsModel.

Arguments FsFile {P F V} incs opts macs stmts.

(* ------------------------------------------------------------------ correspondence cases *)
(* Concrete instance: definitions and friends are canonical renderings (strings). *)
Inductive oval := VNone | VBool (b : bool) | VInt (z : Z) | VStr (s : string).

Definition oval_eqb (a b : oval) : bool :=
  match a, b with
  | VNone, VNone => true
  | VBool x, VBool y => Bool.eqb x y
  | VInt x, VInt y => Z.eqb x y
  | VStr x, VStr y => String.eqb x y
  | _, _ => false
  end.

Definition pair_eqb {A B} (ea : A -> A -> bool) (eb : B -> B -> bool) (x y : A * B) : bool :=
  ea (fst x) (fst y) && eb (snd x) (snd y).

Definition pstmt_eqb (a b : pstmt string string) : bool :=
  match a, b with
  | PObj t fs fr, PObj t' fs' fr' =>
    String.eqb t t' && list_eqb (pair_eqb String.eqb String.eqb) fs fs' && list_eqb String.eqb fr fr'
  | PVar n v, PVar n' v' => String.eqb n n' && String.eqb v v'
  | _, _ => false
  end.

Definition optdecl_eqb (a b : optdecl oval) : bool :=
  String.eqb (o_name a) (o_name b) && option_eqb oval_eqb (o_default a) (o_default b).

Definition subset (a b : list string) : bool := forallb (fun k => mem k b) a.
Definition set_eqb (a b : list string) : bool := subset a b && subset b a.

(* dicts compared as finite maps (insertion order is not an observable of the property) *)
Definition dict_eqb (a b : list (string * oval)) : bool :=
  set_eqb (names a) (names b) &&
  forallb (fun k => option_eqb oval_eqb (lookup k a) (lookup k b)) (names a).

Inductive case :=
(* parse_recipe on a file tree: expected (statements, options) *)
| CParse (f : file string string oval)
         (expected : result (list (pstmt string string) * list (optdecl oval)))
(* merge_options(decls, user, {}): expected (options items, extra option names as a set) *)
| CMerge (decls : list (optdecl oval)) (user : list (string * oval))
         (expected : result (list (string * oval) * list string))
(* ${{name}} at several places of one run: the options layer is merge_options' result, the
   other layers are given per place; `allowed` = the values of the entries of the layers whose
   rendering equals what the implementation showed (opaque objects: VStr "?<layer>") *)
| CSeen (decls : list (optdecl oval)) (user : list (string * oval))
        (probes : list (scopes oval * string * list oval))
(* parse_recipe on file systems (several runs of one process): expected (statements, options) *)
| CFs (runs : list (fsys string string oval * path *
                    result (list (pstmt string string) * list (optdecl oval))))
(* a chain of runs (continued or fresh): per link, the typed value ${{name}} showed for every
   declared option, or the error of the run *)
| CChain (links : list (link oval)) (expected : list (result (list (string * oval)))).

Definition check_case (c : case) : bool :=
  match c with
  | CParse f e =>
    result_eqb (pair_eqb (list_eqb pstmt_eqb) (list_eqb optdecl_eqb)) (parse_recipe f) e
  | CMerge decls user e =>
    result_eqb (pair_eqb dict_eqb set_eqb)
               (merge_options decls user []) e
  | CSeen decls user probes =>
    match merge_options decls user [] with
    | Err _ => false
    | Ok (o, _) =>
      forallb (fun pr : scopes oval * string * list oval =>
                 let '(s, n, allowed) := pr in
                 match resolve n (with_options s o) with
                 | Some v => existsb (oval_eqb v) allowed
                 | None => existsb (oval_eqb (VStr "?undefined")) allowed
                 end) probes
    end
  | CFs runs =>
    forallb (fun r : fsys string string oval * path *
                     result (list (pstmt string string) * list (optdecl oval)) =>
               let '(fs, main, e) := r in
               result_eqb (pair_eqb (list_eqb pstmt_eqb) (list_eqb optdecl_eqb))
                          (fs_parse_recipe fs main) e) runs
  | CChain links e =>
    list_eqb (result_eqb dict_eqb) (chain_options None links) e
  end.
