(* Macros.v — model of Snowfakery's composition features (property C14).

   snowfakery/parse_recipe_yaml.py
     _dedupe_field_list            list({f.name: f for f in fields}.values())
     include_macro / parse_inclusions   recursive macro expansion, parent_macros cycle check
     parse_object_template         fields = dedupe (macro fields ++ own fields)
     parse_included_files / parse_top_level_elements / parse_file / parse_recipe
                                   included files first, statements / options / macros merged
   snowfakery/data_generator.py
     merge_options                 user value, else declared default, else DataGenNameError

   What is opaque here (type parameters, the model never looks inside):
     P  a field definition (SimpleValue / StructuredValue / nested template) as written in YAML
     F  a friend statement as written in YAML (parsed independently of where it is placed)
     V  an option value
   The `include:` string of a template/macro is represented by the list of names obtained by
   `[x.strip() for x in s.split(",")]` minus the empty ones (done by the harness; a change in
   that splitting shows up as a correspondence disagreement).                                 *)
From SFV Require Import Base.

Set Implicit Arguments.

(* ------------------------------------------------------------------ Python dicts *)
(* A dict with string keys, as the list of its items in insertion order. *)
Section Dict.
  Variable V : Type.
  Definition dict := list (string * V).

  Definition names (d : dict) : list string := map fst d.

  (* d[k] = v : overwrite in place (position kept) or append *)
  Fixpoint dict_set (d : dict) (k : string) (v : V) : dict :=
    match d with
    | [] => [(k, v)]
    | (k', v') :: r => if String.eqb k' k then (k', v) :: r else (k', v') :: dict_set r k v
    end.

  (* d.get(k) *)
  Fixpoint lookup (k : string) (d : dict) : option V :=
    match d with
    | [] => None
    | (k', v) :: r => if String.eqb k' k then Some v else lookup k r
    end.

  (* {k: v for (k, v) in l} starting from the dict d   (also: d.update(l)) *)
  Definition dict_update (d : dict) (l : list (string * V)) : dict :=
    fold_left (fun acc kv => dict_set acc (fst kv) (snd kv)) l d.

  (* _dedupe_field_list: list({f.name: f for f in fields}.values()) *)
  Definition dedupe (l : list (string * V)) : dict := dict_update [] l.

  (* specification vocabulary (not used by the executable model) *)
  Fixpoint last_lookup (k : string) (l : list (string * V)) : option V :=
    match l with
    | [] => None
    | (k', v) :: r =>
      match last_lookup k r with
      | Some x => Some x
      | None => if String.eqb k' k then Some v else None
      end
    end.
End Dict.

Definition mem (k : string) (l : list string) : bool := existsb (String.eqb k) l.

(* the distinct names of a list in order of first occurrence *)
Fixpoint first_occurrences (ns : list string) : list string :=
  match ns with
  | [] => []
  | n :: r => n :: filter (fun m => negb (String.eqb m n)) (first_occurrences r)
  end.

(* ------------------------------------------------------------------ recipes *)
Section Model.
  Variables P F V : Type.

  Definition field := (string * P)%type.

  (* - macro: name / include: "a, b" / fields: {...} / friends: [...] *)
  Record macro := mkMacro {
    m_include : list string;
    m_fields : list field;
    m_friends : list F
  }.

  (* context.macros after all files have been read: definitions in the order in which
     `context.macros.update` saw them; a later definition of a name replaces an earlier one *)
  Definition menv := list (string * macro).
  Definition find_macro (name : string) (env : menv) : option macro := last_lookup name env.

  Inductive stmt :=
  | SObj (table : string) (include : list string) (fields : list field) (friends : list F)
  | SVar (name : string) (value : P).

  (* what the parser produces: ObjectTemplate(tablename, fields, friends) / VariableDefinition *)
  Inductive pstmt :=
  | PObj (table : string) (fields : list field) (friends : list F)
  | PVar (name : string) (value : P).

  (* - option: name [default: v] *)
  Record optdecl := mkOpt { o_name : string; o_default : option V }.

  (* ---------------- parse_inclusions: for inclusion in names: extend fields, friends *)
  Fixpoint incl_all (f : string -> result (list field * list F)) (ns : list string)
    : result (list field * list F) :=
    match ns with
    | [] => Ok ([], [])
    | n :: r =>
      do '(fs, fr) <- f n;
      do '(fs', fr') <- incl_all f r;
      Ok (fs ++ fs', fr ++ fr')
    end.

  (* ---------------- include_macro(name, context, parent_macros)
     fuel bounds the recursion depth; S (length env) always suffices (MacrosP.expand_fuel_ok) *)
  Fixpoint expand (fuel : nat) (env : menv) (parents : list string) (name : string)
    : result (list field * list F) :=
    match fuel with
    | O => Err OutOfFuel
    | S n =>
      match find_macro name env with
      | None => Err (DGE "Cannot find macro")                 (* DataGenNameError *)
      | Some m =>
        if mem name parents then Err (DGE "Macro calls itself") (* DataGenError *)
        else
          do '(fs, fr) <- incl_all (expand n env (parents ++ [name])) (m_include m);
          Ok (dedupe (fs ++ m_fields m), fr ++ m_friends m)
      end
    end.

  Definition macro_fuel (env : menv) : nat := S (length env).

  (* parse_inclusions(yaml_sobj, fields, friends, context) at template level: parent_macros=() *)
  Definition expand_includes (env : menv) (ns : list string) : result (list field * list F) :=
    incl_all (expand (macro_fuel env) env []) ns.

  (* parse_object_template / parse_variable_definition *)
  Definition parse_stmt (env : menv) (s : stmt) : result pstmt :=
    match s with
    | SObj t inc own fr_own =>
      do '(fs, fr) <- expand_includes env inc;
      Ok (PObj t (dedupe (fs ++ own)) (fr ++ fr_own))
    | SVar n v => Ok (PVar n v)
    end.

  Fixpoint parse_stmts (env : menv) (l : list stmt) : result (list pstmt) :=
    match l with
    | [] => Ok []
    | s :: r => do p <- parse_stmt env s; do ps <- parse_stmts env r; Ok (p :: ps)
    end.

  (* ---------------- specification: the same expansion WITHOUT the intermediate
     de-duplication, i.e. the raw macro fields in inclusion order (included macros first,
     then the macro's own fields).  MacrosP.expand_flat relates the two. *)
  Fixpoint flat (fuel : nat) (env : menv) (parents : list string) (name : string)
    : result (list field * list F) :=
    match fuel with
    | O => Err OutOfFuel
    | S n =>
      match find_macro name env with
      | None => Err (DGE "Cannot find macro")
      | Some m =>
        if mem name parents then Err (DGE "Macro calls itself")
        else
          do '(fs, fr) <- incl_all (flat n env (parents ++ [name])) (m_include m);
          Ok (fs ++ m_fields m, fr ++ m_friends m)
      end
    end.

  Definition flat_includes (env : menv) (ns : list string) : result (list field * list F) :=
    incl_all (flat (macro_fuel env) env []) ns.

  (* ---------------- files *)
  (* One recipe file: its `include_file` entries (None = the file does not exist), option
     declarations, macros and statements, each in file order (categorize_top_level_objects
     separates the categories; their interleaving is irrelevant).  The include graph is a tree
     here: a file included twice is parsed twice (as in the code); a file that includes itself
     has no representation (the code recurses until Python gives up). *)
  Inductive file :=
  | File (incs : list (option file)) (opts : list optdecl) (macs : list (string * macro))
         (stmts : list stmt).

  Definition flat3 := (list stmt * list optdecl * menv)%type.

  (* parse_file / parse_top_level_elements: what the file contributes to
     (statements, context.options, context.macros); included files first *)
  Fixpoint flatten (f : file) : result flat3 :=
    match f with
    | File incs opts macs stmts =>
      do '(s, o, m) <-
         (fix go (l : list (option file)) : result flat3 :=
            match l with
            | [] => Ok ([], [], [])
            | None :: _ => Err (DGE "Cannot load include file")
            | Some g :: r =>
              do '(s1, o1, m1) <- flatten g;
              do '(s2, o2, m2) <- go r;
              Ok (s1 ++ s2, o1 ++ o2, m1 ++ m2)
            end) incs;
      Ok (s ++ stmts, o ++ opts, m ++ macs)
    end.

  (* the same loop as a top-level function, for statements about it *)
  Fixpoint flatten_incs (l : list (option file)) : result flat3 :=
    match l with
    | [] => Ok ([], [], [])
    | None :: _ => Err (DGE "Cannot load include file")
    | Some g :: r =>
      do '(s1, o1, m1) <- flatten g;
      do '(s2, o2, m2) <- flatten_incs r;
      Ok (s1 ++ s2, o1 ++ o2, m1 ++ m2)
    end.

  (* parse_recipe: ParseResult.statements and ParseResult.options *)
  Definition parse_recipe (f : file) : result (list pstmt * list optdecl) :=
    do '(s, o, m) <- flatten f;
    do ps <- parse_stmts m s;
    Ok (ps, o).

  (* ---------------- merge_options(option_definitions, user_options, raw_plugin_options) *)
  Fixpoint merge_loop (decls : list optdecl) (user : dict V) (options : dict V)
    : result (dict V) :=
    match decls with
    | [] => Ok options
    | d :: r =>
      match lookup (o_name d) user with
      | Some v => merge_loop r user (dict_set options (o_name d) v)   (* name in user_options *)
      | None =>
        match o_default d with
        | Some v => merge_loop r user (dict_set options (o_name d) v) (* "default" in option *)
        | None => Err (DGE "No definition supplied for option")
        end
      end
    end.

  (* returns (options, extra_options); extra_options is a set in the code *)
  Definition merge_options (decls : list optdecl) (user : dict V) (plugin : dict V)
    : result (dict V * list string) :=
    do o <- merge_loop decls user plugin;
    Ok (o, filter (fun k => negb (mem k (names o))) (names user)).

  (* the default written in the last declaration of an option *)
  Fixpoint last_decl (k : string) (decls : list optdecl) : option optdecl :=
    match decls with
    | [] => None
    | d :: r =>
      match last_decl k r with
      | Some x => Some x
      | None => if String.eqb (o_name d) k then Some d else None
      end
    end.
End Model.

Arguments SVar {P F} name value.
Arguments PVar {P F} name value.
Arguments File {P F V} incs opts macs stmts.
Arguments mkOpt {V} o_name o_default.

(* ------------------------------------------------------------------ correspondence cases *)
(* Concrete instance: definitions and friends are canonical renderings (strings). *)
Inductive oval := VNone | VBool (b : bool) | VInt (z : Z) | VStr (s : string).

Definition oval_eqb (a b : oval) : bool :=
  match a, b with
  | VNone, VNone => true
  | VBool x, VBool y => Bool.eqb x y
  | VInt x, VInt y => Z.eqb x y
  | VStr x, VStr y => String.eqb x y
  | _, _ => false
  end.

Definition pair_eqb {A B} (ea : A -> A -> bool) (eb : B -> B -> bool) (x y : A * B) : bool :=
  ea (fst x) (fst y) && eb (snd x) (snd y).

Definition pstmt_eqb (a b : pstmt string string) : bool :=
  match a, b with
  | PObj t fs fr, PObj t' fs' fr' =>
    String.eqb t t' && list_eqb (pair_eqb String.eqb String.eqb) fs fs' && list_eqb String.eqb fr fr'
  | PVar n v, PVar n' v' => String.eqb n n' && String.eqb v v'
  | _, _ => false
  end.

Definition optdecl_eqb (a b : optdecl oval) : bool :=
  String.eqb (o_name a) (o_name b) && option_eqb oval_eqb (o_default a) (o_default b).

Definition subset (a b : list string) : bool := forallb (fun k => mem k b) a.
Definition set_eqb (a b : list string) : bool := subset a b && subset b a.

(* dicts compared as finite maps (insertion order is not an observable of the property) *)
Definition dict_eqb (a b : list (string * oval)) : bool :=
  set_eqb (names a) (names b) &&
  forallb (fun k => option_eqb oval_eqb (lookup k a) (lookup k b)) (names a).

Inductive case :=
(* parse_recipe on a file tree: expected (statements, options) *)
| CParse (f : file string string oval)
         (expected : result (list (pstmt string string) * list (optdecl oval)))
(* merge_options(decls, user, {}): expected (options items, extra option names as a set) *)
| CMerge (decls : list (optdecl oval)) (user : list (string * oval))
         (expected : result (list (string * oval) * list string)).

Definition check_case (c : case) : bool :=
  match c with
  | CParse f e =>
    result_eqb (pair_eqb (list_eqb pstmt_eqb) (list_eqb optdecl_eqb)) (parse_recipe f) e
  | CMerge decls user e =>
    result_eqb (pair_eqb dict_eqb set_eqb)
               (merge_options decls user []) e
  end.
