(* RandFuncs.v — model of the bounded random template functions (property C11).

   snowfakery/template_funcs.py: random_number (197-199), random_choice / choice /
   weighted_choice / parse_weight_str (30-49, 245-312), date_between (156-175),
   datetime / datetime_between / parse_datetimespec / parse_date (52-81, 124-154, 177-189),
   snowfakery/fakedata/fake_data_generator.py: _normalize_timezone.

   Third-party code the functions delegate to is transcribed (and named as such):
   CPython 3.12 random.randrange / random.choice / random.choices (+ bisect_right),
   Faker 40 Provider.date_between / date_time_between / _parse_date / _parse_date_string.

   Random draws are never computed: every row receives one draw from outside
   ([option Z]: None = no draw available).  A draw is the value of _randbelow(n) for
   randrange / choice, and the numerator of random() = num/den for choices / uniform.
   Weights are integers (numerators over a common denominator: the algorithm is scale
   invariant); times are integers (microseconds / seconds / day numbers since 1970-01-01). *)
From SFV Require Import Base.

Definition US : Z := 1000000.            (* microseconds per second *)
Definition DAY : Z := 86400.             (* seconds per day *)
Definition DAYUS : Z := 86400000000.     (* microseconds per day *)

Definition value_error {A} : result A := Err (Internal "ValueError").
Definition type_error {A} : result A := Err (Internal "TypeError").
Definition index_error {A} : result A := Err (Internal "IndexError").

(* a draw that must lie in [0, n) *)
Definition draw_below {A} (d : option Z) (n : Z) (k : Z -> result A) : result A :=
  match d with
  | None => Err BadOracle
  | Some v => if (0 <=? v) && (v <? n) then k v else Err BadOracle
  end.

(* ------------------------------------------------------------------ random_number *)

(* CPython random.randrange(start, stop, step): the number n of lattice points, or ValueError *)
Definition randrange_n (a b step : Z) : result Z :=
  let width := b - a in
  if step =? 1 then (if 0 <? width then Ok width else value_error)
  else if 0 <? step then
    let n := (width + step - 1) / step in if n <=? 0 then value_error else Ok n
  else if step <? 0 then
    let n := (width + step + 1) / step in if n <=? 0 then value_error else Ok n
  else value_error.

(* istart + istep * self._randbelow(n) *)
Definition randrange (a b step : Z) (d : option Z) : result Z :=
  do n <- randrange_n a b step;
  draw_below d n (fun k => Ok (a + step * k)).

(* template_funcs.py:197-199 *)
Definition random_number (mn mx step : Z) (d : option Z) : result Z :=
  randrange mn (mx + 1) step d.

(* the lattice of the property statement (step >= 1) *)
Definition on_lattice (mn mx step v : Z) : bool :=
  (mn <=? v) && (v <=? mx) && ((v - mn) mod step =? 0).

(* decidable "some draw produces v", for every step *)
Definition number_possible (mn mx step v : Z) : bool :=
  match randrange_n mn (mx + 1) step with
  | Ok n => let k := (v - mn) / step in (mn + step * k =? v) && (0 <=? k) && (k <? n)
  | Err _ => false
  end.

(* ------------------------------------------------------------------ random_choice *)

Inductive rc_args :=
| RCList (opts : list Z)                       (* - a  - b  - c                          *)
| RCChoices (items : list (option Z * Z))      (* - choice: {probability: p, pick: o}    *)
| RCDict (items : list (Z * Z)).               (* {o: weight, ...}  as (label, weight)   *)

(* choice(pick, probability): `if probability is not None: return parse_weight_str(...), pick`
   else `return when, pick` with when = None: only an absent probability gives the weight None *)
Definition choice_weight (p : option Z) : option Z :=
  match p with
  | Some w => Some w
  | None => None
  end.

(* itertools.accumulate over the weights; a None weight raises TypeError (at the addition,
   or at `cum_weights[-1] + 0.0` for a single item) *)
Fixpoint accumulate (acc : Z) (ws : list (option Z)) : result (list Z) :=
  match ws with
  | [] => Ok []
  | None :: _ => type_error
  | Some w :: r => do t <- accumulate (acc + w) r; Ok ((acc + w) :: t)
  end.

Fixpoint last_opt {A} (l : list A) : option A :=
  match l with [] => None | [x] => Some x | _ :: r => last_opt r end.

(* x < cum[i] where x = xn / den *)
Definition lt_at (cum : list Z) (xn den : Z) (i : Z) : result bool :=
  match nth_error cum (Z.to_nat i) with
  | Some c => Ok (xn <? c * den)
  | None => index_error
  end.

(* bisect.bisect_right(cum, x, lo, hi): the binary search itself *)
Fixpoint bisect_right (fuel : nat) (cum : list Z) (xn den lo hi : Z) : result Z :=
  match fuel with
  | O => Err OutOfFuel
  | S f =>
    if lo <? hi then
      let mid := (lo + hi) / 2 in
      do b <- lt_at cum xn den mid;
      if b then bisect_right f cum xn den lo mid
      else bisect_right f cum xn den (mid + 1) hi
    else Ok lo
  end.

(* random.choices(options, weights, k=1)[0]; the draw is random() = num / den *)
Definition weighted_choice (ws : list (option Z)) (opts : list Z) (d : option Z) (den : Z)
  : result Z :=
  do cum <- accumulate 0 ws;
  match last_opt cum with
  | None => index_error
  | Some total =>
    if total <=? 0 then value_error          (* Total of weights must be greater than zero *)
    else draw_below d den (fun num =>
      do i <- bisect_right (S (length cum)) cum (num * total) den 0 (Z.of_nat (length cum) - 1);
      match nth_error opts (Z.to_nat i) with Some o => Ok o | None => index_error end)
  end.

(* template_funcs.py:245-300 (pick items are plain labels) *)
Definition random_choice (a : rc_args) (d : option Z) (den : Z) : result Z :=
  match a with
  | RCList [] => value_error                   (* No choices supplied! *)
  | RCList opts =>
    draw_below d (Z.of_nat (length opts)) (fun k =>
      match nth_error opts (Z.to_nat k) with Some o => Ok o | None => index_error end)
  | RCChoices [] => value_error
  | RCChoices items =>
    weighted_choice (map (fun it => choice_weight (fst it)) items) (map snd items) d den
  | RCDict [] => value_error
  | RCDict items =>
    weighted_choice (map (fun it => Some (snd it)) items) (map fst items) d den
  end.

(* the weight vector random.choices receives, and the option labels *)
Definition rc_weights (a : rc_args) : list (option Z) :=
  match a with
  | RCList opts => map (fun _ => Some 1) opts
  | RCChoices items => map (fun it => choice_weight (fst it)) items
  | RCDict items => map (fun it => Some (snd it)) items
  end.
Definition rc_options (a : rc_args) : list Z :=
  match a with
  | RCList opts => opts
  | RCChoices items => map snd items
  | RCDict items => map fst items
  end.

(* v is listed with a positive weight at some position *)
Fixpoint listed_positive (ws : list (option Z)) (opts : list Z) (v : Z) : bool :=
  match ws, opts with
  | Some w :: ws', o :: opts' => ((0 <? w) && (o =? v)) || listed_positive ws' opts' v
  | None :: ws', _ :: opts' => listed_positive ws' opts' v
  | _, _ => false
  end.

Definition choice_possible (a : rc_args) (v : Z) : bool :=
  listed_positive (rc_weights a) (rc_options a) v.


(* ------------------------------------------------------------------ the text of the weights *)

(* template_funcs.py:30-42 parse_weight_str: the probability as the user wrote it (after the
   formula, if any, was evaluated for the row at hand) is an int, a float (given here by its
   decimal text) or a string; a string loses its trailing '%' characters and goes through
   Python's float(): optional blanks, optional sign, digits with an optional decimal point.
   Exponents, underscores, inf / nan are valid for float() but not modelled: Unsupported. *)
Inductive wtok := WInt (z : Z) | WFlt (s : string) | WStr (s : string).

(* a decimal number: dnum / 10^dplaces *)
Record dec := mkDec { dnum : Z; dplaces : nat }.

Definition chars (s : string) : list ascii := list_ascii_of_string s.

Definition digit_val (c : ascii) : option Z :=
  match c with
  | "0"%char => Some 0 | "1"%char => Some 1 | "2"%char => Some 2 | "3"%char => Some 3
  | "4"%char => Some 4 | "5"%char => Some 5 | "6"%char => Some 6 | "7"%char => Some 7
  | "8"%char => Some 8 | "9"%char => Some 9 | _ => None
  end.

Definition sign_of (c : ascii) : option Z :=
  match c with "+"%char => Some 1 | "-"%char => Some (-1) | _ => None end.

(* the longest run of digits at the head: (value continuing acc, number of digits, rest) *)
Fixpoint take_digits (cs : list ascii) (acc : Z) (n : nat) : Z * nat * list ascii :=
  match cs with
  | c :: r =>
    match digit_val c with
    | Some v => take_digits r (acc * 10 + v) (S n)
    | None => (acc, n, cs)
    end
  | [] => (acc, n, [])
  end.

(* the number a digit string denotes, continuing acc (used to state what the parsers compute) *)
Fixpoint dval (acc : Z) (cs : list ascii) : Z :=
  match cs with
  | c :: r => match digit_val c with Some v => dval (acc * 10 + v) r | None => acc end
  | [] => acc
  end.
Definition is_digit (c : ascii) : bool := match digit_val c with Some _ => true | None => false end.
Definition all_digits (cs : list ascii) : bool := forallb is_digit cs.

Fixpoint drop_while (p : ascii -> bool) (cs : list ascii) : list ascii :=
  match cs with c :: r => if p c then drop_while p r else cs | [] => [] end.
Definition rstrip_chars (p : ascii -> bool) (cs : list ascii) : list ascii :=
  rev (drop_while p (rev cs)).
Definition is_blank (c : ascii) : bool := match c with " "%char => true | _ => false end.
Definition is_pct (c : ascii) : bool := match c with "%"%char => true | _ => false end.
Definition is_point (c : ascii) : bool := match c with "."%char => true | _ => false end.

Definition weight_char (c : ascii) : bool :=
  match digit_val c, sign_of c with
  | Some _, _ | _, Some _ => true
  | None, None => is_blank c || is_pct c || is_point c
  end.

(* Python float(text) on the modelled alphabet *)
Definition parse_decimal (cs0 : list ascii) : result dec :=
  if negb (forallb weight_char cs0) then Err Unsupported else
  let cs := rstrip_chars is_blank (drop_while is_blank cs0) in
  let '(sg, cs1) := match cs with
                    | c :: r => match sign_of c with Some s => (s, r) | None => (1, cs) end
                    | [] => (1, [])
                    end in
  let '(ip, ni, r1) := take_digits cs1 0 0 in
  match r1 with
  | [] => match ni with O => value_error | S _ => Ok (mkDec (sg * ip) 0) end
  | c :: r2 =>
    if is_point c then
      let '(fp, nf, r3) := take_digits r2 ip 0 in
      match r3 with
      | [] => match (ni + nf)%nat with O => value_error | S _ => Ok (mkDec (sg * fp) nf) end
      | _ :: _ => value_error
      end
    else value_error
  end.

Definition parse_weight_str (t : wtok) : result dec :=
  match t with
  | WInt z => Ok (mkDec z 0)
  | WFlt s => parse_decimal (chars s)
  | WStr s => parse_decimal (rstrip_chars is_pct (chars s))
  end.

(* choice(pick, probability): an absent probability stays None *)
Fixpoint parse_weights (ts : list (option wtok)) : result (list (option dec)) :=
  match ts with
  | [] => Ok []
  | None :: r => do ws <- parse_weights r; Ok (None :: ws)
  | Some t :: r => do w <- parse_weight_str t; do ws <- parse_weights r; Ok (Some w :: ws)
  end.

(* random.choices is invariant under a common positive factor of the weights
   (C11_weighted_choice_scale_invariant): the decimals are brought to one denominator *)
Definition pow10 (n : nat) : Z := 10 ^ Z.of_nat n.
Fixpoint max_places (ws : list (option dec)) : nat :=
  match ws with
  | [] => O
  | Some d :: r => Nat.max (dplaces d) (max_places r)
  | None :: r => max_places r
  end.
Definition scale_to (P : nat) (d : dec) : Z := dnum d * pow10 (P - dplaces d).
Definition scale_weights (ws : list (option dec)) : list (option Z) :=
  map (option_map (scale_to (max_places ws))) ws.

(* A `random_choice` block as it stands in the recipe: every probability is a literal or a
   formula of the row at hand, every pick a label or a formula.  A formula is represented by its
   value table over the row key (the value of the driving expression: id, child_index, a
   counter, a field of the parent ...).  The block is rendered anew for every row: the weights
   used for a row are a function of the block and that row's key, of nothing else. *)
Inductive wexpr := WLit (t : wtok) | WByKey (tab : list (Z * wtok)) (dflt : wtok).
Inductive pexpr := PLab (l : Z) | PKey (offset : Z).
Definition block := list (option wexpr * pexpr).

Definition eval_wexpr (k : Z) (e : wexpr) : wtok :=
  match e with
  | WLit t => t
  | WByKey tab dflt =>
    match find (fun p => fst p =? k) tab with Some p => snd p | None => dflt end
  end.
Definition eval_pexpr (k : Z) (p : pexpr) : Z :=
  match p with PLab l => l | PKey o => k + o end.

Definition block_toks (k : Z) (b : block) : list (option wtok) :=
  map (fun it => option_map (eval_wexpr k) (fst it)) b.
Definition block_labels (k : Z) (b : block) : list Z := map (fun it => eval_pexpr k (snd it)) b.

(* the (weight, pick) pairs random_choice hands to weighted_choice for the row with key k;
   the mapping form `L1: 60%` goes through the same parse_weight_str and weighted_choice *)
Definition render_block (k : Z) (b : block) : result rc_args :=
  do ws <- parse_weights (block_toks k b);
  Ok (RCChoices (combine (scale_weights ws) (block_labels k b))).

Definition run_block (b : block) (k : Z) (d : option Z) (den : Z) : result Z :=
  do a <- render_block k b; random_choice a d den.

Definition block_possible (b : block) (k : Z) (v : Z) : bool :=
  match render_block k b with Ok a => choice_possible a v | Err _ => false end.

(* ------------------------------------------------------------------ dates and datetimes *)

(* a date-time as the user wrote it: wall clock reading in microseconds (read as if UTC)
   and the UTC offset in seconds (None = naive) *)
Record stamp := mkStamp { wall : Z; off : option Z }.

(* the instant it denotes; parse_datetimespec reads a naive value as UTC *)
Definition instant (s : stamp) : Z :=
  wall s - match off s with Some o => o * US | None => 0 end.

Inductive spec :=
| SNow
| SToday
| SStamp (s : stamp)                 (* datetime object, or a string dateutil parses *)
| SDate (day : Z)                    (* date object *)
| SRel (y mo w d h mi s : Z)         (* Faker's "+1y-3d" strings *)
| SBad                               (* nothing parses it *)
| SUnsup.                            (* a text outside the grammar modelled by spec_of_text *)

Record clock := mkClock { now_us : Z; today : Z }.

(* Faker _parse_date_string + timedelta( **params ).days: years are 365.24 days, months 30.42
   days; timedelta normalises with floor.  (Exact arithmetic: the float computation agrees
   for |years|,|months| <= 60, checked exhaustively at design time.) *)
Definition rel_seconds (y mo w d h mi s : Z) : Z :=
  864 * (36524 * y + 3042 * mo) + 86400 * (7 * w + d) + 3600 * h + 60 * mi + s.
Definition rel_days (y mo w d h mi s : Z) : Z := rel_seconds y mo w d h mi s / DAY.

(* round-half-even of num/den (den > 0): datetime/timedelta rounding to microseconds *)
Definition rhe (num den : Z) : Z :=
  let q := num / den in
  let r := num mod den in
  if 2 * r <? den then q
  else if den <? 2 * r then q + 1
  else if Z.even q then q else q + 1.

(* try_parse_date + Faker _parse_date: the day number each bound denotes *)
Definition resolve_date (c : clock) (sp : spec) : result Z :=
  match sp with
  | SNow | SToday => Ok (today c)
  | SStamp s => Ok (wall s / DAYUS)                (* .date() of the value as written *)
  | SDate d => Ok d
  | SRel y mo w d h mi s => Ok (today c + rel_days y mo w d h mi s)
  | SBad => Err (Internal "ParseError")
  | SUnsup => Err Unsupported
  end.

(* Faker date_between_dates -> date_time_between_dates(tzinfo=None) -> .date(), local zone UTC:
   ts = uniform(a, b) = a + (b-a)*num/den seconds; ts >= 0: fromtimestamp (rounds to
   microseconds, half-even); ts < 0: epoch + timedelta(seconds=int(ts)) (truncates toward 0) *)
Definition faker_day_of (a b num den : Z) : Z :=
  let tn := a * den + (b - a) * num in
  if 0 <=? tn then rhe (tn * US) den / DAYUS
  else Z.quot tn den / DAY.

(* template_funcs.py:156-175; Ok None = the swallowed "empty range" *)
Definition date_between (c : clock) (s e : spec) (d : option Z) (den : Z) : result (option Z) :=
  do ds <- resolve_date c s;
  do de <- resolve_date c e;
  if de <? ds then Ok None
  else draw_below d den (fun num => Ok (Some (faker_day_of (ds * DAY) (de * DAY) num den))).

(* template_funcs.py:62-81 *)
Definition parse_datetimespec (c : clock) (sp : spec) : result stamp :=
  match sp with
  | SNow => Ok (mkStamp (now_us c) (Some 0))
  | SToday => Ok (mkStamp (today c * DAYUS) (Some 0))
  | SStamp s => Ok (match off s with None => mkStamp (wall s) (Some 0) | Some _ => s end)
  | SDate d => Ok (mkStamp (d * DAYUS) (Some 0))
  | SRel y mo w d h mi s =>                        (* Faker's syntax, relative to the clock reading:
                                                      now + timedelta(seconds=_parse_timedelta(d)) *)
    Ok (mkStamp (now_us c + rel_seconds y mo w d h mi s * US) (Some 0))
  | SBad => Err (Internal "ParserError")
  | SUnsup => Err Unsupported
  end.

(* template_funcs.py:124-157 with a datetimespec and the default timezone (UTC):
   parse_datetimespec always returns an aware value, so the branch taken is
   dt.astimezone(utc): the instant is kept, the reading is converted to UTC *)
Definition datetime_fn (c : clock) (sp : spec) : result stamp :=
  do s <- parse_datetimespec c sp;
  Ok (match off s with
      | None => mkStamp (wall s) (Some 0)          (* dt.replace(tzinfo=utc); not reached *)
      | Some _ => mkStamp (instant s) (Some 0)
      end).

Definition floor_sec (us : Z) : Z := us / US.

(* Faker date_time_between on timestamps a <= b (whole seconds; datetime_to_timestamp drops
   the microseconds): b - a <= 1: a + random(); else uniform(a, b); epoch + timedelta(seconds=ts)
   rounds to microseconds, half-even.  Result in microseconds. *)
Definition faker_dt_between (a b num den : Z) : Z :=
  if b - a <=? 1 then rhe ((a * den + num) * US) den
  else rhe ((a * den + (b - a) * num) * US) den.

(* how a bound is presented when it is returned: aware bounds are UTC; for timezone: False
   (Faker returns a naive UTC value) the bounds are made naive first *)
Definition bound_zone (tz : option Z) : option Z :=
  match tz with None => None | Some _ => Some 0 end.

(* min(max(rc, start), end) on datetimes: max returns rc unless start > rc, min returns that
   unless end is smaller; a clamped result is the bound itself *)
Definition clamp (rc lo hi : Z) (tz : option Z) : Z * option Z :=
  if rc <? lo then (if hi <? lo then (hi, bound_zone tz) else (lo, bound_zone tz))
  else if hi <? rc then (hi, bound_zone tz)
  else (rc, tz).

(* template_funcs.py:180-194; tz = offset (seconds) of the result's presentation zone,
   None for timezone: False (naive UTC result; the bounds are compared as naive UTC readings,
   i.e. still as instants).  Result: (instant in microseconds, presentation offset). *)
(* The clock is read once per bound (now / today / relative specs): cs is the reading used for
   the start bound, ce the later one used for the end bound. *)
Definition datetime_between (cs ce : clock) (s e : spec) (tz : option Z) (d : option Z) (den : Z)
  : result (Z * option Z) :=
  do s' <- datetime_fn cs s;
  do e' <- datetime_fn ce e;
  if instant e' <? instant s' then Err (DGE "End date is before start date")
  else draw_below d den (fun num =>
         let rc := faker_dt_between (floor_sec (instant s')) (floor_sec (instant e')) num den in
         Ok (clamp rc (instant s') (instant e') tz)).


(* ------------------------------------------------------------------ the text of the date bounds *)

(* Faker's DateProvider.regex, which template_funcs uses (fullmatch) to recognise a relative
   bound:  ((?P<years>(?:\+|-)\d+?)y)?((?P<months>...)M)?(...w)?(...d)?(...h)?(...m)?(...s)?
   every group optional, the sign mandatory, the units in this order, each at most once.  A
   group either matches at the current position (sign, digits, its unit letter) or is skipped;
   as the unit letters differ and are no digits, no other split of the text can match. *)
Definition rel_group (u : ascii) (cs : list ascii) : option Z * list ascii :=
  match cs with
  | c :: r =>
    match sign_of c with
    | Some sg =>
      match take_digits r 0 0 with
      | (v, S _, u' :: rest) => if Ascii.eqb u' u then (Some (sg * v), rest) else (None, cs)
      | _ => (None, cs)
      end
    | None => (None, cs)
    end
  | [] => (None, cs)
  end.

Definition rel_units : list ascii := ["y"; "M"; "w"; "d"; "h"; "m"; "s"]%char.

Fixpoint rel_groups (us : list ascii) (cs : list ascii) : list (option Z) * list ascii :=
  match us with
  | [] => ([], cs)
  | u :: us' =>
    let '(g, r) := rel_group u cs in
    let '(gs, r') := rel_groups us' r in (g :: gs, r')
  end.

(* regex.fullmatch(text).groupdict() as integers; None: no full match *)
Definition parse_rel (cs : list ascii) : option (list (option Z)) :=
  let '(gs, r) := rel_groups rel_units cs in
  match r with [] => Some gs | _ :: _ => None end.

Definition slot (gs : list (option Z)) (i : nat) : Z :=
  match nth i gs None with Some v => v | None => 0 end.

(* days since 1970-01-01 of a date of the proleptic Gregorian calendar (years counted from
   March: the leap day is the last day of the year) *)
Definition days_of_civil (y m d : Z) : Z :=
  let y' := if m <=? 2 then y - 1 else y in
  let era := y' / 400 in
  let yoe := y' - era * 400 in
  let mp := (m + 9) mod 12 in
  let doy := (153 * mp + 2) / 5 + d - 1 in
  let doe := yoe * 365 + yoe / 4 - yoe / 100 + doy in
  era * 146097 + doe - 719468.

Definition is_leap (y : Z) : bool :=
  ((y mod 4 =? 0) && negb (y mod 100 =? 0)) || (y mod 400 =? 0).
Definition days_in_month (y m : Z) : Z :=
  if m =? 2 then (if is_leap y then 29 else 28)
  else if (m =? 4) || (m =? 6) || (m =? 9) || (m =? 11) then 30 else 31.
Definition valid_date (y m d : Z) : bool :=
  (1 <=? y) && (y <=? 9999) && (1 <=? m) && (m <=? 12) && (1 <=? d) && (d <=? days_in_month y m).
Definition valid_time (h mi s : Z) : bool := (h <? 24) && (mi <? 60) && (s <? 60).

Definition obind {A B} (o : option A) (f : A -> option B) : option B :=
  match o with Some a => f a | None => None end.
Notation "'olet' x <- o ; k" := (obind o (fun x => k))
  (at level 200, x name, o at level 100, k at level 200).
Notation "'olet' ' p <- o ; k" := (obind o (fun x => let 'p := x in k))
  (at level 200, p pattern, o at level 100, k at level 200).

(* exactly n digits *)
Fixpoint take_n_digits (n : nat) (cs : list ascii) (acc : Z) : option (Z * list ascii) :=
  match n with
  | O => Some (acc, cs)
  | S k =>
    match cs with
    | c :: r => match digit_val c with Some v => take_n_digits k r (acc * 10 + v) | None => None end
    | [] => None
    end
  end.
Definition expect_char (c : ascii) (cs : list ascii) : option (list ascii) :=
  match cs with c' :: r => if Ascii.eqb c' c then Some r else None | [] => None end.

(* The ISO 8601 subset YAML (unquoted timestamps), dateutil (quoted bounds) and the JSON output
   (isoformat) have in common:  YYYY-MM-DD  and  YYYY-MM-DD(T| )HH:MM:SS[.f{1,6}][Z|(+|-)HH:MM] *)
Inductive iso :=
| IsoD (day : Z)
| IsoS (s : stamp)
| IsoBad           (* the shape is right, the fields are no date / time: every parser rejects *)
| IsoUnsup.        (* another shape: not modelled *)

Definition parse_zone (cs : list ascii) : option (option Z) :=
  match cs with
  | [] => Some None
  | ["Z"%char] => Some (Some 0)
  | c :: r =>
    olet sg <- sign_of c;
    olet '(hh, r) <- take_n_digits 2 r 0;
    olet r <- expect_char ":" r;
    olet '(mm, r) <- take_n_digits 2 r 0;
    match r with
    | [] => if (hh <? 24) && (mm <? 60) then Some (Some (sg * (hh * 3600 + mm * 60))) else None
    | _ :: _ => None
    end
  end.

Definition parse_fraction (cs : list ascii) : option (Z * list ascii) :=
  match cs with
  | c :: r =>
    if is_point c then
      let '(v, n, rest) := take_digits r 0 0 in
      if ((1 <=? n) && (n <=? 6))%nat then Some (v * pow10 (6 - n), rest) else None
    else Some (0, cs)
  | [] => Some (0, [])
  end.

Definition is_sep (c : ascii) : bool := match c with "T"%char | " "%char => true | _ => false end.

Definition parse_iso (cs : list ascii) : iso :=
  match (olet '(y, r) <- take_n_digits 4 cs 0;
         olet r <- expect_char "-" r;
         olet '(m, r) <- take_n_digits 2 r 0;
         olet r <- expect_char "-" r;
         olet '(d, r) <- take_n_digits 2 r 0;
         Some (y, m, d, r)) with
  | None => IsoUnsup
  | Some (y, m, d, []) => if valid_date y m d then IsoD (days_of_civil y m d) else IsoBad
  | Some (y, m, d, c :: r) =>
    if negb (is_sep c) then IsoUnsup else
    match (olet '(h, r) <- take_n_digits 2 r 0;
           olet r <- expect_char ":" r;
           olet '(mi, r) <- take_n_digits 2 r 0;
           olet r <- expect_char ":" r;
           olet '(s, r) <- take_n_digits 2 r 0;
           olet '(us, r) <- parse_fraction r;
           olet z <- parse_zone r;
           Some (h, mi, s, us, z)) with
    | None => IsoUnsup
    | Some (h, mi, s, us, z) =>
      if valid_date y m d && valid_time h mi s
      then IsoS (mkStamp ((days_of_civil y m d * DAY + h * 3600 + mi * 60 + s) * US + us) z)
      else IsoBad
    end
  end.

(* a bound as the text the user wrote (YAML or quoted string alike) *)
Definition spec_of_text (t : string) : spec :=
  if String.eqb t "now" then SNow
  else if String.eqb t "today" then SToday
  else match chars t with
       | [] => SBad
       | cs =>
         match parse_rel cs with
         | Some gs => SRel (slot gs 0) (slot gs 1) (slot gs 2) (slot gs 3) (slot gs 4) (slot gs 5) (slot gs 6)
         | None =>
           match parse_iso cs with
           | IsoD d => SDate d
           | IsoS s => SStamp s
           | IsoBad => SBad
           | IsoUnsup => SUnsup
           end
         end
       end.

(* ------------------------------------------------------------------ correspondence cases *)

Inductive value := VZ (z : Z) | VNull | VDT (us : Z) (o : option Z) | VBad.

(* a date / datetime as it is printed in the output *)
Definition value_of_text (t : string) : value :=
  match parse_iso (chars t) with
  | IsoD d => VZ d
  | IsoS s => VDT (instant s) (off s)
  | IsoBad | IsoUnsup => VBad
  end.

Inductive fn :=
| FNumber (mn mx step : Z)
| FChoice (a : rc_args)
| FBlock (b : block) (key : Z)
| FDate (c : clock) (s e : spec)
| FDateTime (cs ce : clock) (s e : spec) (tz : option Z).

Definition run_fn (f : fn) (d : option Z) (den : Z) : result value :=
  match f with
  | FNumber mn mx step => do v <- random_number mn mx step d; Ok (VZ v)
  | FChoice a => do v <- random_choice a d den; Ok (VZ v)
  | FBlock b k => do v <- run_block b k d den; Ok (VZ v)
  | FDate c s e =>
    do v <- date_between c s e d den;
    Ok (match v with Some day => VZ day | None => VNull end)
  | FDateTime cs ce s e tz =>
    do '(us, o) <- datetime_between cs ce s e tz d den; Ok (VDT us o)
  end.

(* the recipe interpreter turns every exception of a template function into a DataGenError *)
Definition through_recipe {A} (r : result A) : result A :=
  match r with
  | Err (Internal _) => Err (DGE "")
  | _ => r
  end.

Fixpoint run_rows_from (f : fn) (den : Z) (draws : list Z) (i : nat) (rows : nat)
  : result (list value) :=
  match rows with
  | O => Ok []
  | S r =>
    do v <- run_fn f (nth_error draws i) den;
    do rest <- run_rows_from f den draws (S i) r;
    Ok (v :: rest)
  end.
Definition run_rows (f : fn) (den : Z) (draws : list Z) (rows : nat) : result (list value) :=
  run_rows_from f den draws 0 rows.

(* widths requested from _randbelow, one per row (random_number, plain list) *)
Definition expected_width (f : fn) : option Z :=
  match f with
  | FNumber mn mx step =>
    match randrange_n mn (mx + 1) step with Ok n => Some n | Err _ => None end
  | FChoice (RCList opts) =>
    match opts with [] => None | _ :: _ => Some (Z.of_nat (length opts)) end
  | _ => None
  end.

Definition possible (f : fn) (v : value) : bool :=
  match f, v with
  | FNumber mn mx step, VZ x => number_possible mn mx step x
  | FChoice a, VZ x => choice_possible a x
  | FBlock b k, VZ x => block_possible b k x
  | FDate c s e, v =>
    match resolve_date c s, resolve_date c e with
    | Ok ds, Ok de =>
      match v with
      | VNull => de <? ds
      | VZ x => (ds <=? x) && (x <=? de)
      | _ => false
      end
    | _, _ => false
    end
  | FDateTime cs ce s e tz, VDT us o =>
    match datetime_fn cs s, datetime_fn ce e with
    | Ok s', Ok e' =>
      (instant s' <=? us) && (us <=? instant e') &&
      (option_eqb Z.eqb o tz ||
       (option_eqb Z.eqb o (bound_zone tz) && ((us =? instant s') || (us =? instant e'))))
    | _, _ => false
    end
  | _, _ => false
  end.

Definition value_eqb (a b : value) : bool :=
  match a, b with
  | VZ x, VZ y => x =? y
  | VNull, VNull => true
  | VDT u o, VDT u' o' => (u =? u') && option_eqb Z.eqb o o'
  | _, _ => false
  end.

Inductive case :=
(* injected draws: one per row; widths = what _randbelow was asked for (None: not observed) *)
| CInjected (f : fn) (den : Z) (draws : list Z) (rows : nat) (widths : option (list Z))
            (expected : result (list value))
(* free draws: every produced value must be one the model can produce *)
| CFree (f : fn) (vals : list value)
(* arguments that are formulas evaluated anew for every row (e.g. weights depending on `id`):
   one (function, draw, produced value) per row; and the free-draw variant *)
| CPerRow (den : Z) (rows : list (fn * Z * value))
| CPerRowFree (rows : list (fn * value))
(* random_choice blocks of one object rendered for many rows: per produced value the block it
   comes from, the key of its row, the draw (None: a free draw) and the value *)
| CBlocks (den : Z) (blks : list block) (rows : list (nat * Z * option Z * value)).

Definition check_case (c : case) : bool :=
  match c with
  | CInjected f den draws rows widths expected =>
    result_eqb (list_eqb value_eqb) (through_recipe (run_rows f den draws rows)) expected
    && match widths with
       | None => true
       | Some ws => forallb (fun w => option_eqb Z.eqb (Some w) (expected_width f)) ws
       end
  | CFree f vals => forallb (possible f) vals
  | CPerRow den rows =>
    forallb (fun r => let '(f, d, v) := r in
                      result_eqb value_eqb (through_recipe (run_fn f (Some d) den)) (Ok v)) rows
  | CPerRowFree rows => forallb (fun r => possible (fst r) (snd r)) rows
  | CBlocks den blks rows =>
    forallb (fun r => let '(i, k, d, v) := r in
                      match nth_error blks i, d with
                      | Some b, Some x =>
                        result_eqb value_eqb (through_recipe (run_fn (FBlock b k) (Some x) den)) (Ok v)
                      | Some b, None => possible (FBlock b k) v
                      | None, _ => false
                      end) rows
  end.

(* ------------------------------------------------------------------ round 5: the source of the draws *)

(* All bounded functions of one process draw from ONE generator, whose state comes from the entropy
   e the interpreter was started with and from everything the run executed before the draw.  For a
   fixed recipe and a fixed position of the run (table, row, field) that is a function
   `draw : entropy -> draw`.  A recipe feature that re-seeds the generator with a constant makes
   `draw` constant from there on. *)
Definition number_at (mn mx step : Z) (draw : Z -> Z) (e : Z) : result Z :=
  random_number mn mx step (Some (draw e)).

(* the values one position of the recipe shows over a list of fresh processes *)
Definition values_over (mn mx step : Z) (draw : Z -> Z) (es : list Z) : list (result Z) :=
  map (number_at mn mx step draw) es.

(* the harness's observable: the position shows the same value in every process *)
Definition stuck {A} (f : Z -> A) (es : list Z) : Prop :=
  forall e e', In e es -> In e' es -> f e = f e'.
