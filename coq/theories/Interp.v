(* Interp.v — SF-core: a definitional interpreter for the deterministic core language of
   Snowfakery recipes (properties C01, C02, C03, C04, C06, C09; DESIGN.md section 4.2).

   Transcribes, for the fragment stated by [Unsupported] below:
     data_generator_runtime.py  (IdManager, Transients, Globals, Interpreter loop,
                                 RuntimeContext, EvaluationNamespace)
     data_generator_runtime_object_model.py (ObjectTemplate, VariableDefinition, SimpleValue,
                                 StructuredValue for `reference`)
     object_rows.py             (ObjectRow, NicknameSlot)
     template_funcs.py          (reference / _reference_from_scalar)
     utils/template_utils.py    (look_for_number)
   plus Jinja's rendering of the formula fragment (integer arithmetic, names, attributes,
   text concatenation) in both dialects (snowfakery_version 2 and 3).

   Anything outside the fragment evaluates to [Err Unsupported]; the correspondence check
   skips such cases and reports how many there were.                                      *)
From Coq Require Import DecimalString.
From SFV Require Import Base RandRange RowHistory.

(* ------------------------------------------------------------------ syntax *)

Inductive expr :=
| EInt (z : Z)
| EVar (n : string)
| EAttr (e : expr) (f : string)
| EAdd (a b : expr) | ESub (a b : expr) | EMul (a b : expr).

Inductive piece := PText (s : string) | PExpr (e : expr).

Inductive fdef :=
| FLitInt (z : Z)                   (* SimpleValue holding a YAML int                    *)
| FLitStr (s : string)              (* SimpleValue holding a string without ${{ }}       *)
| FFormula (ps : list piece)        (* SimpleValue with template syntax                  *)
| FRef (path : string)              (* reference: a.b.c                                  *)
| FNested (t : template)            (* an object template as a value                     *)
| FRandRef (target : string)        (* random_reference: <name>  (default scope, not unique) *)
with template :=
| Tpl (table : string) (nick : option string) (count : option fdef) (just_once : bool)
      (fields : list (string * fdef)) (friends : list stmt)
with stmt :=
| SObj (t : template)
| SVar (n : string) (d : fdef).

Definition t_table (t : template) := let 'Tpl a _ _ _ _ _ := t in a.
Definition t_nick (t : template) := let 'Tpl _ a _ _ _ _ := t in a.
Definition t_count (t : template) := let 'Tpl _ _ a _ _ _ := t in a.
Definition t_once (t : template) := let 'Tpl _ _ _ a _ _ := t in a.
Definition t_fields (t : template) := let 'Tpl _ _ _ _ a _ := t in a.
Definition t_friends (t : template) := let 'Tpl _ _ _ _ _ a := t in a.

(* ------------------------------------------------------------------ values, rows, state *)

Inductive value :=
| VNull
| VInt (z : Z)
| VStr (s : string)
| VRow (h : nat)                    (* ObjectRow, by heap handle                         *)
| VSlot (name : string)             (* NicknameSlot (forward reference)                  *)
| VUndef                            (* jinja2.Undefined: lives inside formulas only      *)
| VRef (table : string) (id : Z).   (* LazyLoadedObjectReference from random_reference   *)

Record cell := mkCell {
  c_table : string; c_id : Z; c_index : Z;
  c_fields : list (string * value)  (* insertion order, "id" not included                *)
}.

Record slot := mkSlot { s_table : string; s_alloc : option Z; s_consumed : bool }.

Record frame := mkFrame { f_vars : list (string * value); f_obj : option nat }.

(* a value as delivered to write_row after flattening of references *)
Inductive ovalue := ONull | OInt (z : Z) | OStr (s : string) | ORef (table : string) (id : Z).
Definition orow := (string * list (string * ovalue))%type.

(* Interpreter.row_history (the kernel of RowHistory.v) and the stream of results of
   random.Random._randbelow still to be consumed (recorded from the implementation run) *)
Record rstate := mkR { hist : rh; draws : list Z }.

Record st := mkSt {
  ids : list (string * Z);                (* IdManager.last_used_ids                      *)
  slots : list (string * slot);                  (* Transients.named_slots                       *)
  nick_objs : list (string * nat);        (* Transients.nicknamed_objects                 *)
  last_by_table : list (string * nat);    (* Transients.last_seen_obj_by_table            *)
  p_nicks : list (string * nat);          (* Globals.persistent_nicknames                 *)
  p_tables : list (string * nat);         (* Globals.persistent_objects_by_table          *)
  heap : list cell;
  frames : list frame;                    (* RuntimeContext stack, head = current         *)
  deps : list (string * string * string); (* Globals.intertable_dependencies (ordered set)*)
  out : list orow;                        (* rows delivered to the output stream, reversed *)
  rnd : rstate                            (* RowHistory + the remaining random draws       *)
}.

Record env := mkEnv {
  version : Z;                            (* 2 | 3 *)
  options : list (string * value);
  name_slots : list (string * string);    (* Globals.nicknames_and_tables                 *)
  hist_names : list (string * string);    (* nickname -> table map handed to RowHistory     *)
  hist_tables : list string;              (* Interpreter.tables_to_keep_history_for         *)
  rr_ok : bool                            (* false: a nickname of the recipe names two tables -
                                             random_reference not modelled                    *)
}.

(* ------------------------------------------------------------------ association lists *)

Fixpoint lookup {A} (k : string) (l : list (string * A)) : option A :=
  match l with
  | [] => None
  | (k', v) :: r => if String.eqb k k' then Some v else lookup k r
  end.

(* dict assignment: replace in place if present, else append *)
Fixpoint assign {A} (k : string) (v : A) (l : list (string * A)) : list (string * A) :=
  match l with
  | [] => [(k, v)]
  | (k', v') :: r => if String.eqb k k' then (k, v) :: r else (k', v') :: assign k v r
  end.

Fixpoint set_nth {A} (n : nat) (x : A) (l : list A) : list A :=
  match l, n with
  | [], _ => []
  | _ :: r, O => x :: r
  | y :: r, S m => y :: set_nth m x r
  end.

(* ------------------------------------------------------------------ strings *)

Definition hidden (s : string) : bool := String.prefix "__" s.

Definition is_digit (c : ascii) : bool :=
  let n := nat_of_ascii c in (48 <=? n)%nat && (n <=? 57)%nat.
Definition is_lower (c : ascii) : bool :=
  let n := nat_of_ascii c in (97 <=? n)%nat && (n <=? 122)%nat.
Definition is_wordchar (c : ascii) : bool :=
  is_lower c || is_digit c || (nat_of_ascii c =? 95)%nat || (nat_of_ascii c =? 32)%nat.

Fixpoint str_all (p : ascii -> bool) (s : string) : bool :=
  match s with EmptyString => true | String c r => p c && str_all p r end.

Fixpoint digits_val (acc : Z) (s : string) : Z :=
  match s with
  | EmptyString => acc
  | String c r => digits_val (acc * 10 + Z.of_nat (nat_of_ascii c - 48)) r
  end.

Definition Z_to_str (z : Z) : string := NilZero.string_of_int (Z.to_int z).

Definition all_digits (s : string) : bool :=
  match s with EmptyString => false | _ => str_all is_digit s end.

(* strings the model knows how both dialects coerce: digit strings, and "words":
   first char a-z, rest a-z 0-9 _ space *)
Definition is_word (s : string) : bool :=
  match s with EmptyString => false | String c r => is_lower c && str_all is_wordchar r end.

Definition first_is_zero (s : string) : bool :=
  match s with String c _ => (nat_of_ascii c =? 48)%nat | _ => false end.

(* utils/template_utils.py look_for_number: exact for every string without a "." *)
Definition has_dot (s : string) : bool :=
  negb (str_all (fun c => negb (nat_of_ascii c =? 46)%nat) s).

Definition look_for_number (s : string) : result value :=
  if has_dot s then Err Unsupported
  else match s with
       | EmptyString => Ok (VStr s)
       | _ => if first_is_zero s then Ok (VStr s)
              else if all_digits s then Ok (VInt (digits_val 0 s))
              else Ok (VStr s)
       end.

(* Jinja NativeEnvironment (native_concat): ast.literal_eval(ast.parse(raw, mode="eval")),
   the raw text when that raises ValueError / SyntaxError.  Exact on the alphabet
   A-Z a-z 0-9 _ space - , except for texts that could be a non-decimal numeric literal
   (a digit-led token containing a letter: 1e5, 0x1f, 1j) and the words True / False. *)
Definition is_upper (c : ascii) : bool :=
  let n := nat_of_ascii c in (65 <=? n)%nat && (n <=? 90)%nat.
Definition is_alpha (c : ascii) : bool := is_lower c || is_upper c.
Definition is_space (c : ascii) : bool := (nat_of_ascii c =? 32)%nat.
Definition is_us (c : ascii) : bool := (nat_of_ascii c =? 95)%nat.
Definition is_minus (c : ascii) : bool := (nat_of_ascii c =? 45)%nat.
Definition is_sigma (c : ascii) : bool :=
  is_alpha c || is_digit c || is_us c || is_space c || is_minus c.

Fixpoint rstrip (s : string) : string :=
  match s with
  | EmptyString => EmptyString
  | String c r =>
    match rstrip r with
    | EmptyString => if is_space c then EmptyString else String c EmptyString
    | r' => String c r'
    end
  end.

Fixpoint lstrip (s : string) : string :=
  match s with
  | String c r => if is_space c then lstrip r else s
  | EmptyString => EmptyString
  end.

Fixpoint drop_us (s : string) : string :=
  match s with
  | EmptyString => EmptyString
  | String c r => if is_us c then drop_us r else String c (drop_us r)
  end.

(* no "_" first, last or doubled *)
Fixpoint us_ok (prev_us : bool) (s : string) : bool :=
  match s with
  | EmptyString => negb prev_us
  | String c r => if is_us c then negb prev_us && us_ok true r else us_ok false r
  end.

(* Python decinteger: nonzerodigit (["_"] digit)* | "0"+ (["_"] "0")* *)
Definition dec_literal (u : string) : option Z :=
  match u with
  | EmptyString => None
  | _ =>
    if str_all (fun c => is_digit c || is_us c) u && us_ok true u then
      let d := drop_us u in
      if first_is_zero d && negb (str_all (fun c => (nat_of_ascii c =? 48)%nat) d) then None
      else Some (digits_val 0 d)
    else None
  end.

Definition first_is (p : ascii -> bool) (s : string) : bool :=
  match s with String c _ => p c | EmptyString => false end.

Definition native_str (s : string) : result value :=
  match s with
  | EmptyString => Ok (VStr s)
  | _ =>
    if negb (str_all is_sigma s) then Err Unsupported
    else if first_is is_space s then Ok (VStr s)
    else
      let t := rstrip s in
      let neg := first_is is_minus t in
      let body := if neg then lstrip (match t with String _ r => r | EmptyString => t end) else t in
      if first_is is_digit body && negb (str_all (fun c => negb (is_alpha c)) body) then Err Unsupported
      else match dec_literal body with
           | Some v => Ok (VInt (if neg then - v else v))
           | None =>
             if String.eqb t "None" then Ok VNull
             else if String.eqb t "True" || String.eqb t "False" then Err Unsupported
             else Ok (VStr s)
           end
  end.

Fixpoint split_dot_aux (cur : string) (s : string) : list string :=
  match s with
  | EmptyString => [cur]
  | String c r =>
    if (nat_of_ascii c =? 46)%nat then cur :: split_dot_aux EmptyString r
    else split_dot_aux (cur ++ String c EmptyString) r
  end.
Definition split_dot (s : string) : list string := split_dot_aux EmptyString s.

(* ------------------------------------------------------------------ id manager and slots
   (the kernel operations; proofs about them are in proofs/IdSlotsP.v)                     *)

Definition last_id (s : st) (t : string) : Z :=
  match lookup t (ids s) with Some z => z | None => 0 end.

Definition upd_ids (s : st) (x : list (string * Z)) : st :=
  mkSt x (slots s) (nick_objs s) (last_by_table s) (p_nicks s) (p_tables s) (heap s) (frames s) (deps s) (out s) (rnd s).
Definition upd_slots (s : st) (x : list (string * slot)) : st :=
  mkSt (ids s) x (nick_objs s) (last_by_table s) (p_nicks s) (p_tables s) (heap s) (frames s) (deps s) (out s) (rnd s).
Definition upd_heap (s : st) (x : list cell) : st :=
  mkSt (ids s) (slots s) (nick_objs s) (last_by_table s) (p_nicks s) (p_tables s) x (frames s) (deps s) (out s) (rnd s).
Definition upd_frames (s : st) (x : list frame) : st :=
  mkSt (ids s) (slots s) (nick_objs s) (last_by_table s) (p_nicks s) (p_tables s) (heap s) x (deps s) (out s) (rnd s).
Definition upd_deps (s : st) (x : list (string * string * string)) : st :=
  mkSt (ids s) (slots s) (nick_objs s) (last_by_table s) (p_nicks s) (p_tables s) (heap s) (frames s) x (out s) (rnd s).
Definition upd_rnd (s : st) (x : rstate) : st :=
  mkSt (ids s) (slots s) (nick_objs s) (last_by_table s) (p_nicks s) (p_tables s) (heap s) (frames s) (deps s) (out s) x.
Definition upd_out (s : st) (x : list orow) : st :=
  mkSt (ids s) (slots s) (nick_objs s) (last_by_table s) (p_nicks s) (p_tables s) (heap s) (frames s) (deps s) x (rnd s).

(* IdManager.generate_id *)
Definition generate_id (s : st) (t : string) : st * Z :=
  let n := last_id s t + 1 in (upd_ids s (assign t n (ids s)), n).

(* NicknameSlot.id : allocate on first use *)
Definition touch_slot (s : st) (name : string) : result (st * Z) :=
  match lookup name (slots s) with
  | None => Err (Internal "KeyError")
  | Some sl =>
    match s_alloc sl with
    | Some i => Ok (s, i)
    | None =>
      let '(s1, i) := generate_id s (s_table sl) in
      Ok (upd_slots s1 (assign name (mkSlot (s_table sl) (Some i) (s_consumed sl)) (slots s1)), i)
    end
  end.

(* Globals.generate_id_for_nickname(name, tablename): consume an ALLOCATED slot of that table *)
Definition consume_for (s : st) (name table : string) : option (st * Z) :=
  match lookup name (slots s) with
  | Some sl =>
    match s_alloc sl with
    | Some i =>
      if negb (s_consumed sl) && String.eqb (s_table sl) table
      then Some (upd_slots s (assign name (mkSlot (s_table sl) (Some i) true) (slots s)), i)
      else None
    | None => None
    end
  | None => None
  end.

(* RuntimeContext.generate_id(nickname) for a row of table [table].
   `rc = rc or ...`: an id is never 0, so the `or` chain is a first-Some chain. *)
Definition new_row_id (s : st) (table : string) (nick : option string) : st * Z :=
  let by_nick := match nick with Some n => consume_for s n table | None => None end in
  match by_nick with
  | Some r => r
  | None =>
    match consume_for s table table with
    | Some r => r
    | None => generate_id s table
    end
  end.

Definition fresh_slots (e : env) : list (string * slot) :=
  map (fun '(n, t) => (n, mkSlot t None false)) (name_slots e).

(* Globals.check_slots_filled *)
Definition slots_filled (s : st) : bool :=
  forallb (fun '(_, sl) => match s_alloc sl with Some _ => s_consumed sl | None => true end) (slots s).

(* ------------------------------------------------------------------ names *)

(* Globals.object_names: later overrides earlier *)
Definition object_name (s : st) (n : string) : option value :=
  match lookup n (last_by_table s) with Some h => Some (VRow h) | None =>
  match lookup n (nick_objs s) with Some h => Some (VRow h) | None =>
  match lookup n (p_tables s) with Some h => Some (VRow h) | None =>
  match lookup n (p_nicks s) with Some h => Some (VRow h) | None =>
  match lookup n (slots s) with Some _ => Some (VSlot n) | None => None end end end end end.

Definition cur_frame (s : st) : frame :=
  match frames s with f :: _ => f | [] => mkFrame [] None end.

Definition cur_obj (s : st) : option cell :=
  match f_obj (cur_frame s) with Some h => nth_error (heap s) h | None => None end.

Definition row_attr (c : cell) (f : string) : option value :=
  if String.eqb f "id" then Some (VInt (c_id c)) else lookup f (c_fields c).

(* attribute names that Python finds on the object before ObjectRow.__getattr__ / that int
   defines itself: the model does not evaluate those *)
Fixpoint ends_us2 (s : string) : bool :=
  match s with
  | String a (String b EmptyString) => is_us a && is_us b
  | String _ r => ends_us2 r
  | EmptyString => false
  end.
Definition is_dunder (f : string) : bool :=
  String.prefix "__" f && ends_us2 f && (4 <=? String.length f)%nat.
Definition py_own_attr (f : string) : bool :=
  is_dunder f ||
  existsb (String.eqb f)
    ["_tablename"; "_values"; "_child_index"; "_id"; "yaml_loader"; "yaml_dumper"; "yaml_tag";
     "as_integer_ratio"; "bit_count"; "bit_length"; "conjugate"; "denominator"; "from_bytes";
     "imag"; "is_integer"; "numerator"; "real"; "to_bytes"]%string.

(* LazyLoadedObjectReference.__getattr__ (object_rows.py) -> RowHistory.load_row: a field of a row
   picked by random_reference is read from the copy the row history pickled when the row was
   written (hidden fields included; child rows as copies; a forward-reference slot as a plain
   reference - not modelled).  Rows are never changed after they are written, so the copy has the
   fields of the heap cell with that (table, id); a row that is not in this run's history
   (load_row asserts) is outside the fragment.  A field the copy lacks is a KeyError, which - unlike
   a missing attribute of a live row - is an error of the formula / of `reference`. *)
Fixpoint find_cell (t : string) (i : Z) (l : list cell) : option cell :=
  match l with
  | [] => None
  | c :: r => if String.eqb (c_table c) t && (c_id c =? i) then Some c else find_cell t i r
  end.

Definition in_history (h : rh) (t : string) (i : Z) : bool :=
  existsb (fun r => String.eqb (h_table r) t && (h_id r =? i)) (hrows h).

Definition hist_attr (h : rh) (cells : list cell) (t : string) (i : Z) (f : string) : result value :=
  if String.eqb f "id" then Ok (VInt i) else
  if py_own_attr f || String.eqb f "sql_tablename" || String.eqb f "_data" then Err Unsupported else
  if negb (in_history h t i) then Err Unsupported else
  match find_cell t i cells with
  | None => Err Unsupported
  | Some c =>
    match lookup f (c_fields c) with
    | None => Err (DGE "history-attr")
    | Some (VSlot _) => Err Unsupported
    | Some w => Ok w
    end
  end.

(* names that exist in the evaluation namespace but that the model does not cover *)
Definition reserved_name (n : string) : bool :=
  existsb (String.eqb n)
    ["today"; "now"; "fake"; "template"; "UniqueId"; "SnowfakeryVersion"; "reference";
     "random_number"; "random_choice"; "random_reference"; "date"; "datetime"; "date_between";
     "datetime_between"; "relativedelta"; "if_"; "choice"; "snowfakery_filename";
     "unique_id"; "unique_alpha_code"; "debug"; "int"; "range"; "dict"; "float"; "context"]%string.

(* EvaluationNamespace.simple_field_vars: variables > row fields > object names > options > builtins *)
Definition lookup_name (e : env) (s : st) (n : string) : result (option value) :=
  if reserved_name n then Err Unsupported else
  match lookup n (f_vars (cur_frame s)) with Some v => Ok (Some v) | None =>
  match (match cur_obj s with Some c => row_attr c n | None => None end) with Some v => Ok (Some v) | None =>
  match object_name s n with Some v => Ok (Some v) | None =>
  match lookup n (options e) with
  | Some (VRef _ _) => Err Unsupported      (* options are YAML scalars *)
  | Some v => Ok (Some v) | None =>
    if String.eqb n "id" || String.eqb n "count" then
      Ok (Some (match cur_obj s with Some c => VInt (c_id c) | None => VNull end))
    else if String.eqb n "child_index" then
      Ok (Some (match cur_obj s with Some c => VInt (c_index c) | None => VNull end))
    else if String.eqb n "this" then
      Ok (Some (match f_obj (cur_frame s) with Some h => VRow h | None => VNull end))
    else Ok None
  end end end end.

(* ------------------------------------------------------------------ formulas *)

Definition dge {A} (k : string) : result A := Err (DGE k).

Fixpoint eval_expr (e : env) (x : expr) (s : st) : result (st * value) :=
  match x with
  | EInt z => Ok (s, VInt z)
  | EVar n =>
    do r <- lookup_name e s n;
    match r with Some v => Ok (s, v) | None => Ok (s, VUndef) end
  | EAttr a f =>
    do '(s1, v) <- eval_expr e a s;
    match v with
    | VRow h =>
      if py_own_attr f then Err Unsupported else
      match nth_error (heap s1) h with
      | Some c => match row_attr c f with Some w => Ok (s1, w) | None => Ok (s1, VUndef) end
      | None => Err (Internal "dangling-handle")
      end
    | VSlot n =>
      if String.eqb f "id" then do '(s2, i) <- touch_slot s1 n; Ok (s2, VInt i)
      else Err Unsupported
    | VInt _ | VNull => if py_own_attr f then Err Unsupported else Ok (s1, VUndef)
    | VUndef => dge "undefined"
    | VStr _ => Err Unsupported          (* str has many attributes of its own *)
    | VRef t i => do w <- hist_attr (hist (rnd s1)) (heap s1) t i f; Ok (s1, w)
    end
  | EAdd a b =>
    do '(s1, v1) <- eval_expr e a s; do '(s2, v2) <- eval_expr e b s1;
    match v1, v2 with
    | VInt p, VInt q => Ok (s2, VInt (p + q))
    | VStr p, VStr q => Ok (s2, VStr (p ++ q))
    | _, _ => dge "TypeError"
    end
  | ESub a b =>
    do '(s1, v1) <- eval_expr e a s; do '(s2, v2) <- eval_expr e b s1;
    match v1, v2 with VInt p, VInt q => Ok (s2, VInt (p - q)) | _, _ => dge "TypeError" end
  | EMul a b =>
    do '(s1, v1) <- eval_expr e a s; do '(s2, v2) <- eval_expr e b s1;
    match v1, v2 with
    | VInt p, VInt q => Ok (s2, VInt (p * q))
    | VStr _, VInt _ | VInt _, VStr _ => Err Unsupported     (* sequence repetition *)
    | _, _ => dge "TypeError"
    end
  end.

(* str(v) as Jinja concatenation sees it *)
Definition to_str (s : st) (v : value) : result string :=
  match v with
  | VNull => Ok "None"%string
  | VInt z => Ok (Z_to_str z)
  | VStr x => Ok x
  | VRow h => match nth_error (heap s) h with
              | Some c => Ok (Z_to_str (c_id c))
              | None => Err (Internal "dangling-handle") end
  | VSlot _ => Err Unsupported          (* repr of the slot object *)
  | VUndef => Ok EmptyString
  | VRef _ _ => Err Unsupported         (* repr of the reference object *)
  end.

Fixpoint render_pieces (e : env) (ps : list piece) (s : st) : result (st * string) :=
  match ps with
  | [] => Ok (s, EmptyString)
  | PText t :: r => do '(s1, rest) <- render_pieces e r s; Ok (s1, (t ++ rest)%string)
  | PExpr x :: r =>
    do '(s1, v) <- eval_expr e x s;
    do t <- to_str s1 v;
    do '(s2, rest) <- render_pieces e r s1;
    Ok (s2, (t ++ rest)%string)
  end.

(* SimpleValue.render for a templated definition *)
Definition render_formula (e : env) (ps : list piece) (s : st) : result (st * value) :=
  if version e =? 3 then
    match ps with
    | [PExpr x] =>
      do '(s1, v) <- eval_expr e x s;
      match v with
      | VStr t => do w <- native_str t; Ok (s1, w)
      | VUndef => dge "undefined"
      | VRef _ _ => dge "render"   (* hasattr(val, "render") makes the lazy reference look up 'render' in its row *)
      | _ => Ok (s1, v)
      end
    | _ => do '(s1, t) <- render_pieces e ps s; do w <- native_str t; Ok (s1, w)
    end
  else
    do '(s1, t) <- render_pieces e ps s; do w <- look_for_number t; Ok (s1, w).

(* ------------------------------------------------------------------ reference *)

Definition getattr_path (s : st) (v : value) (part : string) : result (st * value) :=
  match v with
  | VRow h =>
    match nth_error (heap s) h with
    | Some c => match row_attr c part with Some w => Ok (s, w) | None => dge "reference-attr" end
    | None => Err (Internal "dangling-handle")
    end
  | VSlot n => if String.eqb part "id" then do '(s1, i) <- touch_slot s n; Ok (s1, VInt i)
               else Err Unsupported
  | VStr _ => Err Unsupported           (* str has attributes of its own *)
  | VRef t i => do w <- hist_attr (hist (rnd s)) (heap s) t i part; Ok (s, w)
  | _ => dge "reference-attr"
  end.

Fixpoint follow_path (s : st) (v : value) (parts : list string) : result (st * value) :=
  match parts with
  | [] => Ok (s, v)
  | p :: r => do '(s1, w) <- getattr_path s v p; follow_path s1 w r
  end.

(* StandardFuncs._reference_from_scalar for a string argument *)
Definition reference (e : env) (path : string) (s : st) : result (st * value) :=
  match split_dot path with
  | [] => Err Unsupported
  | first :: parts =>
    do r <- lookup_name e s first;
    match r with
    | None => match parts with [] => dge "cannot-find" | _ => dge "reference-attr" end
    | Some v0 =>
      do '(s1, target) <- follow_path s v0 parts;
      match target with
      | VRow _ | VRef _ _ => Ok (s1, target)
      | VSlot n => do '(s2, _) <- touch_slot s1 n; Ok (s2, target)
      | _ => dge "incorrect-object-type"
      end
    end
  end.

(* ------------------------------------------------------------------ rows *)

Definition set_field (s : st) (h : nat) (name : string) (v : value) : st :=
  match nth_error (heap s) h with
  | Some c => upd_heap s (set_nth h (mkCell (c_table c) (c_id c) (c_index c) (assign name v (c_fields c))) (heap s))
  | None => s
  end.

Definition set_var (s : st) (n : string) (v : value) : st :=
  match frames s with
  | f :: r => upd_frames s (mkFrame (assign n v (f_vars f)) (f_obj f) :: r)
  | [] => s
  end.

Definition set_obj (s : st) (h : nat) : st :=
  match frames s with
  | f :: r => upd_frames s (mkFrame (f_vars f) (Some h) :: r)
  | [] => s
  end.

(* RuntimeContext.child_context: variables are snapshotted at creation *)
Definition push_frame (s : st) : st :=
  upd_frames s (mkFrame (f_vars (cur_frame s)) None :: frames s).
Definition pop_frame (s : st) : st :=
  match frames s with _ :: r => upd_frames s r | [] => s end.

(* Globals.register_object *)
Definition register_object (s : st) (h : nat) (table : string) (nick : option string) (once : bool) : st :=
  let s1 :=
    match nick with
    | Some n =>
      if once
      then mkSt (ids s) (slots s) (nick_objs s) (last_by_table s) (assign n h (p_nicks s)) (p_tables s) (heap s) (frames s) (deps s) (out s) (rnd s)
      else mkSt (ids s) (slots s) (assign n h (nick_objs s)) (last_by_table s) (p_nicks s) (p_tables s) (heap s) (frames s) (deps s) (out s) (rnd s)
    | None => s
    end in
  let s2 :=
    if once
    then mkSt (ids s1) (slots s1) (nick_objs s1) (last_by_table s1) (p_nicks s1) (assign table h (p_tables s1)) (heap s1) (frames s1) (deps s1) (out s1) (rnd s1)
    else s1 in
  mkSt (ids s2) (slots s2) (nick_objs s2) (assign table h (last_by_table s2)) (p_nicks s2) (p_tables s2) (heap s2) (frames s2) (deps s2) (out s2) (rnd s2).

Definition target_table (s : st) (v : value) : option string :=
  match v with
  | VRow h => match nth_error (heap s) h with Some c => Some (c_table c) | None => None end
  | VSlot n => match lookup n (slots s) with Some sl => Some (s_table sl) | None => None end
  | VRef t _ => Some t
  | _ => None
  end.

Definition dep_eqb (a b : string * string * string) : bool :=
  let '(a1, a2, a3) := a in let '(b1, b2, b3) := b in
  String.eqb a1 b1 && String.eqb a2 b2 && String.eqb a3 b3.

(* RuntimeContext.remember_row: record inter-table dependencies (an ordered set) *)
Definition remember_deps (s : st) (table : string) (fields : list (string * value)) : st :=
  fold_left (fun acc '(fname, v) =>
    match target_table acc v with
    | Some tgt => let d := (table, tgt, fname) in
                 if existsb (dep_eqb d) (deps acc) then acc else upd_deps acc (deps acc ++ [d])
    | None => acc
    end) fields s.

(* flatten the visible fields in order; reading .id of a slot allocates *)
Fixpoint flatten_fields (s : st) (fields : list (string * value)) : result (st * list (string * ovalue)) :=
  match fields with
  | [] => Ok (s, [])
  | (n, v) :: r =>
    if hidden n then flatten_fields s r else
    do '(s1, o) <-
      match v with
      | VNull => Ok (s, ONull) | VInt z => Ok (s, OInt z) | VStr x => Ok (s, OStr x)
      | VRow h => match nth_error (heap s) h with
                  | Some c => Ok (s, ORef (c_table c) (c_id c))
                  | None => Err (Internal "dangling-handle") end
      | VSlot nm => match lookup nm (slots s) with
                    | Some sl => do '(s1, i) <- touch_slot s nm; Ok (s1, ORef (s_table sl) i)
                    | None => Err (Internal "KeyError") end
      | VUndef => Err (Internal "undefined-stored")      (* never stored: see render_formula *)
      | VRef t i => Ok (s, ORef t i)
      end;
    do '(s2, rest) <- flatten_fields s1 r;
    Ok (s2, (n, o) :: rest)
  end.

Definition write_row (s : st) (h : nat) : result st :=
  match nth_error (heap s) h with
  | None => Err (Internal "dangling-handle")
  | Some c =>
    if hidden (c_table c) then Ok s else
    do '(s1, fs) <- flatten_fields s (c_fields c);
    Ok (upd_out s1 ((c_table c, ("id"%string, OInt (c_id c)) :: fs) :: out s1))
  end.

(* int(float(x)) on the rendered count *)
Definition count_of (v : value) : result Z :=
  match v with
  | VInt z => Ok z
  | VStr x => if String.eqb x "" then dge "count" else
              if all_digits x then Ok (digits_val 0 x)
              else if is_word x then
                (if existsb (String.eqb x) ["inf"; "infinity"; "nan"]%string then Err Unsupported
                 else if existsb (fun c => (nat_of_ascii c =? 95)%nat) (list_ascii_of_string x)
                      then Err Unsupported else dge "count")
              else Err Unsupported
  | VNull | VRow _ | VSlot _ | VUndef | VRef _ _ => dge "count"
  end.

(* RuntimeContext.remember_row, history part: rows of tables that some random_reference names
   (nicknames are resolved to tables up front) *)
Definition remember_history (e : env) (s : st) (table : string) (nick : option string) (id : Z) : result st :=
  if existsb (String.eqb table) (hist_tables e)
  then Ok (upd_rnd s (mkR (save_row (hist (rnd s)) table nick id) (draws (rnd s))))
  else Ok s.

(* StandardFuncs.random_reference(to) + RandomReferenceContext.next with random.randint:
   randint(lo, hi) = lo + _randbelow(hi - lo + 1); the drawn number comes from the recorded stream *)
Definition random_reference (e : env) (target : string) (s : st) : result (st * value) :=
  if negb (rr_ok e) then Err Unsupported else
  do '(nick, table, lo, hi) <- ref_range (hist (rnd s)) target;
  match draws (rnd s) with
  | [] => Err BadOracle
  | r :: rest =>
    if (0 <=? r) && (r <? hi - lo + 1) then
      do '(t, i) <- resolve_draw (hist (rnd s)) nick table (lo + r);
      Ok (upd_rnd s (mkR (hist (rnd s)) rest), VRef t i)
    else Err BadOracle
  end.

(* ------------------------------------------------------------------ the evaluator *)

Inductive task :=
| TStmts (l : list stmt) (continuing : bool)
| TStmt (x : stmt) (continuing : bool)
| TRows (t : template)                        (* ObjectTemplate.generate_rows             *)
| TLoop (t : template) (i n : Z) (last : option nat)
| TRow (t : template) (i : Z)                 (* ObjectTemplate._generate_row             *)
| TFields (h : nat) (fs : list (string * fdef))
| TField (d : fdef).                          (* FieldFactory.generate_value              *)

Inductive ret := RUnit | RVal (v : value) | RRow (h : option nat).

Definition ret_value (r : ret) : value :=
  match r with RVal v => v | RRow (Some h) => VRow h | _ => VNull end.

Fixpoint run (fuel : nat) (e : env) (tk : task) (s : st) : result (st * ret) :=
  match fuel with
  | O => Err OutOfFuel
  | S n =>
    match tk with
    | TStmts [] _ => Ok (s, RUnit)
    | TStmts (x :: r) c =>
      do '(s1, _) <- run n e (TStmt x c) s;
      run n e (TStmts r c) s1
    | TStmt (SObj t) c =>
      if t_once t && c then Ok (s, RUnit)
      else do '(s1, _) <- run n e (TRows t) s; Ok (s1, RUnit)
    | TStmt (SVar name (FRandRef _)) _ =>
      Err Unsupported          (* the variable holds the iterator object itself, never drawn from *)
    | TStmt (SVar name d) _ =>
      do '(s1, r) <- run n e (TField d) (push_frame s);
      Ok (set_var (pop_frame s1) name (ret_value r), RUnit)
    | TRows t =>
      let s0 := push_frame s in
      do '(s1, cnt) <-
        match t_count t with
        | None => Ok (s0, 1)
        | Some d => do '(s1, r) <- run n e (TField d) s0;
                    do c <- count_of (ret_value r); Ok (s1, c)
        end;
      do '(s2, r) <- run n e (TLoop t 0 cnt None) s1;
      Ok (pop_frame s2, r)
    | TLoop t i cnt last =>
      if i <? cnt then
        do '(s1, r) <- run n e (TRow t i) (set_var s "child_index" (VInt i));
        match r with
        | RRow h => run n e (TLoop t (i + 1) cnt h) s1
        | _ => Err (Internal "bad-ret")
        end
      else Ok (s, RRow last)
    | TRow t i =>
      let '(s1, id) := new_row_id s (t_table t) (t_nick t) in
      let h := length (heap s1) in
      let s2 := upd_heap s1 (heap s1 ++ [mkCell (t_table t) id i []]) in
      let s3 := register_object (set_obj s2 h) h (t_table t) (t_nick t) (t_once t) in
      do '(s4, _) <- run n e (TFields h (t_fields t)) s3;
      match nth_error (heap s4) h with
      | None => Err (Internal "dangling-handle")
      | Some c =>
        let s5 := remember_deps s4 (t_table t) (c_fields c) in
        do s5 <- remember_history e s5 (t_table t) (t_nick t) id;
        do s6 <- write_row s5 h;
        do '(s7, _) <- run n e (TStmts (t_friends t) true) s6;
        Ok (s7, RRow (Some h))
      end
    | TFields h [] => Ok (s, RUnit)
    | TFields h ((name, d) :: r) =>
      if String.eqb name "id" then Err Unsupported else
      do '(s1, v) <- run n e (TField d) s;
      run n e (TFields h r) (set_field s1 h name (ret_value v))
    | TField (FLitInt z) => Ok (s, RVal (VInt z))
    | TField (FLitStr x) =>
      if version e =? 3 then Ok (s, RVal (VStr x))
      else do v <- look_for_number x; Ok (s, RVal v)
    | TField (FFormula ps) => do '(s1, v) <- render_formula e ps s; Ok (s1, RVal v)
    | TField (FRef path) => do '(s1, v) <- reference e path s; Ok (s1, RVal v)
    | TField (FNested t) => run n e (TRows t) s
    | TField (FRandRef to) => do '(s1, v) <- random_reference e to s; Ok (s1, RVal v)
    end
  end.

(* ------------------------------------------------------------------ iterations and runs *)

(* Globals.reset_slots *)
Definition reset_slots (e : env) (s : st) : st :=
  mkSt (ids s) (fresh_slots e) [] [] (p_nicks s) (p_tables s) (heap s) (frames s) (deps s) (out s) (rnd s).

(* RowHistory.reset_locals at the end of every iteration *)
Definition reset_hist (s : st) : st :=
  upd_rnd s (mkR (reset_locals (hist (rnd s))) (draws (rnd s))).

Definition fuel0 : nat := Z.to_nat 4000.

(* A forward-reference slot object that stays reachable after the iteration that created it
   (through a top-level variable or a just_once row) keeps its own state in Python while the
   name gets a fresh slot; the model identifies slots by name, so such states are outside the
   fragment.  [stale_slot d s vs]: some value reachable from vs within d steps is a slot. *)
Fixpoint stale_slot (d : nat) (s : st) (vs : list value) : bool :=
  match d with
  | O => false
  | S d' =>
    existsb (fun v =>
      match v with
      | VSlot _ => true
      | VRow h => match nth_error (heap s) h with
                  | Some c => stale_slot d' s (map snd (c_fields c))
                  | None => false
                  end
      | _ => false
      end) vs
  end.

Definition survivors (s : st) : list value :=
  flat_map (fun f => map snd (f_vars f)) (frames s) ++
  map (fun nh => VRow (snd nh)) (p_nicks s) ++ map (fun nh => VRow (snd nh)) (p_tables s).

(* one pass of loop_over_templates_until_finished's body, followed by check_slots_filled *)
Definition iteration (e : env) (stmts : list stmt) (continuing : bool) (s : st) : result st :=
  do '(s1, _) <- run fuel0 e (TStmts stmts continuing) s;
  if slots_filled s1 then
    if stale_slot 4 s1 (survivors s1) then Err Unsupported
    else Ok (reset_hist (reset_slots e s1))
  else dge "references-not-fulfilled".

Fixpoint iterations (k : nat) (e : env) (stmts : list stmt) (continuing : bool) (s : st) : result st :=
  match k with
  | O => Ok s
  | S k' => do s1 <- iteration e stmts continuing s; iterations k' e stmts true s1
  end.

(* initialize_globals: nickname entries first, then table names of the top-level templates *)
Fixpoint top_templates (l : list stmt) : list template :=
  match l with [] => [] | SObj t :: r => t :: top_templates r | _ :: r => top_templates r end.

Definition mk_name_slots (stmts : list stmt) : list (string * string) :=
  let ts := top_templates stmts in
  let nicks := fold_left (fun acc t => match t_nick t with Some n => assign n (t_table t) acc | None => acc end) ts [] in
  fold_left (fun acc t => assign (t_table t) (t_table t) acc) ts nicks.

(* ---- what the interpreter hands to RowHistory (Interpreter.__init__) *)

(* every template of the recipe (parse_result.tables[..]._templates), in any order *)
Fixpoint all_templates_t (fuel : nat) (t : template) : list template :=
  match fuel with
  | O => []
  | S n =>
    t :: flat_map (fun nd => match snd nd with FNested u => all_templates_t n u | _ => [] end) (t_fields t)
      ++ (match t_count t with Some (FNested u) => all_templates_t n u | _ => [] end)
      ++ flat_map (fun x => match x with
                            | SObj u => all_templates_t n u
                            | SVar _ (FNested u) => all_templates_t n u
                            | _ => [] end) (t_friends t)
  end.

Definition all_templates (stmts : list stmt) : list template :=
  flat_map (fun x => match x with
                     | SObj u => all_templates_t 50 u
                     | SVar _ (FNested u) => all_templates_t 50 u
                     | _ => [] end) stmts.

(* the targets of every random_reference of the recipe (parse_result.random_references) *)
Definition fdef_targets (d : fdef) : list string :=
  match d with FRandRef x => [x] | _ => [] end.

Definition all_rr_targets (stmts : list stmt) : list string :=
  flat_map (fun x => match x with SVar _ d => fdef_targets d | _ => [] end) stmts ++
  flat_map (fun t =>
    flat_map (fun nd => fdef_targets (snd nd)) (t_fields t) ++
    (match t_count t with Some d => fdef_targets d | None => [] end) ++
    flat_map (fun x => match x with SVar _ d => fdef_targets d | _ => [] end) (t_friends t))
    (all_templates stmts).

(* nickname -> table over all templates, the top-level map on top of it *)
Definition all_nick_pairs (stmts : list stmt) : list (string * string) :=
  flat_map (fun t => match t_nick t with Some n => [(n, t_table t)] | None => [] end) (all_templates stmts).

Definition mk_hist_names (stmts : list stmt) : list (string * string) :=
  fold_left (fun acc nt => assign (fst nt) (snd nt) acc) (mk_name_slots stmts)
            (fold_left (fun acc nt => assign (fst nt) (snd nt) acc) (all_nick_pairs stmts) []).

(* the model does not decide the dictionary-order question that arises when one nickname
   names two tables *)
Definition nick_unambiguous (stmts : list stmt) : bool :=
  let ps := all_nick_pairs stmts in
  forallb (fun nt => forallb (fun mu => negb (String.eqb (fst nt) (fst mu)) || String.eqb (snd nt) (snd mu)) ps) ps.

Fixpoint dedup (l : list string) : list string :=
  match l with [] => [] | x :: r => if existsb (String.eqb x) r then dedup r else x :: dedup r end.

(* find_tables_to_keep_history_for *)
Definition mk_hist_tables (stmts : list stmt) : list string :=
  let names := mk_hist_names stmts in
  dedup (map (fun n => match lookup n names with Some t => t | None => n end) (all_rr_targets stmts)).

(* RowHistory(orig_used_ids, tables, names); nothing is kept when no table needs history, so
   that recipes without random_reference have a constant history *)
Definition init_hist (e : env) (ids0 : list (string * Z)) : rh :=
  match hist_tables e with
  | [] => mkRh [] [] [] [] [] []
  | _ => rh_init ids0 (hist_names e)
  end.

Definition init_st (e : env) (dr : list Z) : st :=
  mkSt [] (fresh_slots e) [] [] [] [] [] [mkFrame [] None] [] [] (mkR (init_hist e []) dr).

Record recipe := mkRecipe {
  r_version : Z; r_options : list (string * value); r_stmts : list stmt;
  r_draws : list Z     (* results of random.Random._randbelow, in call order, over the whole history *)
}.

Definition env_of (r : recipe) : env :=
  mkEnv (r_version r) (r_options r) (mk_name_slots (r_stmts r))
        (mk_hist_names (r_stmts r)) (mk_hist_tables (r_stmts r)) (nick_unambiguous (r_stmts r)).

(* a fresh run of k iterations (stopping criterion: repetitions) *)
Definition run_fresh (r : recipe) (k : nat) : result st :=
  iterations k (env_of r) (r_stmts r) false (init_st (env_of r) (r_draws r)).

Definition rows_of (s : st) : list orow := rev (out s).

(* ------------------------------------------------------------------ continuation
   Globals.__getstate__ / __setstate__, ObjectRow.__getstate__, IdManager.__setstate__,
   Interpreter(continuing=True).                                                          *)

(* The continuation as a state transformer.  Handles are model artefacts (Python object
   identity), so the model keeps the whole heap across save/load: the rows that the real
   file does not contain are unreachable after loading (no name, no variable and — because
   row-valued fields are dropped — no field of a persistent row points at them); they play
   the role of garbage-collected objects.  The file format itself is the subject of C05
   (theories/Continuation.v). *)
Record cont := mkCont {
  k_ids : list (string * Z);
  k_p_nicks : list (string * nat);
  k_p_tables : list (string * nat);
  k_heap : list cell;
  k_deps : list (string * string * string);
  k_draws : list Z                  (* model artefact: the draws not yet consumed        *)
}.

(* ObjectRow.__getstate__: nested ObjectRows are dropped; a NicknameSlot value cannot be
   represented by the YAML dumper (RepresenterError). *)
Fixpoint saved_fields (fs : list (string * value)) : result (list (string * value)) :=
  match fs with
  | [] => Ok []
  | (n, v) :: r =>
    do rest <- saved_fields r;
    match v with
    | VRow _ => Ok rest
    | VSlot _ | VRef _ _ => Err (Internal "RepresenterError")
    | _ => Ok ((n, v) :: rest)
    end
  end.

(* serialise-and-reload the rows reachable by a persistent name, in place *)
Fixpoint clean_handles (h : list cell) (hs : list nat) : result (list cell) :=
  match hs with
  | [] => Ok h
  | x :: r =>
    match nth_error h x with
    | None => Err (Internal "dangling-handle")
    | Some c =>
      do fs <- saved_fields (c_fields c);
      clean_handles (set_nth x (mkCell (c_table c) (c_id c) (c_index c) fs) h) r
    end
  end.

Definition save (s : st) : result cont :=
  do h1 <- clean_handles (heap s) (map snd (p_nicks s) ++ map snd (p_tables s));
  Ok (mkCont (ids s) (p_nicks s) (p_tables s) h1 (deps s) (draws (rnd s))).

(* insertion sort by key (yaml.dump sorts mapping keys; the file is read back in that order) *)
Fixpoint insert_by_key {A} (x : string * A) (l : list (string * A)) : list (string * A) :=
  match l with
  | [] => [x]
  | y :: r => if String.leb (fst x) (fst y) then x :: l else y :: insert_by_key x r
  end.
Definition sort_by_key {A} (l : list (string * A)) : list (string * A) :=
  fold_right insert_by_key [] l.

(* Interpreter.resave_objects_from_continuation: persistent rows by nickname (file order), then
   those known by table name only whose (table, id) was not yet saved; tables without history are
   skipped; afterwards the nickname ordinals handed out count as "not local" *)
Definition resave (e : env) (c : cont) (h0 : rh) : result rh :=
  let cell_of (x : nat) := nth_error (k_heap c) x in
  let by_nick := sort_by_key (k_p_nicks c) in
  let by_table := sort_by_key (k_p_tables c) in
  do nick_rows <- (fix go (l : list (string * nat)) : result (list (string * option string * Z)) :=
                     match l with
                     | [] => Ok []
                     | (n, x) :: r => match cell_of x with
                                      | Some cl => do rest <- go r; Ok ((c_table cl, Some n, c_id cl) :: rest)
                                      | None => Err (Internal "dangling-handle") end
                     end) by_nick;
  do table_rows <- (fix go (l : list (string * nat)) : result (list (string * option string * Z)) :=
                     match l with
                     | [] => Ok []
                     | (t, x) :: r => match cell_of x with
                                      | Some cl => if String.eqb t (c_table cl)
                                                   then do rest <- go r; Ok ((t, None, c_id cl) :: rest)
                                                   else Err (Internal "table-map-inconsistent")
                                      | None => Err (Internal "dangling-handle") end
                     end) by_table;
  (* already saved = the (table, id) pairs of the nicknamed rows: ids are per table (/repo 0aad1fc) *)
  let saved := map (fun r => (fst (fst r), snd r)) nick_rows in
  let rows := nick_rows ++ filter (fun r => negb (existsb (fun p => String.eqb (fst p) (fst (fst r)) && (snd p =? snd r)) saved)) table_rows in
  let rows := filter (fun r => existsb (String.eqb (fst (fst r))) (hist_tables e)) rows in
  let h1 := fold_left (fun h r => save_row h (fst (fst r)) (snd (fst r)) (snd r)) rows h0 in
  Ok (mkRh (tc h1) (nc h1) (lc h1) (nc h1) (n2t h1) (hrows h1)).

Definition load (e : env) (c : cont) : result st :=
  do h <- match hist_tables e with
          | [] => Ok (init_hist e (k_ids c))
          | _ => resave e c (init_hist e (k_ids c))
          end;
  Ok (mkSt (k_ids c) (fresh_slots e) [] [] (k_p_nicks c) (k_p_tables c) (k_heap c)
           [mkFrame [] None] (k_deps c) [] (mkR h (k_draws c))).

(* one run of k iterations, fresh or continued; returns the final state *)
Definition run_one (r : recipe) (k : nat) (c : option cont) : result st :=
  match c with
  | None => run_fresh r k
  | Some c0 => do s0 <- load (env_of r) c0; iterations k (env_of r) (r_stmts r) true s0
  end.

(* a chain of runs linked by continuation files; the rows of each run *)
Fixpoint run_history (r : recipe) (ks : list nat) (c : option cont) : result (list (list orow)) :=
  match ks with
  | [] => Ok []
  | k :: rest =>
    do s <- run_one r k c;
    match rest with
    | [] => Ok [rows_of s]
    | _ => do c1 <- save s; do tl <- run_history r rest (Some c1); Ok (rows_of s :: tl)
    end
  end.

(* ------------------------------------------------------------------ correspondence cases *)

Definition ovalue_eqb (a b : ovalue) : bool :=
  match a, b with
  | ONull, ONull => true
  | OInt x, OInt y => x =? y
  | OStr x, OStr y => String.eqb x y
  | ORef t i, ORef u j => String.eqb t u && (i =? j)
  | _, _ => false
  end.

Definition orow_eqb (a b : orow) : bool :=
  String.eqb (fst a) (fst b) &&
  list_eqb (fun x y => String.eqb (fst x) (fst y) && ovalue_eqb (snd x) (snd y)) (snd a) (snd b).

(* Each property compares only its own projection of the row sequence (DESIGN.md 2.3). *)
Inductive proj := PFull | PIds | PRefs | PNames.

Definition is_ref (v : ovalue) : bool := match v with ORef _ _ => true | _ => false end.

Definition project_row (p : proj) (r : orow) : orow :=
  match p with
  | PFull => r
  | PIds => (fst r, match snd r with x :: _ => [x] | [] => [] end)
  | PRefs => (fst r, match snd r with x :: rest => x :: filter (fun nv => is_ref (snd nv)) rest | [] => [] end)
  | PNames => (fst r, map (fun nv => (fst nv, ONull)) (snd r))
  end.

Inductive case :=
| CRun (r : recipe) (k : nat) (expected : result (list orow))
| CProj (p : proj) (r : recipe) (k : nat) (expected : result (list orow))
| CHist (p : proj) (r : recipe) (ks : list nat) (expected : result (list (list orow))).

Definition run_rows (r : recipe) (k : nat) : result (list orow) :=
  do s <- run_fresh r k; Ok (rows_of s).

Definition is_unsupported {A} (x : result A) : bool :=
  match x with Err Unsupported => true | _ => false end.

Definition map_result {A B} (f : A -> B) (x : result A) : result B :=
  match x with Ok a => Ok (f a) | Err e => Err e end.

Definition check_case (c : case) : bool :=
  match c with
  | CRun r k expected =>
    let m := run_rows r k in
    is_unsupported m || result_eqb (list_eqb orow_eqb) m expected
  | CProj p r k expected =>
    let m := run_rows r k in
    is_unsupported m ||
    result_eqb (list_eqb orow_eqb) (map_result (map (project_row p)) m)
               (map_result (map (project_row p)) expected)
  | CHist p r ks expected =>
    let m := run_history r ks None in
    is_unsupported m ||
    result_eqb (list_eqb (list_eqb orow_eqb)) (map_result (map (map (project_row p))) m)
               (map_result (map (map (project_row p))) expected)
  end.

Definition case_unsupported (c : case) : bool :=
  match c with
  | CRun r k _ | CProj _ r k _ => is_unsupported (run_rows r k)
  | CHist _ r ks _ => is_unsupported (run_history r ks None)
  end.
