(* Schedule.v — model of snowfakery/standard_plugins/Schedule.py (property C15).

   What is modelled: Snowfakery's own part of Schedule.Event, i.e. the WIRING of the recipe
   keywords to the keywords of the recurrence engine (dateutil.rrule / rruleset):
     CalendarRule.__init__, _check_undocumented_features, _normalize_start_date,
     _normalize_until, _normalize_frequency, _normalize_weekday / _parse_weekday /
     _split_weekday, process_list_of_ints, _process_special_cases, the choice of
     _next_date / _next_datetime, CalendarRule.__iter__ (used by for_each), and the
     keyword pass-through of Schedule.Functions.Event (with the hashability requirement
     that @memorable puts on its arguments outside for_each).
   What is NOT modelled: the engine.  The occurrences it yields are an explicit input
   (a stream), dateutil.parser.parse is an explicit function argument [P], datetime.now()
   an explicit argument [now].

   Dates: [dt] = (proleptic ordinal of the local date, microsecond of the local day,
   utcoffset in seconds or None for a naive value).                                     *)
From SFV Require Import Base.

(* ------------------------------------------------------------------ values *)

Record dt := mkDT { d_days : Z; d_us : Z; d_tz : option Z }.

Inductive scalar := SNone | SBool (b : bool) | SInt (z : Z) | SStr (s : string) | SOther.
Inductive wday := WD (day : Z) (n : option Z).       (* dateutil weekday(day)(n) *)
Inductive precision := PDate | PDateTime.
Inductive method := MRRule | MExRule | MRDate | MExDate.   (* rruleset.rrule/exrule/rdate/exdate *)

(* the keyword arguments of dateutil.rrule.rrule(...) *)
Record rrule_args := mkRR {
  r_freq : Z;                         (* YEARLY=0 .. SECONDLY=6 *)
  r_dtstart : dt;
  r_interval : scalar;
  r_wkst : option wday;
  r_count : scalar;
  r_until : option dt;
  r_bysetpos : option (list Z);
  r_bymonth : option (list Z);
  r_bymonthday : option (list Z);
  r_byyearday : option (list Z);
  r_byeaster : option (list Z);
  r_byweekno : option (list Z);
  r_byweekday : option (list wday);
  r_byhour : option (list Z);
  r_byminute : option (list Z);
  r_bysecond : option (list Z);
  r_cache : scalar
}.

(* an rruleset object = the calls Snowfakery made on it, in order *)
Inductive ruleset := RS (cache : scalar) (calls : list call)
with call :=
| CRule (m : method) (r : rrule_args)
| CSet (m : method) (rs : ruleset)
| CDate (m : method) (d : dt).

(* a Python value arriving as a keyword argument *)
Inductive arg :=
| ANone
| ABool (b : bool)
| AInt (z : Z)
| AStr (s : string)
| ASeq (tup : bool) (l : list arg)     (* tuple (true) or list (false) *)
| ADate (d : Z)                        (* datetime.date *)
| ADateTime (t : dt)                   (* datetime.datetime *)
| ARule (rs : ruleset)                 (* an already constructed CalendarRule; .ruleset = rs *)
| AOther.                              (* a non-empty dict: none of the types above *)

(* the 19 keywords of CalendarRule.__init__; None = keyword not given *)
Record sched_args := mkS {
  s_freq : option arg;
  s_start_date : option arg;
  s_interval : option arg;
  s_count : option arg;
  s_until : option arg;
  s_bysetpos : option arg;
  s_bymonth : option arg;
  s_bymonthday : option arg;
  s_byyearday : option arg;
  s_byeaster : option arg;
  s_byweekno : option arg;
  s_byweekday : option arg;
  s_byhour : option arg;
  s_byminute : option arg;
  s_bysecond : option arg;
  s_cache : option arg;
  s_exclude : option arg;
  s_include : option arg;
  s_uuf : option arg                    (* use_undocumented_features *)
}.

Definition dflt (d : arg) (o : option arg) : arg := match o with Some v => v | None => d end.

Definition truthy (a : arg) : bool :=
  match a with
  | ANone => false
  | ABool b => b
  | AInt z => negb (z =? 0)
  | AStr s => negb (String.eqb s "")
  | ASeq _ l => match l with [] => false | _ => true end
  | ADate _ | ADateTime _ | ARule _ | AOther => true
  end.

(* values handed to the engine unchanged (interval, count, cache) are compared as scalars *)
Definition to_scalar (a : arg) : scalar :=
  match a with
  | ANone => SNone
  | ABool b => SBool b
  | AInt z => SInt z
  | AStr s => SStr s
  | _ => SOther
  end.

(* ------------------------------------------------------------------ strings *)

Definition code (c : ascii) : Z := Z.of_N (N_of_ascii c).

(* str.isspace() on ASCII: \t \n \v \f \r, \x1c-\x1f, space *)
Definition is_space (c : ascii) : bool :=
  let n := code c in ((9 <=? n) && (n <=? 13)) || ((28 <=? n) && (n <=? 32)).

Definition is_digit (c : ascii) : bool := let n := code c in (48 <=? n) && (n <=? 57).

(* regex \w on ASCII *)
Definition is_word (c : ascii) : bool :=
  let n := code c in
  is_digit c || ((65 <=? n) && (n <=? 90)) || ((97 <=? n) && (n <=? 122)) || (n =? 95).

Definition upper_char (c : ascii) : ascii :=
  let n := code c in
  if (97 <=? n) && (n <=? 122) then ascii_of_N (Z.to_N (n - 32)) else c.

Fixpoint upper (s : string) : string :=
  match s with EmptyString => EmptyString | String c r => String (upper_char c) (upper r) end.

Fixpoint lstrip (s : string) : string :=
  match s with
  | String c r => if is_space c then lstrip r else s
  | EmptyString => EmptyString
  end.

Fixpoint rstrip (s : string) : string :=
  match s with
  | EmptyString => EmptyString
  | String c r =>
    match rstrip r with
    | EmptyString => if is_space c then EmptyString else String c EmptyString
    | r' => String c r'
    end
  end.

Definition strip (s : string) : string := rstrip (lstrip s).

Fixpoint contains_char (p : ascii -> bool) (s : string) : bool :=
  match s with EmptyString => false | String c r => p c || contains_char p r end.

(* str.split(sep): always at least one element *)
Fixpoint split_on (sep : ascii) (s : string) : list string :=
  match s with
  | EmptyString => [EmptyString]
  | String c r =>
    if Ascii.eqb c sep then EmptyString :: split_on sep r
    else match split_on sep r with
         | h :: t => String c h :: t
         | [] => [String c EmptyString]
         end
  end.

(* is_datetime: bool(set(dt).intersection(" TZ+:")) *)
Definition is_datetime (s : string) : bool :=
  contains_char (fun c => let n := code c in
                          (n =? 32) || (n =? 84) || (n =? 90) || (n =? 43) || (n =? 58)) s.

(* int(str): surrounding whitespace, optional sign, decimal digits, single underscores
   between digits.  (Non-ASCII digits are outside the model; the generator is ASCII.) *)
Fixpoint digits_val (acc : Z) (last_digit : bool) (s : string) : option Z :=
  match s with
  | EmptyString => if last_digit then Some acc else None
  | String c r =>
    if is_digit c then digits_val (acc * 10 + (code c - 48)) true r
    else if (code c =? 95) && last_digit then digits_val acc false r
    else None
  end.

Definition parse_int (s0 : string) : option Z :=
  match strip s0 with
  | String c r =>
    if code c =? 45 then option_map Z.opp (digits_val 0 false r)
    else if code c =? 43 then digits_val 0 false r
    else digits_val 0 false (String c r)
  | EmptyString => None
  end.

(* ------------------------------------------------------------------ process_list_of_ints *)

Definition type_error {A} : result A := Err (Internal "TypeError").
Definition value_error {A} : result A := Err (Internal "ValueError").
Definition dge {A} : result A := Err (DGE "").

Fixpoint mapM {A B} (f : A -> result B) (l : list A) : result (list B) :=
  match l with
  | [] => Ok []
  | x :: r => do y <- f x; do ys <- mapM f r; Ok (y :: ys)
  end.

(* int(v) *)
Definition py_int (a : arg) : result Z :=
  match a with
  | AInt z => Ok z
  | ABool b => Ok (if b then 1 else 0)
  | AStr s => match parse_int s with Some z => Ok z | None => value_error end
  | _ => type_error
  end.

Definition ints (a : arg) : result (option (list Z)) :=
  match a with
  | ANone => Ok None
  | AInt z => Ok (Some [z])
  | ABool b => Ok (Some [if b then 1 else 0])      (* isinstance(True, int) *)
  | AStr s => do l <- mapM (fun x => py_int (AStr x)) (split_on "," s); Ok (Some l)
  | ASeq _ l => do l' <- mapM py_int l; Ok (Some l')
  | _ => dge                                        (* DataGenTypeError *)
  end.

(* ------------------------------------------------------------------ dates *)

Definition parser := string -> result dt.   (* dateutil.parser.parse; naive result: d_tz = None *)

Definition ensure_tz (t : dt) : dt :=
  match d_tz t with Some _ => t | None => mkDT (d_days t) (d_us t) (Some 0) end.

(* parse_datetimespec on a string ("now"/"today" read the clock: outside the model) *)
Definition parse_dts (P : parser) (s : string) : result dt :=
  if String.eqb s "now" || String.eqb s "today" then Err Unsupported
  else do t <- P s; Ok (ensure_tz t).

(* datetime.combine(<date d>, start.time(), tzinfo=start.tzinfo): the start's wall time, in the
   start's zone, on another day *)
Definition at_start_time (start : dt) (days : Z) : dt := mkDT days (d_us start) (d_tz start).

Definition norm_start (P : parser) (now : dt) (a : arg) : result (dt * precision) :=
  match a with
  | AStr s => do t <- parse_dts P s; Ok (t, if is_datetime s then PDateTime else PDate)
  | ADateTime t => Ok (ensure_tz t, PDateTime)
  | ADate d => Ok (mkDT d 0 (Some 0), PDate)
  | _ => if truthy a then type_error else Ok (ensure_tz now, PDateTime)
  end.

Definition norm_until (P : parser) (start : dt) (a : arg) : result (option dt) :=
  if negb (truthy a) then Ok None
  else match a with
       | AStr s =>
         if is_datetime s
         then do t <- parse_dts P s; Ok (Some t)                     (* the instant written *)
         else do t <- P s; Ok (Some (ensure_tz (at_start_time start (d_days t))))
       | ADateTime t => Ok (Some (ensure_tz t))                      (* tested before `date` *)
       | ADate d => Ok (Some (ensure_tz (at_start_time start d)))
       | _ => dge
       end.

(* ------------------------------------------------------------------ frequency, weekdays *)

Definition freq_of (s : string) : option Z :=
  if String.eqb s "YEARLY" then Some 0 else if String.eqb s "MONTHLY" then Some 1
  else if String.eqb s "WEEKLY" then Some 2 else if String.eqb s "DAILY" then Some 3
  else if String.eqb s "HOURLY" then Some 4 else if String.eqb s "MINUTELY" then Some 5
  else if String.eqb s "SECONDLY" then Some 6 else None.

Definition is_time_freq (f : Z) : bool := 4 <=? f.

Definition norm_freq (a : arg) (p : precision) : result Z :=
  match a with
  | AStr s =>
    match freq_of (upper s) with
    | Some f => match p with
                | PDate => if is_time_freq f then dge else Ok f
                | PDateTime => Ok f
                end
    | None => dge
    end
  | _ => dge               (* AttributeError on .upper(), caught and re-raised as DataGenError *)
  end.

Definition weekday_of (s : string) : option Z :=
  if String.eqb s "MO" then Some 0 else if String.eqb s "TU" then Some 1
  else if String.eqb s "WE" then Some 2 else if String.eqb s "TH" then Some 3
  else if String.eqb s "FR" then Some 4 else if String.eqb s "SA" then Some 5
  else if String.eqb s "SU" then Some 6 else None.

Fixpoint span_word (s : string) : string * string :=
  match s with
  | String c r => if is_word c then let '(w, rest) := span_word r in (String c w, rest)
                  else (EmptyString, s)
  | EmptyString => (EmptyString, EmptyString)
  end.

Fixpoint first_line (s : string) : string :=
  match s with
  | String c r => if code c =? 10 then EmptyString else String c (first_line r)
  | EmptyString => EmptyString
  end.

(* the prefix of s before its last ")" , if any *)
Fixpoint before_last_paren (s : string) : option string :=
  match s with
  | EmptyString => None
  | String c r =>
    match before_last_paren r with
    | Some p => Some (String c p)
    | None => if code c =? 41 then Some EmptyString else None
    end
  end.

(* re.match(r"\s*(?P<weekday>\w+)\((?P<offset>.+)\)\s*", day) *)
Definition split_weekday (s : string) : option (string * string) :=
  let '(w, rest) := span_word (lstrip s) in
  match w, rest with
  | String _ _, String c body =>
    if code c =? 40 then
      match before_last_paren (first_line body) with
      | Some (String o os) => Some (w, String o os)
      | _ => None
      end
    else None
  | _, _ => None
  end.

Definition parse_weekday (s : string) : result wday :=
  if contains_char (fun c => code c =? 40) s then
    match split_weekday s with
    | None => dge                                         (* DataGenSyntaxError *)
    | Some (w, off) =>
      match parse_int off with
      | None => dge                                       (* DataGenTypeError *)
      | Some n =>
        match weekday_of (strip (upper w)) with
        | Some d => Ok (WD d (if n =? 0 then None else Some n))
        | None => dge
        end
      end
    end
  else
    match weekday_of (strip (upper s)) with
    | Some d => Ok (WD d None)
    | None => dge
    end.

Definition weekdays (a : arg) : result (option (list wday)) :=
  if negb (truthy a) then Ok None
  else match a with
       | AStr s => do l <- mapM parse_weekday (split_on "," s); Ok (Some l)
       | _ => dge
       end.

(* ------------------------------------------------------------------ include / exclude *)

(* _process_special_cases(case, action): mr/md are the rruleset methods chosen by action *)
Fixpoint specials (P : parser) (start : dt) (mr md : method) (a : arg) : result (list call) :=
  match a with
  | ASeq _ l =>
    (fix go (l : list arg) : result (list call) :=
       match l with
       | [] => Ok []
       | x :: r => do c <- specials P start mr md x; do cs <- go r; Ok (c ++ cs)
       end) l
  | ARule rs => Ok [CSet mr rs]
  | ADateTime t => Ok [CDate md (ensure_tz t)]          (* a naive value means UTC *)
  | ADate d => Ok [CDate md (at_start_time start d)]
  | AStr s => do t <- P s; Ok [CDate md (at_start_time start (d_days t))]   (* parse_date *)
  | _ => type_error
  end.

(* the specification side of the flattening theorem: leaves of the nested lists, in order *)
Fixpoint flatten (a : arg) : list arg :=
  match a with
  | ASeq _ l => (fix go (l : list arg) : list arg :=
                   match l with [] => [] | x :: r => flatten x ++ go r end) l
  | _ => [a]
  end.

Definition leaf_call (P : parser) (start : dt) (mr md : method) (a : arg) : result call :=
  match a with
  | ARule rs => Ok (CSet mr rs)
  | ADateTime t => Ok (CDate md (ensure_tz t))
  | ADate d => Ok (CDate md (at_start_time start d))
  | AStr s => do t <- P s; Ok (CDate md (at_start_time start (d_days t)))
  | _ => type_error
  end.

(* ------------------------------------------------------------------ CalendarRule.__init__ *)

Definition check_undoc (uuf bysetpos byeaster cache byweekno : arg) : result unit :=
  if negb (truthy uuf) && (truthy bysetpos || truthy byeaster || truthy cache || truthy byweekno)
  then dge else Ok tt.

Definition SU : wday := WD 6 None.

(* `if not interval: raise DataGenValueError` (the engine never advances with an interval of 0) *)
Definition check_interval (iv : arg) : result unit := if truthy iv then Ok tt else dge.

Definition special_part (P : parser) (start : dt) (mr md : method) (a : arg) : result (list call) :=
  if truthy a then specials P start mr md a else Ok [].

Definition wire (P : parser) (now : dt) (a : sched_args)
  : result (rrule_args * precision * list call) :=
  match s_freq a with
  | None => type_error                    (* missing required argument, raised at call time *)
  | Some fq =>
    let cache := dflt (ABool false) (s_cache a) in
    do _ <- check_undoc (dflt (ABool false) (s_uuf a)) (dflt ANone (s_bysetpos a))
                        (dflt ANone (s_byeaster a)) cache (dflt ANone (s_byweekno a));
    do sp <- norm_start P now (dflt ANone (s_start_date a));
    let '(start, p) := sp in
    do bysetpos <- ints (dflt ANone (s_bysetpos a));
    do bymonth <- ints (dflt ANone (s_bymonth a));
    do bymonthday <- ints (dflt ANone (s_bymonthday a));
    do byyearday <- ints (dflt ANone (s_byyearday a));
    do byeaster <- ints (dflt ANone (s_byeaster a));
    do byhour <- ints (dflt ANone (s_byhour a));
    do byminute <- ints (dflt ANone (s_byminute a));
    do bysecond <- ints (dflt ANone (s_bysecond a));
    do byweekno <- ints (dflt ANone (s_byweekno a));
    do until <- norm_until P start (dflt ANone (s_until a));
    do freq <- norm_freq fq p;
    do _ <- check_interval (dflt (AInt 1) (s_interval a));
    do byweekday <- weekdays (dflt ANone (s_byweekday a));
    let r := mkRR freq start (to_scalar (dflt (AInt 1) (s_interval a))) (Some SU)
                  (to_scalar (dflt ANone (s_count a))) until
                  bysetpos bymonth bymonthday byyearday byeaster byweekno byweekday
                  byhour byminute bysecond (to_scalar cache) in
    do ex <- special_part P start MExRule MExDate (dflt ANone (s_exclude a));
    do inc <- special_part P start MRRule MRDate (dflt ANone (s_include a));
    Ok (r, p, ex ++ inc)
  end.

(* the rruleset object a successfully constructed CalendarRule owns *)
Definition ruleset_of (a : sched_args) (r : rrule_args) (sp : list call) : ruleset :=
  RS (to_scalar (dflt (ABool false) (s_cache a))) (CRule MRRule r :: sp).

(* ------------------------------------------------------------------ emitted values *)

Inductive value := VDate (days : Z) | VDateTime (t : dt).

(* _next_date / _next_datetime *)
Definition emit_next (p : precision) (x : dt) : value :=
  match p with PDate => VDate (d_days x) | PDateTime => VDateTime x end.

(* how the rule is consumed:
   MCount n   a template with `count: n` evaluating the (memoised) field n times: .next()
   MForEach   `for_each`: iter(rule) = iter(rule.ruleset) — bypasses .next()
   MDirect n  n calls of next(rule) from Python                                         *)
Inductive mode := MCount (n : nat) | MForEach | MDirect (n : nat).

(* [stream] = what the engine yields for the rule set (as far as it was asked) *)
Definition rows (p : precision) (m : mode) (stream : list dt) : result (list value) :=
  match m with
  | MCount n =>
    if (List.length stream <? n)%nat then dge    (* "Could not generate enough values" *)
    else Ok (map (emit_next p) (firstn n stream))
  | MDirect n =>
    if (List.length stream <? n)%nat then Err StopIter
    else Ok (map (emit_next p) (firstn n stream))
  | MForEach => Ok (map VDateTime stream)
  end.

(* ------------------------------------------------------------------ whole expressions *)

(* A keyword value as written in a recipe / in the harness: literals, sequences and nested
   Schedule.Event calls, which are evaluated (constructed) before the enclosing call. *)
Inductive expr :=
| ELit (a : arg)
| ESeq (tup : bool) (l : list expr)
| EEvent (kw : list (string * expr)).

Fixpoint assoc {A} (k : string) (l : list (string * A)) : option A :=
  match l with
  | [] => None
  | (k', v) :: r => if String.eqb k k' then Some v else assoc k r
  end.

Definition event_keys : list string :=
  ["freq"; "start_date"; "interval"; "count"; "until"; "bysetpos"; "bymonth"; "bymonthday";
   "byyearday"; "byeaster"; "byweekno"; "byweekday"; "byhour"; "byminute"; "bysecond";
   "cache"; "exclude"; "include"]%string.

Definition mem_str (k : string) (l : list string) : bool := existsb (String.eqb k) l.

(* via_event = true: Schedule.Functions.Event called with keywords kw (no use_undocumented_features keyword);
   false: CalendarRule called with keywords kw *)
Definition to_sched_args (via_event : bool) (kw : list (string * arg)) : result sched_args :=
  let allowed := if via_event then event_keys else (event_keys ++ ["use_undocumented_features"%string]) in
  if negb (forallb (fun kv => mem_str (fst kv) allowed) kw) then type_error
  else Ok (mkS (assoc "freq" kw) (assoc "start_date" kw) (assoc "interval" kw) (assoc "count" kw)
               (assoc "until" kw) (assoc "bysetpos" kw) (assoc "bymonth" kw) (assoc "bymonthday" kw)
               (assoc "byyearday" kw) (assoc "byeaster" kw) (assoc "byweekno" kw)
               (assoc "byweekday" kw) (assoc "byhour" kw) (assoc "byminute" kw)
               (assoc "bysecond" kw) (assoc "cache" kw) (assoc "exclude" kw) (assoc "include" kw)
               (assoc "use_undocumented_features" kw)).

(* hash(value): @memorable uses the keyword values as part of a dict key *)
Fixpoint hashable (a : arg) : bool :=
  match a with
  | ASeq tup l => tup && (fix go (l : list arg) : bool :=
                            match l with [] => true | x :: r => hashable x && go r end) l
  | AOther => false
  | _ => true
  end.

Section Eval.
  Variable via_event : bool.     (* through Schedule.Event (recipe) or CalendarRule (Python) *)
  Variable memo : bool.          (* @memorable caching active (not inside for_each) *)
  Variable P : parser.
  Variable now : dt.

  Definition call_event (kw : list (string * arg)) : result (ruleset * precision) :=
    if memo && negb (forallb (fun kv => hashable (snd kv)) kw) then type_error
    else
      do a <- to_sched_args via_event kw;
      do w <- wire P now a;
      let '(r, p, sp) := w in
      Ok (ruleset_of a r sp, p).

  Fixpoint eval (e : expr) : result arg :=
    match e with
    | ELit a => Ok a
    | ESeq tup l =>
      do l' <- (fix go (l : list expr) : result (list arg) :=
                  match l with
                  | [] => Ok []
                  | x :: r => do y <- eval x; do ys <- go r; Ok (y :: ys)
                  end) l;
      Ok (ASeq tup l')
    | EEvent kw =>
      do kw' <- (fix go (l : list (string * expr)) : result (list (string * arg)) :=
                   match l with
                   | [] => Ok []
                   | (k, x) :: r => do y <- eval x; do ys <- go r; Ok ((k, y) :: ys)
                   end) kw;
      do rp <- call_event kw';
      Ok (ARule (fst rp))
    end.

  Definition eval_kw (kw : list (string * expr)) : result (list (string * arg)) :=
    mapM (fun kx => do y <- eval (snd kx); Ok (fst kx, y)) kw.

  (* the top-level Schedule.Event and the values the recipe / the caller sees *)
  Definition run (kw : list (string * expr)) (m : mode) (stream : list dt)
    : result (ruleset * list value) :=
    do kw' <- eval_kw kw;
    do rp <- call_event kw';
    do vs <- rows (snd rp) m stream;
    Ok (fst rp, vs).
End Eval.

(* ------------------------------------------------------------------ equality tests *)

Definition dt_eqb (a b : dt) : bool :=
  (d_days a =? d_days b) && (d_us a =? d_us b) && option_eqb Z.eqb (d_tz a) (d_tz b).

Definition scalar_eqb (a b : scalar) : bool :=
  match a, b with
  | SNone, SNone => true
  | SBool x, SBool y => Bool.eqb x y
  | SInt x, SInt y => x =? y
  | SStr x, SStr y => String.eqb x y
  | SOther, SOther => true
  | _, _ => false
  end.

Definition wday_eqb (a b : wday) : bool :=
  match a, b with WD d1 n1, WD d2 n2 => (d1 =? d2) && option_eqb Z.eqb n1 n2 end.

Definition method_eqb (a b : method) : bool :=
  match a, b with
  | MRRule, MRRule | MExRule, MExRule | MRDate, MRDate | MExDate, MExDate => true
  | _, _ => false
  end.

Definition zl_eqb := option_eqb (list_eqb Z.eqb).

Definition rrule_eqb (a b : rrule_args) : bool :=
  (r_freq a =? r_freq b) && dt_eqb (r_dtstart a) (r_dtstart b)
  && scalar_eqb (r_interval a) (r_interval b) && option_eqb wday_eqb (r_wkst a) (r_wkst b)
  && scalar_eqb (r_count a) (r_count b) && option_eqb dt_eqb (r_until a) (r_until b)
  && zl_eqb (r_bysetpos a) (r_bysetpos b) && zl_eqb (r_bymonth a) (r_bymonth b)
  && zl_eqb (r_bymonthday a) (r_bymonthday b) && zl_eqb (r_byyearday a) (r_byyearday b)
  && zl_eqb (r_byeaster a) (r_byeaster b) && zl_eqb (r_byweekno a) (r_byweekno b)
  && option_eqb (list_eqb wday_eqb) (r_byweekday a) (r_byweekday b)
  && zl_eqb (r_byhour a) (r_byhour b) && zl_eqb (r_byminute a) (r_byminute b)
  && zl_eqb (r_bysecond a) (r_bysecond b) && scalar_eqb (r_cache a) (r_cache b).

Fixpoint ruleset_eqb (a b : ruleset) : bool :=
  match a, b with
  | RS c1 l1, RS c2 l2 =>
    scalar_eqb c1 c2 &&
    (fix go (l1 l2 : list call) : bool :=
       match l1, l2 with
       | [], [] => true
       | x :: r1, y :: r2 =>
         (match x, y with
          | CRule m1 r1', CRule m2 r2' => method_eqb m1 m2 && rrule_eqb r1' r2'
          | CSet m1 s1, CSet m2 s2 => method_eqb m1 m2 && ruleset_eqb s1 s2
          | CDate m1 d1, CDate m2 d2 => method_eqb m1 m2 && dt_eqb d1 d2
          | _, _ => false
          end) && go r1 r2
       | _, _ => false
       end) l1 l2
  end.

Definition value_eqb (a b : value) : bool :=
  match a, b with
  | VDate x, VDate y => x =? y
  | VDateTime x, VDateTime y => dt_eqb x y
  | _, _ => false
  end.

(* ------------------------------------------------------------------ correspondence cases *)

Inductive expected :=
| XOk (rs : ruleset) (vals : list value)   (* engine calls observed + values seen by the caller *)
| XErr (e : err)                           (* exception class (direct Python call) *)
| XErrAny                                  (* recipe run failed with a DataGenError *)
| XEngine.                                 (* the ENGINE raised (its own validation): outside the model *)

Inductive case :=
| CEvent (via_event memo : bool) (ptab : list (string * result dt)) (now : dt)
         (kw : list (string * expr)) (m : mode) (stream : list dt) (exp : expected).

Definition table_parser (ptab : list (string * result dt)) : parser :=
  fun s => match assoc s ptab with Some r => r | None => Err BadOracle end.

Definition check_case (c : case) : bool :=
  match c with
  | CEvent via memo ptab now kw m stream exp =>
    let out := run via memo (table_parser ptab) now kw m stream in
    match exp, out with
    | XOk rs vals, Ok (rs', vals') => ruleset_eqb rs rs' && list_eqb value_eqb vals vals'
    | XErr e, Err e' => err_eqb e e'
    | XErrAny, Err (DGE _) => true
    | XErrAny, Err (Internal _) => true      (* wrapped into DataGenError by the interpreter *)
    | XEngine, _ => true
    | _, _ => false
    end
  end.
