(* Schedule.v — model of snowfakery/standard_plugins/Schedule.py (property C15).

   What is modelled: Snowfakery's own part of Schedule.Event, i.e. the WIRING of the recipe
   keywords to the keywords of the recurrence engine (dateutil.rrule / rruleset):
     CalendarRule.__init__, _check_undocumented_features, _normalize_start_date,
     _normalize_until, _normalize_frequency, _normalize_weekday / _parse_weekday /
     _split_weekday, process_list_of_ints, _process_special_cases, the choice of
     _next_date / _next_datetime, CalendarRule.__iter__ (used by for_each), and the
     keyword pass-through of Schedule.Functions.Event (with the hashability requirement
     that @memorable puts on its arguments outside for_each).
   The engine: the occurrences it yields are an explicit input of [run] (a stream); for rules of
   frequency yearly .. daily and rule sets in one zone the section "the recurrence engine" below
   is an executable model of dateutil.rrule / rruleset ([rr_occ], [rs_occ]) that the correspondence
   check compares with that stream ([engine_ok]).  dateutil.parser.parse is an explicit function
   argument [P], datetime.now() an explicit argument [now].  The model has no state: a schedule's
   outcome is a function of its own keywords ([CSession] checks every schedule of a history alone).

   Dates: [dt] = (proleptic ordinal of the local date, microsecond of the local day,
   utcoffset in seconds or None for a naive value).                                     *)
From SFV Require Import Base.

(* ------------------------------------------------------------------ values *)

Record dt := mkDT { d_days : Z; d_us : Z; d_tz : option Z }.

Inductive scalar := SNone | SBool (b : bool) | SInt (z : Z) | SStr (s : string) | SOther.
Inductive wday := WD (day : Z) (n : option Z).       (* dateutil weekday(day)(n) *)
Inductive precision := PDate | PDateTime.
Inductive method := MRRule | MExRule | MRDate | MExDate.   (* rruleset.rrule/exrule/rdate/exdate *)

(* the keyword arguments of dateutil.rrule.rrule(...) *)
Record rrule_args := mkRR {
  r_freq : Z;                         (* YEARLY=0 .. SECONDLY=6 *)
  r_dtstart : dt;
  r_interval : scalar;
  r_wkst : option wday;
  r_count : scalar;
  r_until : option dt;
  r_bysetpos : option (list Z);
  r_bymonth : option (list Z);
  r_bymonthday : option (list Z);
  r_byyearday : option (list Z);
  r_byeaster : option (list Z);
  r_byweekno : option (list Z);
  r_byweekday : option (list wday);
  r_byhour : option (list Z);
  r_byminute : option (list Z);
  r_bysecond : option (list Z);
  r_cache : scalar
}.

(* an rruleset object = the calls Snowfakery made on it, in order *)
Inductive ruleset := RS (cache : scalar) (calls : list call)
with call :=
| CRule (m : method) (r : rrule_args)
| CSet (m : method) (rs : ruleset)
| CDate (m : method) (d : dt).

(* a Python value arriving as a keyword argument *)
Inductive arg :=
| ANone
| ABool (b : bool)
| AInt (z : Z)
| AStr (s : string)
| ASeq (tup : bool) (l : list arg)     (* tuple (true) or list (false) *)
| ADate (d : Z)                        (* datetime.date *)
| ADateTime (t : dt)                   (* datetime.datetime *)
| ARule (rs : ruleset)                 (* an already constructed CalendarRule; .ruleset = rs *)
| AOther.                              (* a non-empty dict: none of the types above *)

(* the 19 keywords of CalendarRule.__init__; None = keyword not given *)
Record sched_args := mkS {
  s_freq : option arg;
  s_start_date : option arg;
  s_interval : option arg;
  s_count : option arg;
  s_until : option arg;
  s_bysetpos : option arg;
  s_bymonth : option arg;
  s_bymonthday : option arg;
  s_byyearday : option arg;
  s_byeaster : option arg;
  s_byweekno : option arg;
  s_byweekday : option arg;
  s_byhour : option arg;
  s_byminute : option arg;
  s_bysecond : option arg;
  s_cache : option arg;
  s_exclude : option arg;
  s_include : option arg;
  s_uuf : option arg                    (* use_undocumented_features *)
}.

Definition dflt (d : arg) (o : option arg) : arg := match o with Some v => v | None => d end.

Definition truthy (a : arg) : bool :=
  match a with
  | ANone => false
  | ABool b => b
  | AInt z => negb (z =? 0)
  | AStr s => negb (String.eqb s "")
  | ASeq _ l => match l with [] => false | _ => true end
  | ADate _ | ADateTime _ | ARule _ | AOther => true
  end.

(* values handed to the engine unchanged (interval, count, cache) are compared as scalars *)
Definition to_scalar (a : arg) : scalar :=
  match a with
  | ANone => SNone
  | ABool b => SBool b
  | AInt z => SInt z
  | AStr s => SStr s
  | _ => SOther
  end.

(* ------------------------------------------------------------------ strings *)

Definition code (c : ascii) : Z := Z.of_N (N_of_ascii c).

(* str.isspace() on ASCII: \t \n \v \f \r, \x1c-\x1f, space *)
Definition is_space (c : ascii) : bool :=
  let n := code c in ((9 <=? n) && (n <=? 13)) || ((28 <=? n) && (n <=? 32)).

Definition is_digit (c : ascii) : bool := let n := code c in (48 <=? n) && (n <=? 57).

(* regex \w on ASCII *)
Definition is_word (c : ascii) : bool :=
  let n := code c in
  is_digit c || ((65 <=? n) && (n <=? 90)) || ((97 <=? n) && (n <=? 122)) || (n =? 95).

Definition upper_char (c : ascii) : ascii :=
  let n := code c in
  if (97 <=? n) && (n <=? 122) then ascii_of_N (Z.to_N (n - 32)) else c.

Fixpoint upper (s : string) : string :=
  match s with EmptyString => EmptyString | String c r => String (upper_char c) (upper r) end.

Fixpoint lstrip (s : string) : string :=
  match s with
  | String c r => if is_space c then lstrip r else s
  | EmptyString => EmptyString
  end.

Fixpoint rstrip (s : string) : string :=
  match s with
  | EmptyString => EmptyString
  | String c r =>
    match rstrip r with
    | EmptyString => if is_space c then EmptyString else String c EmptyString
    | r' => String c r'
    end
  end.

Definition strip (s : string) : string := rstrip (lstrip s).

Fixpoint contains_char (p : ascii -> bool) (s : string) : bool :=
  match s with EmptyString => false | String c r => p c || contains_char p r end.

(* str.split(sep): always at least one element *)
Fixpoint split_on (sep : ascii) (s : string) : list string :=
  match s with
  | EmptyString => [EmptyString]
  | String c r =>
    if Ascii.eqb c sep then EmptyString :: split_on sep r
    else match split_on sep r with
         | h :: t => String c h :: t
         | [] => [String c EmptyString]
         end
  end.

(* is_datetime: bool(set(dt).intersection(" TZ+:")) *)
Definition is_datetime (s : string) : bool :=
  contains_char (fun c => let n := code c in
                          (n =? 32) || (n =? 84) || (n =? 90) || (n =? 43) || (n =? 58)) s.

(* int(str): surrounding whitespace, optional sign, decimal digits, single underscores
   between digits.  (Non-ASCII digits are outside the model; the generator is ASCII.) *)
Fixpoint digits_val (acc : Z) (last_digit : bool) (s : string) : option Z :=
  match s with
  | EmptyString => if last_digit then Some acc else None
  | String c r =>
    if is_digit c then digits_val (acc * 10 + (code c - 48)) true r
    else if (code c =? 95) && last_digit then digits_val acc false r
    else None
  end.

Definition parse_int (s0 : string) : option Z :=
  match strip s0 with
  | String c r =>
    if code c =? 45 then option_map Z.opp (digits_val 0 false r)
    else if code c =? 43 then digits_val 0 false r
    else digits_val 0 false (String c r)
  | EmptyString => None
  end.

(* ------------------------------------------------------------------ process_list_of_ints *)

Definition type_error {A} : result A := Err (Internal "TypeError").
Definition value_error {A} : result A := Err (Internal "ValueError").
Definition dge {A} : result A := Err (DGE "").

Fixpoint mapM {A B} (f : A -> result B) (l : list A) : result (list B) :=
  match l with
  | [] => Ok []
  | x :: r => do y <- f x; do ys <- mapM f r; Ok (y :: ys)
  end.

(* int(v) *)
Definition py_int (a : arg) : result Z :=
  match a with
  | AInt z => Ok z
  | ABool b => Ok (if b then 1 else 0)
  | AStr s => match parse_int s with Some z => Ok z | None => value_error end
  | _ => type_error
  end.

Definition ints (a : arg) : result (option (list Z)) :=
  match a with
  | ANone => Ok None
  | AInt z => Ok (Some [z])
  | ABool b => Ok (Some [if b then 1 else 0])      (* isinstance(True, int) *)
  | AStr s => do l <- mapM (fun x => py_int (AStr x)) (split_on "," s); Ok (Some l)
  | ASeq _ l => do l' <- mapM py_int l; Ok (Some l')
  | _ => dge                                        (* DataGenTypeError *)
  end.

(* ------------------------------------------------------------------ dates *)

Definition parser := string -> result dt.   (* dateutil.parser.parse; naive result: d_tz = None *)

Definition ensure_tz (t : dt) : dt :=
  match d_tz t with Some _ => t | None => mkDT (d_days t) (d_us t) (Some 0) end.

(* parse_datetimespec on a string ("now"/"today" read the clock: outside the model) *)
Definition parse_dts (P : parser) (s : string) : result dt :=
  if String.eqb s "now" || String.eqb s "today" then Err Unsupported
  else do t <- P s; Ok (ensure_tz t).

(* datetime.combine(<date d>, start.time(), tzinfo=start.tzinfo): the start's wall time, in the
   start's zone, on another day *)
Definition at_start_time (start : dt) (days : Z) : dt := mkDT days (d_us start) (d_tz start).

Definition norm_start (P : parser) (now : dt) (a : arg) : result (dt * precision) :=
  match a with
  | AStr s => do t <- parse_dts P s; Ok (t, if is_datetime s then PDateTime else PDate)
  | ADateTime t => Ok (ensure_tz t, PDateTime)
  | ADate d => Ok (mkDT d 0 (Some 0), PDate)
  | _ => if truthy a then type_error else Ok (ensure_tz now, PDateTime)
  end.

Definition norm_until (P : parser) (start : dt) (a : arg) : result (option dt) :=
  if negb (truthy a) then Ok None
  else match a with
       | AStr s =>
         if is_datetime s
         then do t <- parse_dts P s; Ok (Some t)                     (* the instant written *)
         else do t <- P s; Ok (Some (ensure_tz (at_start_time start (d_days t))))
       | ADateTime t => Ok (Some (ensure_tz t))                      (* tested before `date` *)
       | ADate d => Ok (Some (ensure_tz (at_start_time start d)))
       | _ => dge
       end.

(* ------------------------------------------------------------------ frequency, weekdays *)

Definition freq_of (s : string) : option Z :=
  if String.eqb s "YEARLY" then Some 0 else if String.eqb s "MONTHLY" then Some 1
  else if String.eqb s "WEEKLY" then Some 2 else if String.eqb s "DAILY" then Some 3
  else if String.eqb s "HOURLY" then Some 4 else if String.eqb s "MINUTELY" then Some 5
  else if String.eqb s "SECONDLY" then Some 6 else None.

Definition is_time_freq (f : Z) : bool := 4 <=? f.

Definition norm_freq (a : arg) (p : precision) : result Z :=
  match a with
  | AStr s =>
    match freq_of (upper s) with
    | Some f => match p with
                | PDate => if is_time_freq f then dge else Ok f
                | PDateTime => Ok f
                end
    | None => dge
    end
  | _ => dge               (* AttributeError on .upper(), caught and re-raised as DataGenError *)
  end.

Definition weekday_of (s : string) : option Z :=
  if String.eqb s "MO" then Some 0 else if String.eqb s "TU" then Some 1
  else if String.eqb s "WE" then Some 2 else if String.eqb s "TH" then Some 3
  else if String.eqb s "FR" then Some 4 else if String.eqb s "SA" then Some 5
  else if String.eqb s "SU" then Some 6 else None.

Fixpoint span_word (s : string) : string * string :=
  match s with
  | String c r => if is_word c then let '(w, rest) := span_word r in (String c w, rest)
                  else (EmptyString, s)
  | EmptyString => (EmptyString, EmptyString)
  end.

Fixpoint first_line (s : string) : string :=
  match s with
  | String c r => if code c =? 10 then EmptyString else String c (first_line r)
  | EmptyString => EmptyString
  end.

(* the prefix of s before its last ")" , if any *)
Fixpoint before_last_paren (s : string) : option string :=
  match s with
  | EmptyString => None
  | String c r =>
    match before_last_paren r with
    | Some p => Some (String c p)
    | None => if code c =? 41 then Some EmptyString else None
    end
  end.

(* re.match(r"\s*(?P<weekday>\w+)\((?P<offset>.+)\)\s*", day) *)
Definition split_weekday (s : string) : option (string * string) :=
  let '(w, rest) := span_word (lstrip s) in
  match w, rest with
  | String _ _, String c body =>
    if code c =? 40 then
      match before_last_paren (first_line body) with
      | Some (String o os) => Some (w, String o os)
      | _ => None
      end
    else None
  | _, _ => None
  end.

Definition parse_weekday (s : string) : result wday :=
  if contains_char (fun c => code c =? 40) s then
    match split_weekday s with
    | None => dge                                         (* DataGenSyntaxError *)
    | Some (w, off) =>
      match parse_int off with
      | None => dge                                       (* DataGenTypeError *)
      | Some n =>
        match weekday_of (strip (upper w)) with
        | Some d => Ok (WD d (if n =? 0 then None else Some n))
        | None => dge
        end
      end
    end
  else
    match weekday_of (strip (upper s)) with
    | Some d => Ok (WD d None)
    | None => dge
    end.

Definition weekdays (a : arg) : result (option (list wday)) :=
  if negb (truthy a) then Ok None
  else match a with
       | AStr s => do l <- mapM parse_weekday (split_on "," s); Ok (Some l)
       | _ => dge
       end.

(* ------------------------------------------------------------------ include / exclude *)

(* _process_special_cases(case, action): mr/md are the rruleset methods chosen by action *)
Fixpoint specials (P : parser) (start : dt) (mr md : method) (a : arg) : result (list call) :=
  match a with
  | ASeq _ l =>
    (fix go (l : list arg) : result (list call) :=
       match l with
       | [] => Ok []
       | x :: r => do c <- specials P start mr md x; do cs <- go r; Ok (c ++ cs)
       end) l
  | ARule rs => Ok [CSet mr rs]
  | ADateTime t => Ok [CDate md (ensure_tz t)]          (* a naive value means UTC *)
  | ADate d => Ok [CDate md (at_start_time start d)]
  | AStr s => do t <- P s; Ok [CDate md (at_start_time start (d_days t))]   (* parse_date *)
  | _ => type_error
  end.

(* the specification side of the flattening theorem: leaves of the nested lists, in order *)
Fixpoint flatten (a : arg) : list arg :=
  match a with
  | ASeq _ l => (fix go (l : list arg) : list arg :=
                   match l with [] => [] | x :: r => flatten x ++ go r end) l
  | _ => [a]
  end.

Definition leaf_call (P : parser) (start : dt) (mr md : method) (a : arg) : result call :=
  match a with
  | ARule rs => Ok (CSet mr rs)
  | ADateTime t => Ok (CDate md (ensure_tz t))
  | ADate d => Ok (CDate md (at_start_time start d))
  | AStr s => do t <- P s; Ok (CDate md (at_start_time start (d_days t)))
  | _ => type_error
  end.

(* ------------------------------------------------------------------ CalendarRule.__init__ *)

Definition check_undoc (uuf bysetpos byeaster cache byweekno : arg) : result unit :=
  if negb (truthy uuf) && (truthy bysetpos || truthy byeaster || truthy cache || truthy byweekno)
  then dge else Ok tt.

Definition SU : wday := WD 6 None.

(* `if not interval: raise DataGenValueError` (the engine never advances with an interval of 0) *)
Definition check_interval (iv : arg) : result unit := if truthy iv then Ok tt else dge.

Definition special_part (P : parser) (start : dt) (mr md : method) (a : arg) : result (list call) :=
  if truthy a then specials P start mr md a else Ok [].

Definition wire (P : parser) (now : dt) (a : sched_args)
  : result (rrule_args * precision * list call) :=
  match s_freq a with
  | None => type_error                    (* missing required argument, raised at call time *)
  | Some fq =>
    let cache := dflt (ABool false) (s_cache a) in
    do _ <- check_undoc (dflt (ABool false) (s_uuf a)) (dflt ANone (s_bysetpos a))
                        (dflt ANone (s_byeaster a)) cache (dflt ANone (s_byweekno a));
    do sp <- norm_start P now (dflt ANone (s_start_date a));
    let '(start, p) := sp in
    do bysetpos <- ints (dflt ANone (s_bysetpos a));
    do bymonth <- ints (dflt ANone (s_bymonth a));
    do bymonthday <- ints (dflt ANone (s_bymonthday a));
    do byyearday <- ints (dflt ANone (s_byyearday a));
    do byeaster <- ints (dflt ANone (s_byeaster a));
    do byhour <- ints (dflt ANone (s_byhour a));
    do byminute <- ints (dflt ANone (s_byminute a));
    do bysecond <- ints (dflt ANone (s_bysecond a));
    do byweekno <- ints (dflt ANone (s_byweekno a));
    do until <- norm_until P start (dflt ANone (s_until a));
    do freq <- norm_freq fq p;
    do _ <- check_interval (dflt (AInt 1) (s_interval a));
    do byweekday <- weekdays (dflt ANone (s_byweekday a));
    let r := mkRR freq start (to_scalar (dflt (AInt 1) (s_interval a))) (Some SU)
                  (to_scalar (dflt ANone (s_count a))) until
                  bysetpos bymonth bymonthday byyearday byeaster byweekno byweekday
                  byhour byminute bysecond (to_scalar cache) in
    do ex <- special_part P start MExRule MExDate (dflt ANone (s_exclude a));
    do inc <- special_part P start MRRule MRDate (dflt ANone (s_include a));
    Ok (r, p, ex ++ inc)
  end.

(* the rruleset object a successfully constructed CalendarRule owns *)
Definition ruleset_of (a : sched_args) (r : rrule_args) (sp : list call) : ruleset :=
  RS (to_scalar (dflt (ABool false) (s_cache a))) (CRule MRRule r :: sp).

(* ------------------------------------------------------------------ emitted values *)

Inductive value := VDate (days : Z) | VDateTime (t : dt).

(* _next_date / _next_datetime *)
Definition emit_next (p : precision) (x : dt) : value :=
  match p with PDate => VDate (d_days x) | PDateTime => VDateTime x end.

(* how the rule is consumed:
   MCount n   a template with `count: n` evaluating the (memoised) field n times: .next()
   MForEach   `for_each`: iter(rule) = iter(rule.ruleset) — bypasses .next()
   MDirect n  n calls of next(rule) from Python                                         *)
Inductive mode := MCount (n : nat) | MForEach | MDirect (n : nat).

(* [stream] = what the engine yields for the rule set (as far as it was asked) *)
Definition rows (p : precision) (m : mode) (stream : list dt) : result (list value) :=
  match m with
  | MCount n =>
    if (List.length stream <? n)%nat then dge    (* "Could not generate enough values" *)
    else Ok (map (emit_next p) (firstn n stream))
  | MDirect n =>
    if (List.length stream <? n)%nat then Err StopIter
    else Ok (map (emit_next p) (firstn n stream))
  | MForEach => Ok (map VDateTime stream)
  end.

(* ------------------------------------------------------------------ whole expressions *)

(* A keyword value as written in a recipe / in the harness: literals, sequences and nested
   Schedule.Event calls, which are evaluated (constructed) before the enclosing call. *)
Inductive expr :=
| ELit (a : arg)
| ESeq (tup : bool) (l : list expr)
| EEvent (kw : list (string * expr)).

Fixpoint assoc {A} (k : string) (l : list (string * A)) : option A :=
  match l with
  | [] => None
  | (k', v) :: r => if String.eqb k k' then Some v else assoc k r
  end.

Definition event_keys : list string :=
  ["freq"; "start_date"; "interval"; "count"; "until"; "bysetpos"; "bymonth"; "bymonthday";
   "byyearday"; "byeaster"; "byweekno"; "byweekday"; "byhour"; "byminute"; "bysecond";
   "cache"; "exclude"; "include"]%string.

Definition mem_str (k : string) (l : list string) : bool := existsb (String.eqb k) l.

(* via_event = true: Schedule.Functions.Event called with keywords kw (no use_undocumented_features keyword);
   false: CalendarRule called with keywords kw *)
Definition to_sched_args (via_event : bool) (kw : list (string * arg)) : result sched_args :=
  let allowed := if via_event then event_keys else (event_keys ++ ["use_undocumented_features"%string]) in
  if negb (forallb (fun kv => mem_str (fst kv) allowed) kw) then type_error
  else Ok (mkS (assoc "freq" kw) (assoc "start_date" kw) (assoc "interval" kw) (assoc "count" kw)
               (assoc "until" kw) (assoc "bysetpos" kw) (assoc "bymonth" kw) (assoc "bymonthday" kw)
               (assoc "byyearday" kw) (assoc "byeaster" kw) (assoc "byweekno" kw)
               (assoc "byweekday" kw) (assoc "byhour" kw) (assoc "byminute" kw)
               (assoc "bysecond" kw) (assoc "cache" kw) (assoc "exclude" kw) (assoc "include" kw)
               (assoc "use_undocumented_features" kw)).

(* hash(value): @memorable uses the keyword values as part of a dict key *)
Fixpoint hashable (a : arg) : bool :=
  match a with
  | ASeq tup l => tup && (fix go (l : list arg) : bool :=
                            match l with [] => true | x :: r => hashable x && go r end) l
  | AOther => false
  | _ => true
  end.

Section Eval.
  Variable via_event : bool.     (* through Schedule.Event (recipe) or CalendarRule (Python) *)
  Variable memo : bool.          (* @memorable caching active (not inside for_each) *)
  Variable P : parser.
  Variable now : dt.

  Definition call_event (kw : list (string * arg)) : result (ruleset * precision) :=
    if memo && negb (forallb (fun kv => hashable (snd kv)) kw) then type_error
    else
      do a <- to_sched_args via_event kw;
      do w <- wire P now a;
      let '(r, p, sp) := w in
      Ok (ruleset_of a r sp, p).

  Fixpoint eval (e : expr) : result arg :=
    match e with
    | ELit a => Ok a
    | ESeq tup l =>
      do l' <- (fix go (l : list expr) : result (list arg) :=
                  match l with
                  | [] => Ok []
                  | x :: r => do y <- eval x; do ys <- go r; Ok (y :: ys)
                  end) l;
      Ok (ASeq tup l')
    | EEvent kw =>
      do kw' <- (fix go (l : list (string * expr)) : result (list (string * arg)) :=
                   match l with
                   | [] => Ok []
                   | (k, x) :: r => do y <- eval x; do ys <- go r; Ok ((k, y) :: ys)
                   end) kw;
      do rp <- call_event kw';
      Ok (ARule (fst rp))
    end.

  Definition eval_kw (kw : list (string * expr)) : result (list (string * arg)) :=
    mapM (fun kx => do y <- eval (snd kx); Ok (fst kx, y)) kw.

  (* the top-level Schedule.Event and the values the recipe / the caller sees *)
  Definition run (kw : list (string * expr)) (m : mode) (stream : list dt)
    : result (ruleset * list value) :=
    do kw' <- eval_kw kw;
    do rp <- call_event kw';
    do vs <- rows (snd rp) m stream;
    Ok (fst rp, vs).
End Eval.

(* ------------------------------------------------------------------ equality tests *)

Definition dt_eqb (a b : dt) : bool :=
  (d_days a =? d_days b) && (d_us a =? d_us b) && option_eqb Z.eqb (d_tz a) (d_tz b).

(* the instant a value denotes, in microseconds (a naive value is read as UTC) *)
Definition US_DAY : Z := 86400000000.
Definition inst_us (x : dt) : Z :=
  d_days x * US_DAY + d_us x - (match d_tz x with Some o => o | None => 0 end) * 1000000.

(* `until` is compared as an INSTANT: the engine only ever compares it with occurrences
   (theorem C15_until_only_instant), and the value Snowfakery hands over for a native datetime comes
   out of the memo table of parse_datetimespec, whose keys compare equal across zones - its zone
   depends on what was parsed earlier in the process, its instant does not. *)
Definition until_eqb (a b : dt) : bool :=
  match d_tz a, d_tz b with
  | Some _, Some _ => inst_us a =? inst_us b
  | None, None => dt_eqb a b
  | _, _ => false
  end.

Definition scalar_eqb (a b : scalar) : bool :=
  match a, b with
  | SNone, SNone => true
  | SBool x, SBool y => Bool.eqb x y
  | SInt x, SInt y => x =? y
  | SStr x, SStr y => String.eqb x y
  | SOther, SOther => true
  | _, _ => false
  end.

Definition wday_eqb (a b : wday) : bool :=
  match a, b with WD d1 n1, WD d2 n2 => (d1 =? d2) && option_eqb Z.eqb n1 n2 end.

Definition method_eqb (a b : method) : bool :=
  match a, b with
  | MRRule, MRRule | MExRule, MExRule | MRDate, MRDate | MExDate, MExDate => true
  | _, _ => false
  end.

Definition zl_eqb := option_eqb (list_eqb Z.eqb).

Definition rrule_eqb (a b : rrule_args) : bool :=
  (r_freq a =? r_freq b) && dt_eqb (r_dtstart a) (r_dtstart b)
  && scalar_eqb (r_interval a) (r_interval b) && option_eqb wday_eqb (r_wkst a) (r_wkst b)
  && scalar_eqb (r_count a) (r_count b) && option_eqb until_eqb (r_until a) (r_until b)
  && zl_eqb (r_bysetpos a) (r_bysetpos b) && zl_eqb (r_bymonth a) (r_bymonth b)
  && zl_eqb (r_bymonthday a) (r_bymonthday b) && zl_eqb (r_byyearday a) (r_byyearday b)
  && zl_eqb (r_byeaster a) (r_byeaster b) && zl_eqb (r_byweekno a) (r_byweekno b)
  && option_eqb (list_eqb wday_eqb) (r_byweekday a) (r_byweekday b)
  && zl_eqb (r_byhour a) (r_byhour b) && zl_eqb (r_byminute a) (r_byminute b)
  && zl_eqb (r_bysecond a) (r_bysecond b) && scalar_eqb (r_cache a) (r_cache b).

Fixpoint ruleset_eqb (a b : ruleset) : bool :=
  match a, b with
  | RS c1 l1, RS c2 l2 =>
    scalar_eqb c1 c2 &&
    (fix go (l1 l2 : list call) : bool :=
       match l1, l2 with
       | [], [] => true
       | x :: r1, y :: r2 =>
         (match x, y with
          | CRule m1 r1', CRule m2 r2' => method_eqb m1 m2 && rrule_eqb r1' r2'
          | CSet m1 s1, CSet m2 s2 => method_eqb m1 m2 && ruleset_eqb s1 s2
          | CDate m1 d1, CDate m2 d2 => method_eqb m1 m2 && dt_eqb d1 d2
          | _, _ => false
          end) && go r1 r2
       | _, _ => false
       end) l1 l2
  end.

Definition value_eqb (a b : value) : bool :=
  match a, b with
  | VDate x, VDate y => x =? y
  | VDateTime x, VDateTime y => dt_eqb x y
  | _, _ => false
  end.

(* ================================================================== the recurrence engine *)
(* An executable model of what dateutil.rrule / rruleset yield, for the fragment
     freq in YEARLY / MONTHLY / WEEKLY / DAILY, interval >= 1, count, until, bymonth, bymonthday
     (positive and negative), byyearday (positive and negative), byweekday (plain and with ordinals),
     byhour / byminute / bysecond (as a set of times per day), wkst; rule sets with rdate / exdate /
     nested sets as rrule / exrule, all values in one zone offset.
   Outside the fragment (hourly and finer, bysetpos, byweekno, byeaster, mixed zones, non-integer
   interval / count) [rs_occ] answers None and nothing is claimed.
   Dates are proleptic Gregorian ordinals (1 = 0001-01-01, datetime.date.toordinal); occurrences are
   LOCAL microsecond stamps  day * 86400e6 + microsecond of the day  in the rule's zone.            *)

(* ---- calendar arithmetic *)
Definition is_leap (y : Z) : bool := ((y mod 4 =? 0) && negb (y mod 100 =? 0)) || (y mod 400 =? 0).
Definition year_len (y : Z) : Z := if is_leap y then 366 else 365.
Definition days_before_year (y : Z) : Z := 365 * (y - 1) + (y - 1) / 4 - (y - 1) / 100 + (y - 1) / 400.
Definition month_len (y m : Z) : Z :=
  if m =? 2 then (if is_leap y then 29 else 28)
  else if (m =? 4) || (m =? 6) || (m =? 9) || (m =? 11) then 30 else 31.
(* days of the year before the first of month m (1..13) *)
Definition days_before_month (y m : Z) : Z :=
  (367 * m - 362) / 12 - (if m <=? 2 then 0 else if is_leap y then 1 else 2).
Definition days_from_civil (y m d : Z) : Z := days_before_year y + days_before_month y m + d.

(* the year of ordinal n (datetime._ord2ymd: 400 / 100 / 4 / 1 year cycles) *)
Definition year_of (n : Z) : Z :=
  let n0 := n - 1 in
  let n400 := n0 / 146097 in let r1 := n0 mod 146097 in
  let n100 := r1 / 36524 in let r2 := r1 mod 36524 in
  let n4 := r2 / 1461 in let r3 := r2 mod 1461 in
  let n1 := r3 / 365 in
  let y := 400 * n400 + 100 * n100 + 4 * n4 + n1 + 1 in
  if (n1 =? 4) || (n100 =? 4) then y - 1 else y.

(* the month in which day-of-year yd (1-based) of year y falls *)
Definition month_of (y yd : Z) : Z :=
  if yd <=? days_before_month y 2 then 1 else if yd <=? days_before_month y 3 then 2
  else if yd <=? days_before_month y 4 then 3 else if yd <=? days_before_month y 5 then 4
  else if yd <=? days_before_month y 6 then 5 else if yd <=? days_before_month y 7 then 6
  else if yd <=? days_before_month y 8 then 7 else if yd <=? days_before_month y 9 then 8
  else if yd <=? days_before_month y 10 then 9 else if yd <=? days_before_month y 11 then 10
  else if yd <=? days_before_month y 12 then 11 else 12.

Definition civil_from_days (n : Z) : Z * Z * Z :=
  let y := year_of n in
  let yd := n - days_before_year y in
  let m := month_of y yd in
  (y, m, yd - days_before_month y m).

Definition weekday (n : Z) : Z := (n + 6) mod 7.        (* Monday = 0, as datetime.date.weekday *)

(* ---- a rule in normal form *)
Record rule := mkRule {
  q_freq : Z;                    (* 0 YEARLY, 1 MONTHLY, 2 WEEKLY, 3 DAILY *)
  q_d0 : Z;                      (* the day (ordinal) of dtstart *)
  q_y0 : Z; q_m0 : Z;            (* its year and month *)
  q_start : Z;                   (* stamp of dtstart (its microsecond dropped, as dateutil does) *)
  q_interval : Z;
  q_count : option Z;
  q_until : option Z;            (* the largest admissible stamp: the INSTANT of until, in the rule's zone *)
  q_wkst : Z;
  q_bymonth : list Z;            (* [] = no restriction, for every by-list *)
  q_mday_pos : list Z;
  q_mday_neg : list Z;
  q_yday : list Z;
  q_wd : list Z;                 (* weekdays without ordinal *)
  q_nwd : list (Z * Z);          (* (weekday, n): the n-th / n-th last such weekday of the month or year *)
  q_times : list Z               (* seconds of the day, strictly increasing, each 0 <= t < 86400 *)
}.

Definition memz (x : Z) (l : list Z) : bool := existsb (Z.eqb x) l.
Definition nonempty {A} (l : list A) : bool := match l with [] => false | _ => true end.

Definition start_day (q : rule) : Z := q_d0 q.

(* is day n the k-th (k > 0) / k-th last (k < 0) weekday w between first and last? *)
Definition nth_ok (first last n : Z) (wk : Z * Z) : bool :=
  let '(w, k) := wk in
  (weekday n =? w) &&
  (if 0 <? k then (n - first) / 7 =? k - 1 else (last - n) / 7 =? - k - 1).

(* what the filters look at: (ordinal, month, day of month, day of year, length of the month,
   length of the year) *)
Definition dayinfo : Type := Z * Z * Z * Z * Z * Z.

Definition info_of (n : Z) : dayinfo :=
  let '(y, m, d) := civil_from_days n in
  (n, m, d, n - days_before_year y, month_len y m, year_len y).

(* the day-level filters: "each parameter restricts only the dimension it names".
   (a &&& b is a && b, evaluated left to right and only as far as needed) *)
Notation "a &&& b" := (if a then b else false) (at level 40, left associativity).

Definition day_ok (q : rule) (i : dayinfo) : bool :=
  let '(n, m, d, yd, mlen, ylen) := i in
  (match q_bymonth q with [] => true | l => memz m l end) &&&
  (match q_mday_pos q, q_mday_neg q with
   | [], [] => true
   | p, g => if memz d p then true else memz (d - mlen - 1) g
   end) &&&
  (match q_yday q with [] => true | l => if memz yd l then true else memz (yd - ylen - 1) l end) &&&
  (match q_wd q with [] => true | l => memz (weekday n) l end) &&&
  (match q_nwd q with
   | [] => true
   | l => if (q_freq q =? 1) || nonempty (q_bymonth q)
          then existsb (nth_ok (n - d + 1) (n - d + mlen) n) l           (* within the month *)
          else existsb (nth_ok (n - yd + 1) (n - yd + ylen) n) l         (* within the year *)
   end).

(* (year, month) of the rule's start *)
Definition start_ym (q : rule) : Z * Z := (q_y0 q, q_m0 q).

(* the k-th period of the rule: the days lo <= n < hi *)
Definition period (q : rule) (k : Z) : Z * Z :=
  if q_freq q =? 0 then
    let y := fst (start_ym q) + k * q_interval q in (days_from_civil y 1 1, days_from_civil (y + 1) 1 1)
  else if q_freq q =? 1 then
    let mi := 12 * fst (start_ym q) + (snd (start_ym q) - 1) + k * q_interval q in
    let y := mi / 12 in let m := mi mod 12 + 1 in
    (days_from_civil y m 1, days_from_civil y m 1 + month_len y m)
  else if q_freq q =? 2 then
    let d0 := start_day q in
    let s := d0 - (weekday d0 - q_wkst q) mod 7 in
    (s + 7 * q_interval q * k, s + 7 * q_interval q * k + 7)
  else (start_day q + q_interval q * k, start_day q + q_interval q * k + 1).

Definition zrange (lo len : Z) : list Z := map (fun i => lo + Z.of_nat i) (seq 0 (Z.to_nat len)).

(* the days of month m of year y with what the filters need - the same as [map info_of] over the
   month's ordinals (lemma month_days_spec), without a calendar conversion per day *)
Definition month_days (y m : Z) : list dayinfo :=
  let first := days_from_civil y m 1 in
  let mlen := month_len y m in
  let ylen := year_len y in
  let before := days_before_month y m in
  map (fun d => (first + d - 1, m, d, before + d, mlen, ylen)) (zrange 1 mlen).

(* the days of period k, in order (= map info_of (zrange lo (hi - lo)), lemma period_days_spec) *)
Definition period_days (q : rule) (k : Z) : list dayinfo :=
  if q_freq q =? 0 then
    let y := fst (start_ym q) + k * q_interval q in
    flat_map (month_days y) [1; 2; 3; 4; 5; 6; 7; 8; 9; 10; 11; 12]
  else if q_freq q =? 1 then
    let mi := 12 * fst (start_ym q) + (snd (start_ym q) - 1) + k * q_interval q in
    month_days (mi / 12) (mi mod 12 + 1)
  else let '(lo, hi) := period q k in map info_of (zrange lo (hi - lo)).

Definition stamp_ok (q : rule) (s : Z) : bool :=
  (q_start q <=? s) && (match q_until q with Some u => s <=? u | None => true end).

Definition day_stamps (q : rule) (i : dayinfo) : list Z :=
  if day_ok q i then (let '(n, _, _, _, _, _) := i in map (fun t => n * US_DAY + t * 1000000) (q_times q)) else [].

(* the occurrences that fall into period k, in order *)
Definition chunk (q : rule) (k : Z) : list Z :=
  filter (stamp_ok q) (flat_map (day_stamps q) (period_days q k)).

(* Period after period from k on.  need = how many occurrences `count` still allows.
   -> (occurrences, complete?): complete = the rule has no further occurrence at all; otherwise
   (no count, no until) the list is exact for the days before the horizon H.
   None = out of fuel (periods) or out of budget (days scanned; a day of a weekly or daily rule costs
   a calendar conversion and counts four times): nothing is claimed. *)
Fixpoint gen (q : rule) (H : Z) (fuel : nat) (budget : Z) (k : Z) (need : option Z)
  : option (list Z * bool) :=
  let lo := fst (period q k) in
  if (match need with Some c => c <=? 0 | None => false end) then Some ([], true)
  else if (match q_until q with Some u => u <? lo * US_DAY | None => false end) then Some ([], true)
  else if (match q_until q, need with None, None => H <=? lo | _, _ => false end) then Some ([], false)
  else match fuel with
       | O => None
       | S f =>
         if budget <? 0 then None else
         let c := chunk q k in
         let t := match need with Some n => firstn (Z.to_nat n) c | None => c end in
         match gen q H f (budget - (snd (period q k) - lo) * (if q_freq q <=? 1 then 1 else 4)) (k + 1)
                   (option_map (fun n => n - Z.of_nat (List.length t)) need) with
         | Some (l, b) => Some (t ++ l, b)
         | None => None
         end
       end.

Definition DAY_BUDGET : Z := 16000.

(* ---- rrule(...) keyword arguments -> normal form (dateutil.rrule.rrule.__init__) *)
Fixpoint insert_uniq (x : Z) (l : list Z) : list Z :=
  match l with
  | [] => [x]
  | y :: r => if x <? y then x :: l else if x =? y then l else y :: insert_uniq x r
  end.
Definition sort_uniq (l : list Z) : list Z := fold_right insert_uniq [] l.

Definition in_range (lo hi : Z) (l : list Z) : bool := forallb (fun x => (lo <=? x) && (x <=? hi)) l.

Definition olist (o : option (list Z)) : list Z := match o with Some l => l | None => [] end.

Definition is_none {A} (o : option A) : bool := match o with None => true | Some _ => false end.

Definition normalize (r : rrule_args) : option rule :=
  match d_tz (r_dtstart r), r_interval r, r_wkst r with
  | Some tz, SInt iv, Some (WD wk None) =>
    let us := d_us (r_dtstart r) in
    let sec := us / 1000000 in
    let d0 := d_days (r_dtstart r) in
    let '(y0, m0, dd0) := civil_from_days d0 in
    let freq := r_freq r in
    let none_given := is_none (r_byweekno r) && is_none (r_byyearday r) && is_none (r_bymonthday r)
                      && is_none (r_byweekday r) && is_none (r_byeaster r) in
    let bymonth := if none_given && (freq =? 0) && is_none (r_bymonth r) then [m0] else olist (r_bymonth r) in
    let bymonthday := if none_given && ((freq =? 0) || (freq =? 1)) then [dd0] else olist (r_bymonthday r) in
    let wds := match r_byweekday r with
               | Some l => l
               | None => if none_given && (freq =? 2) then [WD (weekday d0) None] else []
               end in
    let plain := flat_map (fun w => match w with
                                    | WD d None => [d]
                                    | WD d (Some n) => if (n =? 0) || (1 <? freq) then [d] else []
                                    end) wds in
    let nth := flat_map (fun w => match w with
                                  | WD d (Some n) => if (n =? 0) || (1 <? freq) then [] else [(d, n)]
                                  | _ => []
                                  end) wds in
    let hs := match r_byhour r with Some l => l | None => [sec / 3600] end in
    let ms := match r_byminute r with Some l => l | None => [(sec / 60) mod 60] end in
    let ss := match r_bysecond r with Some l => l | None => [sec mod 60] end in
    let times := sort_uniq (flat_map (fun h => flat_map (fun m => map (fun s => h * 3600 + m * 60 + s) ss) ms) hs) in
    let count := match r_count r with SNone => Some None | SInt c => Some (Some c) | _ => None end in
    let until := match r_until r with
                 | None => Some None
                 | Some u => match d_tz u with
                             | Some _ => Some (Some (inst_us u + tz * 1000000))
                             | None => None
                             end
                 end in
    match count, until with
    | Some cnt, Some unt =>
      if (0 <=? freq) && (freq <=? 3) && (1 <=? iv) && (0 <=? wk) && (wk <=? 6)
         && (0 <=? us) && (us <? US_DAY) && (1 <=? d0)
         && is_none (r_bysetpos r) && is_none (r_byeaster r) && is_none (r_byweekno r)
         && in_range 0 23 hs && in_range 0 59 ms && in_range 0 59 ss
      then Some (mkRule freq d0 y0 m0 (d0 * US_DAY + sec * 1000000) iv cnt unt wk bymonth
                        (filter (fun x => 0 <? x) bymonthday) (filter (fun x => x <? 0) bymonthday)
                        (olist (r_byyearday r)) plain nth times)
      else None
    | _, _ => None
    end
  | _, _, _ => None
  end.

Definition rr_occ (F : nat) (H : Z) (r : rrule_args) : option (list Z * bool) :=
  match normalize r with
  | Some q => gen q H F DAY_BUDGET 0 (q_count q)
  | None => None
  end.

(* ---- rule sets (dateutil.rrule.rruleset._iter): the union of the rrule / rdate parts, in order and
   without duplicates, minus whatever an exrule / exdate part yields.  All parts in the zone tz. *)
Definition is_incl (m : method) : bool := match m with MRRule | MRDate => true | _ => false end.

Definition union_all (parts : list (list Z * bool)) : list Z :=
  fold_right (fun p acc => fold_right insert_uniq acc (fst p)) [] parts.

Fixpoint lastz (d : Z) (l : list Z) : Z := match l with [] => d | x :: r => lastz x r end.

(* parts H true = what the rrule / rdate parts yield, parts H false = what the exrule / exdate parts
   yield; each is (stamps, complete?) and is exact for the days before the horizon it was asked for *)
Definition combine (H : Z) (parts : Z -> bool -> option (list (list Z * bool))) : option (list Z * bool) :=
  match parts H true with
  | None => None
  | Some incs =>
    let complete := forallb snd incs in
    let r0 := union_all incs in
    let r1 := if complete then r0 else filter (fun s => s <? H * US_DAY) r0 in
    (* the exclusions must be known up to the last included value *)
    let H' := if complete then Z.max H (lastz 0 r1 / US_DAY + 1) else H in
    match parts H' false with
    | None => None
    | Some excs =>
      let ex := union_all excs in
      Some (filter (fun s => negb (memz s ex)) r1, complete)
    end
  end.

Definition call_method (c : call) : method := match c with CRule m _ | CSet m _ | CDate m _ => m end.

Fixpoint rs_occ (F : nat) (H : Z) (tz : Z) (rs : ruleset) {struct rs} : option (list Z * bool) :=
  match rs with
  | RS _ calls =>
    combine H (fun H want_incl =>
      (fix go (l : list call) : option (list (list Z * bool)) :=
         match l with
         | [] => Some []
         | c :: r =>
           if Bool.eqb (is_incl (call_method c)) want_incl
           then match (match c with
                       | CRule _ x => if option_eqb Z.eqb (d_tz (r_dtstart x)) (Some tz) then rr_occ F H x else None
                       | CSet _ s => rs_occ F H tz s
                       | CDate _ d => if option_eqb Z.eqb (d_tz d) (Some tz) && (0 <=? d_us d) && (d_us d <? US_DAY)
                                      then Some ([d_days d * US_DAY + d_us d], true) else None
                       end), go r with
                | Some p, Some ps => Some (p :: ps)
                | _, _ => None
                end
           else go r
         end) calls)
  end.

Definition dt_of_stamp (tz s : Z) : dt := mkDT (s / US_DAY) (s mod US_DAY) (Some tz).

(* is every part of the rule set inside the fragment, in the zone tz?  (asked before anything is computed) *)
Fixpoint in_fragment (tz : Z) (rs : ruleset) {struct rs} : bool :=
  match rs with
  | RS _ calls =>
    (fix go (l : list call) : bool :=
       match l with
       | [] => true
       | c :: r =>
         (match c with
          | CRule _ x => option_eqb Z.eqb (d_tz (r_dtstart x)) (Some tz) && negb (is_none (normalize x))
          | CSet _ s => in_fragment tz s
          | CDate _ d => option_eqb Z.eqb (d_tz d) (Some tz)
          end) && go r
       end) calls
  end.

Definition ENGINE_FUEL : nat := Z.to_nat 20000.

Definition top_tz (rs : ruleset) : option Z :=
  match rs with
  | RS _ (CRule MRRule r :: _) => d_tz (r_dtstart r)
  | _ => None
  end.

Fixpoint max_day (d : Z) (l : list dt) : Z :=
  match l with [] => d | x :: r => max_day (Z.max d (d_days x + 1)) r end.

(* does the engine model agree with what the real engine yielded for the rule set rs?
   stream = the values it yielded, in order, as far as it was asked; finished = it was asked until it
   stopped.  Outside the fragment / out of fuel: nothing to compare (true).  (A rule without count and
   until whose filters are never satisfied makes dateutil stop at year 9999: the model, exact up to
   the horizon only, then has nothing to say about the end.) *)
Definition engine_ok (rs : ruleset) (stream : list dt) (finished : bool) : bool :=
  match top_tz rs with
  | None => true
  | Some tz =>
    match (if in_fragment tz rs then rs_occ ENGINE_FUEL (max_day 0 stream) tz rs else None) with
    | None => true
    | Some (l, complete) =>
      list_eqb dt_eqb stream (map (dt_of_stamp tz) (firstn (List.length stream) l))
      && (if finished && complete then (List.length l =? List.length stream)%nat else true)
    end
  end.

(* ------------------------------------------------------------------ correspondence cases *)

Inductive expected :=
| XOk (rs : ruleset) (vals : list value)   (* engine calls observed + values seen by the caller *)
| XErr (e : err)                           (* exception class (direct Python call) *)
| XErrAny                                  (* recipe run failed with a DataGenError *)
| XEngine.                                 (* the ENGINE raised (its own validation): outside the model *)

(* eng: None = the engine was replaced by a stand-in (only the wiring is observed); Some finished =
   the real engine produced [stream]; finished = it was asked until it stopped *)
Inductive ecase :=
| ECase (via_event memo : bool) (ptab : list (string * result dt)) (now : dt)
        (kw : list (string * expr)) (m : mode) (stream : list dt) (eng : option bool) (exp : expected).

(* CSession: a history - several schedules evaluated one after the other in one process (several
   objects of a recipe, several generate_data runs, direct calls).  The model has no state: every
   schedule is judged on its own keywords. *)
Inductive case :=
| CEvent (via_event memo : bool) (ptab : list (string * result dt)) (now : dt)
         (kw : list (string * expr)) (m : mode) (stream : list dt) (eng : option bool) (exp : expected)
| CSession (l : list ecase).

Definition table_parser (ptab : list (string * result dt)) : parser :=
  fun s => match assoc s ptab with Some r => r | None => Err BadOracle end.

(* the rule set the model builds for the keywords (whatever happens to the rows afterwards) *)
Definition built_ruleset (via memo : bool) (P : parser) (now : dt) (kw : list (string * expr)) : result ruleset :=
  do kw' <- eval_kw via memo P now kw;
  do rp <- call_event via memo P now kw';
  Ok (fst rp).

Definition engine_agrees (via memo : bool) (P : parser) (now : dt) (kw : list (string * expr))
           (stream : list dt) (eng : option bool) : bool :=
  match eng, built_ruleset via memo P now kw with
  | Some finished, Ok rs => engine_ok rs stream finished
  | _, _ => true
  end.

Definition check_ecase (c : ecase) : bool :=
  match c with
  | ECase via memo ptab now kw m stream eng exp =>
    let out := run via memo (table_parser ptab) now kw m stream in
    engine_agrees via memo (table_parser ptab) now kw stream eng &&
    match exp, out with
    | XOk rs vals, Ok (rs', vals') => ruleset_eqb rs rs' && list_eqb value_eqb vals vals'
    | XErr e, Err e' => err_eqb e e'
    | XErrAny, Err (DGE _) => true
    | XErrAny, Err (Internal _) => true      (* wrapped into DataGenError by the interpreter *)
    | XEngine, _ => true
    | _, _ => false
    end
  end.

Definition check_case (c : case) : bool :=
  match c with
  | CEvent via memo ptab now kw m stream eng exp => check_ecase (ECase via memo ptab now kw m stream eng exp)
  | CSession l => forallb check_ecase l
  end.

(* evidence: was the recurrence-engine model compared with the real engine for this case? *)
Definition engine_compared_e (c : ecase) : bool :=
  match c with
  | ECase via memo ptab now kw m stream eng exp =>
    match eng, built_ruleset via memo (table_parser ptab) now kw with
    | Some _, Ok rs =>
      match top_tz rs with
      | Some tz => in_fragment tz rs && negb (is_none (rs_occ ENGINE_FUEL (max_day 0 stream) tz rs))
      | None => false
      end
    | _, _ => false
    end
  end.

Definition engine_not_compared (c : case) : bool :=
  match c with
  | CEvent via memo ptab now kw m stream eng exp => negb (engine_compared_e (ECase via memo ptab now kw m stream eng exp))
  | CSession l => negb (existsb engine_compared_e l)
  end.
