(* Streams.v — model of Snowfakery's output layer (property C08).

   Transcribes
     snowfakery/output_streams.py   OutputStream.cleanup / write_row (single write path, count,
                                    flush_limit, commit_limit), the per-class `encoders` tables,
                                    SimpleFileOutputStream / DebugOutputStream, CSVOutputStream,
                                    JSONOutputStream, SqlDbOutputStream (buffered_rows, table_info,
                                    flush / _flush_rows / commit / close), SqlTextOutputStream
                                    (owns a SqlDbOutputStream, no commit of its own),
                                    create_tables_from_inferred_fields, MultiplexOutputStream
     snowfakery/parse_recipe_yaml.py TableInfo.register, ParseContext.register_template,
                                    the hidden-table filter of parse_recipe
     snowfakery/api.py              configure_output_stream (close() inside try/except: an
                                    exception is echoed, not raised)
   What the libraries below the writers do (str(), json.dumps, csv.DictWriter, sqlite3 parameter
   binding and column affinity) is transcribed from observation (DESIGN.md appendix B) in
   [py_str] and [render]; the correspondence check compares it with the real artefacts, re-read
   by independent decoders, on every run.

   Floats are outside the model (never compared).  Payload strings are lists of code points. *)
From SFV Require Import Base.

Definition text := list Z.

Fixpoint text_of_string (s : string) : text :=
  match s with
  | EmptyString => []
  | String a r => Z.of_N (N_of_ascii a) :: text_of_string r
  end.

(* ------------------------------------------------------------------ decimal rendering *)

Fixpoint uint_text (u : Decimal.uint) : text :=
  match u with
  | Decimal.Nil => []
  | Decimal.D0 r => 48 :: uint_text r
  | Decimal.D1 r => 49 :: uint_text r
  | Decimal.D2 r => 50 :: uint_text r
  | Decimal.D3 r => 51 :: uint_text r
  | Decimal.D4 r => 52 :: uint_text r
  | Decimal.D5 r => 53 :: uint_text r
  | Decimal.D6 r => 54 :: uint_text r
  | Decimal.D7 r => 55 :: uint_text r
  | Decimal.D8 r => 56 :: uint_text r
  | Decimal.D9 r => 57 :: uint_text r
  end.

(* str(int) *)
Definition dec_text (z : Z) : text :=
  match Z.to_int z with
  | Decimal.Pos u => uint_text u
  | Decimal.Neg u => 45 :: uint_text u
  end.

(* "%0<n>d" for a non-negative number *)
Definition pad_to (n : nat) (t : text) : text := repeat 48 (n - length t) ++ t.
Definition pad (n : nat) (z : Z) : text := pad_to n (dec_text z).

(* ------------------------------------------------------------------ values *)

Inductive value :=
| VNull
| VBool (b : bool)
| VInt (z : Z)
| VStr (s : text)
| VDate (y m d : Z)
| VDateTime (y m d hh mi ss us : Z) (off : option Z)   (* utcoffset in minutes; None = naive *)
| VDec (s : text)                                      (* decimal.Decimal, carried as str(d) *)
| VRef (table : string) (id : Z)                       (* ObjectRow / ObjectReference *)
| VOther.                                              (* an object of any other type (list, dict, time ...) *)

Inductive vtype := TStr | TInt | TDate | TDateTime | TNone | TBool | TDecimal | TUnknown.

Definition vtype_eqb (a b : vtype) : bool :=
  match a, b with
  | TStr, TStr | TInt, TInt | TDate, TDate | TDateTime, TDateTime | TNone, TNone
  | TBool, TBool | TDecimal, TDecimal | TUnknown, TUnknown => true
  | _, _ => false
  end.

(* type(field_value): exact type, so bool is not int *)
Definition type_of (v : value) : vtype :=
  match v with
  | VNull => TNone | VBool _ => TBool | VInt _ => TInt | VStr _ => TStr
  | VDate _ _ _ => TDate | VDateTime _ _ _ _ _ _ _ _ => TDateTime | VDec _ => TDecimal
  | VRef _ _ => TUnknown | VOther => TUnknown
  end.

Definition iso_date (y m d : Z) : text := pad 4 y ++ [45] ++ pad 2 m ++ [45] ++ pad 2 d.
Definition iso_time (hh mi ss : Z) : text := pad 2 hh ++ [58] ++ pad 2 mi ++ [58] ++ pad 2 ss.
Definition iso_offset (off : option Z) : text :=
  match off with
  | None => []
  | Some o => (if o <? 0 then [45] else [43]) ++ pad 2 (Z.abs o / 60) ++ [58] ++ pad 2 (Z.abs o mod 60)
  end.

(* format_datetime: dt.isoformat(timespec="seconds") *)
Definition fmt_dt_seconds (y m d hh mi ss : Z) (off : option Z) : text :=
  iso_date y m d ++ [84] ++ iso_time hh mi ss ++ iso_offset off.

(* str(dt) = dt.isoformat(sep=" "): microseconds appear iff non-zero *)
Definition str_dt (y m d hh mi ss us : Z) (off : option Z) : text :=
  iso_date y m d ++ [32] ++ iso_time hh mi ss
  ++ (if us =? 0 then [] else 46 :: pad 6 us) ++ iso_offset off.

(* Python's str() on the values that can reach a writer *)
Definition py_str (v : value) : result text :=
  match v with
  | VNull => Ok [78; 111; 110; 101]                     (* None *)
  | VBool true => Ok [84; 114; 117; 101]                (* True *)
  | VBool false => Ok [70; 97; 108; 115; 101]           (* False *)
  | VInt z => Ok (dec_text z)
  | VStr s => Ok s
  | VDate y m d => Ok (iso_date y m d)
  | VDateTime y m d hh mi ss us off => Ok (str_dt y m d hh mi ss us off)
  | VDec s => Ok s
  | VRef _ _ => Err Unsupported
  | VOther => Err Unsupported
  end.

(* ------------------------------------------------------------------ encoders (cleanup) *)

Inductive fmt := FTxt | FJson | FCsv | FDb | FSql.

Definition fmt_eqb (a b : fmt) : bool :=
  match a, b with
  | FTxt, FTxt | FJson, FJson | FCsv, FCsv | FDb, FDb | FSql, FSql => true
  | _, _ => false
  end.

Definition encoder := value -> result value.

Definition enc_str : encoder := fun v => do t <- py_str v; Ok (VStr t).
Definition enc_int : encoder := fun v =>
  match v with
  | VInt z => Ok (VInt z)
  | VBool b => Ok (VInt (if b then 1 else 0))
  | _ => Err Unsupported
  end.
Definition enc_noop : encoder := fun v => Ok v.
Definition enc_bool : encoder := fun v =>
  match v with VBool b => Ok (VBool b) | _ => Err Unsupported end.
Definition enc_format_datetime : encoder := fun v =>
  match v with
  | VDateTime y m d hh mi ss us off => Ok (VStr (fmt_dt_seconds y m d hh mi ss off))
  | _ => Err Unsupported
  end.

(* sql_int: SQL integers are 64 bits wide; a larger value goes to the VARCHAR column as text *)
Definition sql_int (z : Z) : value :=
  if (- 2 ^ 63 <=? z) && (z <? 2 ^ 63) then VInt z else VStr (dec_text z).
Definition enc_sql_int : encoder := fun v =>
  match v with VInt z => Ok (sql_int z) | _ => Err Unsupported end.

Definition enc_table := list (vtype * encoder).

Fixpoint enc_get (t : vtype) (tb : enc_table) : option encoder :=
  match tb with
  | [] => None
  | (k, e) :: r => if vtype_eqb k t then Some e else enc_get t r
  end.

(* {**base, k: e}: an existing key keeps its place and gets the new value *)
Fixpoint enc_set (t : vtype) (e : encoder) (tb : enc_table) : enc_table :=
  match tb with
  | [] => [(t, e)]
  | (k, e0) :: r => if vtype_eqb k t then (k, e) :: r else (k, e0) :: enc_set t e r
  end.

(* OutputStream.encoders; float omitted (floats are outside the model) *)
Definition base_encoders : enc_table :=
  [(TStr, enc_str); (TInt, enc_int); (TDate, enc_noop); (TDateTime, enc_noop);
   (TNone, enc_noop); (TBool, enc_int); (TDecimal, enc_str)].

Definition encoders (f : fmt) : enc_table :=
  match f with
  | FTxt => enc_set TDateTime enc_format_datetime base_encoders       (* DebugOutputStream *)
  | FCsv => enc_set TDateTime enc_format_datetime base_encoders       (* CSVOutputStream *)
  | FDb => enc_set TInt enc_sql_int
             (enc_set TDateTime enc_format_datetime base_encoders)    (* SqlDbOutputStream *)
  | FJson => enc_set TBool enc_bool (enc_set TDateTime enc_str (enc_set TDate enc_str base_encoders))
  | FSql => enc_set TInt enc_sql_int base_encoders                    (* SqlTextOutputStream *)
  end.

(* flatten *)
Definition flatten (f : fmt) (table : string) (id : Z) : value :=
  match f with
  | FTxt => VStr (text_of_string table ++ [40] ++ dec_text id ++ [41])     (* T(id) *)
  | FDb | FSql => sql_int id
  | _ => VInt id
  end.

(* OutputStream.cleanup (objects with a `simplify` method are outside the model) *)
Definition cleanup (f : fmt) (v : value) : result value :=
  match v with
  | VRef t i => Ok (flatten f t i)
  | _ =>
    match enc_get (type_of v) (encoders f) with
    | Some e => e v
    | None => Err (Internal "TypeError")
    end
  end.

(* ------------------------------------------------------------------ writers: value -> cell *)

Inductive cell := CNull | CBool (b : bool) | CNum (z : Z) | CText (s : text).

Definition cell_eqb (a b : cell) : bool :=
  match a, b with
  | CNull, CNull => true
  | CBool x, CBool y => Bool.eqb x y
  | CNum x, CNum y => x =? y
  | CText x, CText y => list_eqb Z.eqb x y
  | _, _ => false
  end.

Definition int64 (z : Z) : bool := (- 2 ^ 63 <=? z) && (z <? 2 ^ 63).

(* a Python str may hold lone surrogates (e.g. the Jinja literal "\ud800"); they cannot be
   encoded as UTF-8, so a text file write and sqlite3's parameter binding raise
   UnicodeEncodeError; json.dumps escapes them *)
Definition is_surrogate (c : Z) : bool := (55296 <=? c) && (c <=? 57343).
Definition encodable_text (t : text) : bool := forallb (fun c => negb (is_surrogate c)) t.
Definition utf8_text (t : text) : result cell :=
  if encodable_text t then Ok (CText t) else Err (Internal "UnicodeEncodeError").

(* What the format's writer does with a cleaned-up value.  [is_id]: the value goes to the
   INTEGER PRIMARY KEY column of a table (only meaningful for FDb / FSql).
     txt  : f"{value}"
     csv  : csv writer: None -> "", everything else str()
     json : json.dumps (date / datetime / Decimal objects are not serialisable)
     db   : sqlite3 parameter binding + column affinity (VARCHAR(255) columns hold text,
            the id column holds an integer); an int outside 64 bits raises OverflowError, a
            string with a lone surrogate UnicodeEncodeError *)
Definition render (f : fmt) (is_id : bool) (v : value) : result cell :=
  match f with
  | FTxt => match v with
            | VStr s => utf8_text s
            | _ => do t <- py_str v; Ok (CText t)
            end
  | FCsv => match v with
            | VNull => Ok (CText [])
            | VStr s => utf8_text s
            | _ => do t <- py_str v; Ok (CText t)
            end
  | FJson => match v with
             | VNull => Ok CNull
             | VBool b => Ok (CBool b)
             | VInt z => Ok (CNum z)
             | VStr s => Ok (CText s)
             | VRef _ _ | VOther => Err Unsupported
             | _ => Err (Internal "TypeError")
             end
  | FDb | FSql =>
    match v with
    | VNull => if is_id then Err Unsupported (* autoincrement: outside the model *) else Ok CNull
    | VInt z => if int64 z then Ok (if is_id then CNum z else CText (dec_text z))
                else Err (Internal "OverflowError")
    | VBool b => let z := if b then 1 else 0 in
                 Ok (if is_id then CNum z else CText (dec_text z))
    | VStr s => if is_id then Err Unsupported else utf8_text s
    | VDate y m d => if is_id then Err Unsupported else Ok (CText (iso_date y m d))
    | VDateTime y m d hh mi ss us off =>
      if is_id then Err Unsupported else Ok (CText (str_dt y m d hh mi ss us off))
    | VDec _ => Err (Internal "InterfaceError")       (* sqlite3 cannot bind a Decimal *)
    | VRef _ _ | VOther => Err Unsupported
    end
  end.

(* the codec of one value: encoder table, then writer *)
Definition encode (f : fmt) (is_id : bool) (v : value) : result cell :=
  do c <- cleanup f v; render f is_id c.

(* ------------------------------------------------------------------ rows, association lists *)

Definition row := list (string * value).      (* a dict: field name -> value, insertion order *)

Fixpoint aget {A} (k : string) (l : list (string * A)) : option A :=
  match l with
  | [] => None
  | (k0, v) :: r => if String.eqb k0 k then Some v else aget k r
  end.

(* d[k] = v : an existing key keeps its place, a new one goes to the end *)
Fixpoint aset {A} (k : string) (v : A) (l : list (string * A)) : list (string * A) :=
  match l with
  | [] => [(k, v)]
  | (k0, v0) :: r => if String.eqb k0 k then (k0, v) :: r else (k0, v0) :: aset k v r
  end.

Definition mem (k : string) (l : list string) : bool := existsb (String.eqb k) l.

Fixpoint map_result {A B} (f : A -> result B) (l : list A) : result (list B) :=
  match l with
  | [] => Ok []
  | x :: r => do y <- f x; do ys <- map_result f r; Ok (y :: ys)
  end.

(* the dict comprehension of write_row *)
Definition cleanup_row (f : fmt) (r : row) : result row :=
  map_result (fun kv => do v <- cleanup f (snd kv); Ok (fst kv, v)) r.

(* ------------------------------------------------------------------ schema inference *)

Record template := mkT { t_table : string; t_fields : list string; t_upd : bool }.
Record tinfo := mkTI { ti_fields : list string; ti_upd : bool }.

Definition hidden (s : string) : bool := String.prefix "__" s.

Definition add_field (fs : list string) (f : string) : list string :=
  if mem f fs then fs else fs ++ [f].

(* TableInfo.register: fields.update({name: field for non-hidden fields}); has_update_keys *)
Definition register (ti : tinfo) (t : template) : tinfo :=
  mkTI (fold_left add_field (filter (fun f => negb (hidden f)) (t_fields t)) (ti_fields ti))
       (ti_upd ti || t_upd t).

(* ParseContext.register_template over all templates in registration order *)
Definition register_template (acc : list (string * tinfo)) (t : template) : list (string * tinfo) :=
  let ti := match aget (t_table t) acc with Some ti => ti | None => mkTI [] false end in
  aset (t_table t) (register ti t) acc.

(* parse_recipe: tables whose name starts with "__" are dropped *)
Definition infer (tpls : list template) : list (string * tinfo) :=
  filter (fun nt => negb (hidden (fst nt))) (fold_left register_template tpls []).

Definition upd_key : string := "_sf_update_key".

(* CSVOutputStream.open_writer *)
Definition csv_header (ti : tinfo) : list string :=
  ti_fields ti ++ ["id"%string] ++ (if ti_upd ti then [upd_key] else []).

(* SqlDbOutputStream.create_or_validate_tables: fallback_dict keys (setdefault) *)
Definition fallback (ti : tinfo) : list string :=
  let f1 := if mem "id" (ti_fields ti) then ti_fields ti else ti_fields ti ++ ["id"%string] in
  if ti_upd ti then (if mem upd_key f1 then f1 else f1 ++ [upd_key]) else f1.

Definition lower_is_id (s : string) : bool :=
  match s with
  | String a (String b EmptyString) =>
    (Ascii.eqb a "i" || Ascii.eqb a "I") && (Ascii.eqb b "d" || Ascii.eqb b "D")
  | _ => false
  end.

(* create_tables_from_inferred_fields: physical column order.  A field that is itself called
   id (any case) or _sf_update_key changes the layout; that corner is outside the model. *)
Definition db_physical (ti : tinfo) : result (list string) :=
  if existsb lower_is_id (ti_fields ti) || mem upd_key (ti_fields ti) then Err Unsupported
  else Ok ("id"%string :: ti_fields ti ++ (if ti_upd ti then [upd_key] else [])).

(* keys of a row produced by ObjectTemplate._generate_row for a template, after
   filter_row_values: id, the update-key marker, then the non-hidden fields *)
Definition row_keys (t : template) : list string :=
  "id"%string :: (if t_upd t then [upd_key] else [])
  ++ filter (fun f => negb (hidden f)) (t_fields t).

(* ------------------------------------------------------------------ SqlDbOutputStream: the buffer machine *)

Definition tables := list (string * list string).     (* table_info: table -> fallback_dict keys *)

Record dbst := mkDb {
  d_count : Z;                                   (* OutputStream.count *)
  d_buf : list (string * list row);              (* buffered_rows (defaultdict(list)) *)
  d_db : list (string * list row)                (* rows the database holds, per table *)
}.

Definition lget {A} (k : string) (l : list (string * list A)) : list A :=
  match aget k l with Some x => x | None => [] end.        (* defaultdict(list)[k] *)

Definition db_init (ti : tables) : dbst := mkDb 1 [] (map (fun tc => (fst tc, [])) ti).

(* {key: row[key] if key in row else fallback_dict[key] for key in fallback_dict}; every
   fallback value is None.  Keys of the row that are not columns are dropped. *)
Definition project (cols : list string) (r : row) : row :=
  map (fun c => (c, match aget c r with Some v => v | None => VNull end)) cols.

(* _flush_rows inside one transaction: if the database rejects a row the whole flush fails *)
Fixpoint flush_tables (acc : row -> bool) (ti : tables)
         (buf db : list (string * list row)) : result (list (string * list row) * list (string * list row)) :=
  match ti with
  | [] => Ok (buf, db)
  | (t, cols) :: rest =>
    let vals := map (project cols) (lget t buf) in
    if forallb acc vals
    then flush_tables acc rest (aset t [] buf)
                      (match vals with [] => db | _ => aset t (lget t db ++ vals) db end)
    else Err (Internal "DBError")
  end.

Definition db_flush (acc : row -> bool) (ti : tables) (s : dbst) : result dbst :=
  do bd <- flush_tables acc ti (d_buf s) (d_db s);
  Ok (mkDb (d_count s) (fst bd) (snd bd)).

(* commit: `if any(self.buffered_rows): self.flush()` — any() over the KEYS of the dict *)
Definition db_commit (acc : row -> bool) (ti : tables) (s : dbst) : result dbst :=
  if existsb (fun kv => negb (String.eqb (fst kv) "")) (d_buf s) then db_flush acc ti s else Ok s.

(* write_single_row + the tail of OutputStream.write_row.  [has_commit] is false for the
   stream owned by SqlTextOutputStream (whose own commit() is the inherited no-op).
   Python's % by zero raises ZeroDivisionError. *)
Definition db_write (acc : row -> bool) (has_commit : bool) (fl cl : Z) (ti : tables)
           (s : dbst) (t : string) (r : row) : result dbst :=
  let s1 := mkDb (d_count s) (aset t (lget t (d_buf s) ++ [r]) (d_buf s)) (d_db s) in
  if (fl =? 0) || (cl =? 0) then Err (Internal "ZeroDivisionError") else
  do s2 <- (if d_count s1 mod fl =? 0 then db_flush acc ti s1 else Ok s1);
  do s3 <- (if (d_count s2 mod cl =? 0) && has_commit then db_commit acc ti s2 else Ok s2);
  Ok (mkDb (d_count s3 + 1) (d_buf s3) (d_db s3)).

Definition db_close (acc : row -> bool) (ti : tables) (s : dbst) : result dbst :=
  db_commit acc ti s.

Fixpoint db_writes (acc : row -> bool) (hc : bool) (fl cl : Z) (ti : tables)
         (s : dbst) (rows : list (string * row)) : result dbst :=
  match rows with
  | [] => Ok s
  | (t, r) :: rest => do s1 <- db_write acc hc fl cl ti s t r; db_writes acc hc fl cl ti s1 rest
  end.

Definition db_run (acc : row -> bool) (hc : bool) (fl cl : Z) (ti : tables)
           (rows : list (string * row)) : result dbst :=
  do s <- db_writes acc hc fl cl ti (db_init ti) rows;
  db_close acc ti s.

Definition rows_of (t : string) (rows : list (string * row)) : list row :=
  map snd (filter (fun tr => String.eqb (fst tr) t) rows).

(* rows grouped by table, projected onto the table's columns *)
Definition expected_db (ti : tables) (rows : list (string * row)) : list (string * list row) :=
  map (fun tc => (fst tc, map (project (snd tc)) (rows_of (fst tc) rows))) ti.

(* does sqlite accept the (already projected, cleaned-up) row? *)
Definition sqlite_accepts (f : fmt) (r : row) : bool :=
  forallb (fun kv => is_ok (render f (String.eqb (fst kv) "id") (snd kv))) r.

Definition total {A} (l : list (string * list A)) : Z :=
  fold_left (fun n kv => n + Z.of_nat (length (snd kv))) l 0.

(* after each write: (rows a second connection can see, rows still buffered) *)
Fixpoint db_trace (acc : row -> bool) (hc : bool) (fl cl : Z) (ti : tables)
         (s : dbst) (rows : list (string * row)) : result (list (Z * Z) * dbst) :=
  match rows with
  | [] => Ok ([], s)
  | (t, r) :: rest =>
    do s1 <- db_write acc hc fl cl ti s t r;
    do ts <- db_trace acc hc fl cl ti s1 rest;
    Ok ((total (d_db s1), total (d_buf s1)) :: fst ts, snd ts)
  end.

(* ------------------------------------------------------------------ multiplexer (generic) *)

Section Mux.
  Context {S R : Type}.
  Variable write : S -> R -> result S.

  (* MultiplexOutputStream.write_row: the streams in order; an exception stops the loop *)
  Fixpoint mux_write (ss : list S) (r : R) : result (list S) :=
    match ss with
    | [] => Ok []
    | s :: rest => do s1 <- write s r; do rest1 <- mux_write rest r; Ok (s1 :: rest1)
    end.

  Fixpoint mux_run (ss : list S) (rows : list R) : result (list S) :=
    match rows with
    | [] => Ok ss
    | r :: rest => do ss1 <- mux_write ss r; mux_run ss1 rest
    end.

  Fixpoint run_one (s : S) (rows : list R) : result S :=
    match rows with
    | [] => Ok s
    | r :: rest => do s1 <- write s r; run_one s1 rest
    end.
End Mux.

(* ------------------------------------------------------------------ concrete streams and the application layer *)

Record env := mkEnv { e_tables : list (string * tinfo); e_fl : Z; e_cl : Z }.

Definition env_tables (e : env) : tables := map (fun nt => (fst nt, fallback (snd nt))) (e_tables e).

Inductive sstate :=
| SDb (is_text : bool) (st : dbst) (closed : bool)
    (* SqlDbOutputStream (is_text = false), or SqlTextOutputStream (true: closed = dumped) *)
| SFile (f : fmt) (rows : list (string * row)) (closed : bool)
    (* txt / json / csv: a row reaches the file at write time *)
| SStub (log : list (string * row)) (fail_at : Z) (fail_close : bool) (closed : bool).
    (* test double used by the correspondence check: records raw rows, raises at the
       fail_at-th write (0 = never) / at close *)

Definition db_fmt (is_text : bool) : fmt := if is_text then FSql else FDb.

Definition init_stream (e : env) (f : fmt) : sstate :=
  match f with
  | FDb => SDb false (db_init (env_tables e)) false
  | FSql => SDb true (db_init (env_tables e)) false
  | _ => SFile f [] false
  end.

(* one write_row on one stream *)
Definition s_write (e : env) (s : sstate) (tr : string * row) : result sstate :=
  let (t, raw) := tr in
  match s with
  | SDb is_text st closed =>
    do c <- cleanup_row (db_fmt is_text) raw;
    do st1 <- db_write (sqlite_accepts (db_fmt is_text)) (negb is_text) (e_fl e) (e_cl e)
                       (env_tables e) st t c;
    Ok (SDb is_text st1 closed)
  | SFile f rows closed =>
    do c <- cleanup_row f raw;
    do _ <- (match f with
             | FCsv =>           (* self.writers[tablename]; DictWriter(extrasaction="raise") *)
               match aget t (e_tables e) with
               | None => Err (Internal "KeyError")
               | Some ti => if forallb (fun kv => mem (fst kv) (csv_header ti)) c then Ok tt
                            else Err (Internal "ValueError")
               end
             | _ => Ok tt
             end);
    do _ <- map_result (fun kv => render f false (snd kv)) c;     (* f-string / json.dumps / csv *)
    Ok (SFile f (rows ++ [(t, c)]) closed)
  | SStub log fail_at fc closed =>
    if Z.of_nat (length log) + 1 =? fail_at then Err (Internal "StubWriteError")
    else Ok (SStub (log ++ [(t, raw)]) fail_at fc closed)
  end.

Definition s_close (e : env) (s : sstate) : result sstate :=
  match s with
  | SDb is_text st _ =>
    do st1 <- db_close (sqlite_accepts (db_fmt is_text)) (env_tables e) st;
    Ok (SDb is_text st1 true)
  | SFile f rows _ => Ok (SFile f rows true)
  | SStub log fa fc _ => if fc then Err (Internal "StubCloseError") else Ok (SStub log fa fc true)
  end.

(* MultiplexOutputStream.close (and close() of a single stream): the first exception ends the
   loop, later streams are never closed.  configure_output_stream catches the exception and
   only echoes "Could not close ..."; the boolean says whether every close succeeded. *)
Fixpoint close_all (e : env) (ss : list sstate) : list sstate * bool :=
  match ss with
  | [] => ([], true)
  | s :: rest =>
    match s_close e s with
    | Ok s1 => let r := close_all e rest in (s1 :: fst r, snd r)
    | Err _ => (s :: rest, false)
    end
  end.

(* A whole run.  Err = an exception escaped (the run reports failure).  Ok (streams, clean) =
   the run reports success; clean = false means a "Could not close" message was echoed. *)
Definition app_run (e : env) (outs : list sstate) (rows : list (string * row))
  : result (list sstate * bool) :=
  do ss <- mux_run (s_write e) outs rows;
  Ok (close_all e ss).

(* what "this output has lost nothing" means for a stream at the end of a run *)
Definition cleaned (f : fmt) (rows : list (string * row)) : result (list (string * row)) :=
  map_result (fun tr => do c <- cleanup_row f (snd tr); Ok (fst tr, c)) rows.

Definition complete (e : env) (rows : list (string * row)) (s : sstate) : Prop :=
  match s with
  | SDb is_text st closed =>
    closed = true /\
    exists crows, cleaned (db_fmt is_text) rows = Ok crows /\
                  d_db st = expected_db (env_tables e) crows
  | SFile f rs closed => closed = true /\ cleaned f rows = Ok rs
  | SStub log _ _ closed => closed = true /\ log = rows
  end.

(* ------------------------------------------------------------------ what the decoders see *)

(* SqlTextOutputStream dumps its database with sqlite3's iterdump: SQLite's quote() reads a C
   string, so a text ends at its first NUL character (finding C08-sql-script-nul) *)
Fixpoint sql_cut (s : text) : text :=
  match s with
  | [] => []
  | c :: r => if c =? 0 then [] else c :: sql_cut r
  end.

Definition dump_view (f : fmt) (c : cell) : cell :=
  match f, c with
  | FSql, CText s => CText (sql_cut s)
  | _, _ => c
  end.

(* one row as an independent reader of the artefact sees it *)
Definition obs_row (f : fmt) (ti : tinfo) (raw : row) : result (list (string * cell)) :=
  do c <- cleanup_row f raw;
  match f with
  | FTxt | FJson =>
    map_result (fun kv => do x <- render f false (snd kv); Ok (fst kv, x)) c
  | FCsv =>
    if forallb (fun kv => mem (fst kv) (csv_header ti)) c
    then map_result (fun h => match aget h c with
                              | Some v => do x <- render FCsv false v; Ok (h, x)
                              | None => Ok (h, CText [])              (* restval *)
                              end) (csv_header ti)
    else Err (Internal "ValueError")
  | FDb | FSql =>
    do phys <- db_physical ti;
    let p := project (fallback ti) c in
    map_result (fun col => match aget col p with
                           | Some v => do x <- render f (String.eqb col "id") v; Ok (col, dump_view f x)
                           | None => Err (Internal "KeyError")
                           end) phys
  end.

(* ------------------------------------------------------------------ correspondence cases *)

Definition str_eqb := String.eqb.

Fixpoint remove_one (k : string) (l : list string) : option (list string) :=
  match l with
  | [] => None
  | x :: r => if String.eqb x k then Some r
              else match remove_one k r with Some r1 => Some (x :: r1) | None => None end
  end.

(* same multiset of names *)
Fixpoint perm_eqb (a b : list string) : bool :=
  match a with
  | [] => match b with [] => true | _ => false end
  | x :: r => match remove_one x b with Some b1 => perm_eqb r b1 | None => false end
  end.

Definition kv_eqb (a b : string * cell) : bool := String.eqb (fst a) (fst b) && cell_eqb (snd a) (snd b).

(* same keys (as a multiset) and the same cell under every key *)
Definition assoc_eqb (a b : list (string * cell)) : bool :=
  perm_eqb (map fst a) (map fst b) &&
  forallb (fun kv => option_eqb cell_eqb (aget (fst kv) b) (Some (snd kv))) a.

Definition schema_eqb (model : list (string * list string)) (seen : list (string * list string)) : bool :=
  perm_eqb (map fst model) (map fst seen) &&
  forallb (fun tc => match aget (fst tc) model with
                     | Some cols => perm_eqb cols (snd tc)
                     | None => false
                     end) seen.

(* run-length view of a trace: (index of the write, visible rows) whenever the number of
   visible rows changes *)
Fixpoint changes (i prev : Z) (tr : list (Z * Z)) : list (Z * Z) :=
  match tr with
  | [] => []
  | (v, _) :: r => if v =? prev then changes (i + 1) prev r else (i, v) :: changes (i + 1) v r
  end.

(* synthetic rows for the buffer machine: row i goes to table (i mod k) and carries
   id = number of rows of that table so far, x = i, and on every third row a key that is
   not a column *)
Definition synth_table (j : Z) : string :=
  match j with 0 => "A" | 1 => "B" | 2 => "C" | _ => "D" end.

Definition synth_row (k i : Z) : string * row :=
  (synth_table (i mod k),
   [("id"%string, VInt (i / k + 1)); ("x"%string, VInt i)]
   ++ (if i mod 3 =? 0 then [("extra"%string, VInt 7)] else [])
   ++ (if i mod 2 =? 0 then [("y"%string, VStr [121])] else [])).

Definition synth_rows (k n : Z) : list (string * row) := map (synth_row k) (Zseq 0 (Z.to_nat n)).

Definition synth_tables (k : Z) : tables :=
  map (fun j => (synth_table j, ["x"%string; "y"%string; "id"%string])) (Zseq 0 (Z.to_nat k)).

(* per-stream summary of a finished run *)
Inductive summary :=
| SumDb (closed : bool) (counts : list (string * Z))        (* rows per table in the database *)
| SumFile (closed : bool) (n : Z)                           (* rows in the file *)
| SumStub (closed : bool) (n : Z).

Definition summary_eqb (a b : summary) : bool :=
  match a, b with
  | SumDb c1 l1, SumDb c2 l2 =>
    Bool.eqb c1 c2 && perm_eqb (map fst l1) (map fst l2) &&
    forallb (fun kv => option_eqb Z.eqb (aget (fst kv) l2) (Some (snd kv))) l1
  | SumFile c1 n1, SumFile c2 n2 => Bool.eqb c1 c2 && (n1 =? n2)
  | SumStub c1 n1, SumStub c2 n2 => Bool.eqb c1 c2 && (n1 =? n2)
  | _, _ => false
  end.

(* only what an outside reader can tell: a database file looks the same whether or not its
   stream was closed; a debug text file too; an empty JSON document too *)
Definition summarise (s : sstate) : summary :=
  match s with
  | SDb is_text st closed =>
    (* an SqlTextOutputStream that was not closed never dumped anything *)
    SumDb (if is_text then closed else true)
          (map (fun kv => (fst kv, if is_text && negb closed then 0
                                   else Z.of_nat (length (snd kv)))) (d_db st))
  | SFile f rows closed =>
    SumFile (match f with
             | FTxt => true
             | FJson => closed || match rows with [] => true | _ => false end
             | _ => closed
             end)
            (match f, closed with
             | FCsv, false => -1     (* the files are still open: what reached the disk is not determined *)
             | _, _ => Z.of_nat (length rows)
             end)
  | SStub log _ _ closed => SumStub closed (Z.of_nat (length log))
  end.

Definition stub_log_ids (s : sstate) : list Z :=
  match s with
  | SStub log _ _ _ => map (fun tr => match aget "id" (snd tr) with Some (VInt z) => z | _ => -1 end) log
  | _ => []
  end.

Inductive case :=
(* schema inference: CSV header columns and database columns per table *)
| CSchema (tpls : list template) (csv db : list (string * list string))
(* one row through one format, compared with what the decoder read back *)
| CRow (f : fmt) (ti : tinfo) (raw : row) (expected : result (list (string * cell)))
(* one value through cleanup + writer *)
| CEncode (f : fmt) (is_id : bool) (v : value) (expected : result cell)
(* the real SqlDbOutputStream / SqlTextOutputStream driven with synth_rows k n:
   changes of the visible row count, buffered rows after the last write, rows per table after close *)
| CBuffer (is_text : bool) (fl cl k n : Z) (chg : list (Z * Z)) (last_buffered : Z)
          (final : list (string * Z))
(* the same with explicit rows and table_info; final database contents as cells *)
| CBufferRows (is_text : bool) (fl cl : Z) (ti : list (string * tinfo)) (rows : list (string * row))
              (chg : list (Z * Z)) (final : list (string * list (list (string * cell))))
(* MultiplexOutputStream over test doubles: outcome, ids each stream received, closed flags *)
| CMux (stubs : list (Z * bool)) (rows : list (string * row))
       (expected : result (list (list Z * bool) * bool))
(* a whole run through the application layer: reported success and per-output summaries *)
| CApp (tpls : list template) (outs : list fmt) (rows : list (string * row))
       (expected : option (list summary * bool))      (* None: the run raised *)
| CAll (l : list case).

Definition db_counts (s : dbst) : list (string * Z) :=
  map (fun kv => (fst kv, Z.of_nat (length (snd kv)))) (d_db s).

Definition counts_eqb (a b : list (string * Z)) : bool :=
  perm_eqb (map fst a) (map fst b) &&
  forallb (fun kv => option_eqb Z.eqb (aget (fst kv) b) (Some (snd kv))) a.

Definition buffer_check (is_text : bool) (fl cl : Z) (ti : tables) (rows : list (string * row))
           (chg : list (Z * Z)) (last_buffered : option Z)
           (final : dbst -> bool) : bool :=
  let acc := sqlite_accepts (db_fmt is_text) in
  match db_trace acc (negb is_text) fl cl ti (db_init ti) rows with
  | Ok (tr, s) =>
    list_eqb (fun a b => (fst a =? fst b) && (snd a =? snd b)) (changes 1 0 tr) chg &&
    match last_buffered with
    | Some b => total (d_buf s) =? b
    | None => true
    end &&
    match db_close acc ti s with
    | Ok s1 => final s1
    | Err _ => false
    end
  | Err _ => false
  end.

Fixpoint check_case (c : case) : bool :=
  match c with
  | CSchema tpls csv db =>
    let inf := infer tpls in
    schema_eqb (map (fun nt => (fst nt, csv_header (snd nt))) inf) csv &&
    schema_eqb (map (fun nt => (fst nt, match db_physical (snd nt) with Ok l => l | Err _ => [] end)) inf) db
  | CRow f ti raw e => result_eqb assoc_eqb (obs_row f ti raw) e
  | CEncode f is_id v e => result_eqb cell_eqb (encode f is_id v) e
  | CBuffer is_text fl cl k n chg lb final =>
    buffer_check is_text fl cl (synth_tables k) (synth_rows k n) chg (Some lb)
                 (fun s => counts_eqb (db_counts s) final)
  | CBufferRows is_text fl cl ti rows chg final =>
    let e := mkEnv ti fl cl in
    match cleaned (db_fmt is_text) rows with
    | Ok crows =>
      buffer_check is_text fl cl (env_tables e) crows chg None
        (fun s =>
           perm_eqb (map fst (d_db s)) (map fst final) &&
           forallb (fun tf =>
             match aget (fst tf) ti with
             | None => false
             | Some info =>
               match db_physical info with
               | Err _ => false
               | Ok phys =>
                 result_eqb (list_eqb assoc_eqb)
                   (map_result (fun r => map_result (fun col =>
                        match aget col r with
                        | Some v => do x <- render (db_fmt is_text) (String.eqb col "id") v;
                                    Ok (col, dump_view (db_fmt is_text) x)
                        | None => Err (Internal "KeyError")
                        end) phys) (lget (fst tf) (d_db s)))
                   (Ok (snd tf))
               end
             end) final)
    | Err _ => false
    end
  | CMux stubs rows e =>
    let e0 := mkEnv [] 1000 10000 in
    let outs := map (fun fc => SStub [] (fst fc) (snd fc) false) stubs in
    let got :=
      do ss <- mux_run (s_write e0) outs rows;
      let r := close_all e0 ss in
      Ok (map (fun s => (stub_log_ids s, match s with SStub _ _ _ c => c | _ => false end)) (fst r), snd r) in
    result_eqb (fun a b =>
                  list_eqb (fun x y => list_eqb Z.eqb (fst x) (fst y) && Bool.eqb (snd x) (snd y))
                           (fst a) (fst b) && Bool.eqb (snd a) (snd b)) got e
  | CApp tpls outs rows e =>
    let en := mkEnv (infer tpls) 1000 10000 in
    let got := do r <- app_run en (map (init_stream en) outs) rows;
               Ok (map summarise (fst r), snd r) in
    match got, e with
    | Ok a, Some b => list_eqb summary_eqb (fst a) (fst b) && Bool.eqb (snd a) (snd b)
    | Err _, None => true
    | _, _ => false
    end
  | CAll l => forallb check_case l
  end.
