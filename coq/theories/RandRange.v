(* RandRange.v — model of snowfakery/utils/randomized_range.py (property C12).

   random_range(start, stop): a linear congruential generator over a power-of-two modulus,
   values outside [0, size) skipped; the two random.randint draws are explicit arguments.
   UpdatableRandomRange: a state machine with operations Next and SetNewRange.            *)
From SFV Require Import Base.

(* -------- random_range -------- *)

Record lcg := mkLcg {
  g_start : Z;      (* start                        *)
  g_size : Z;       (* maximum = stop - start       *)
  g_mult : Z;       (* multiplier                   *)
  g_off : Z;        (* offset                       *)
  g_mod : Z;        (* modulus                      *)
  g_value : Z;      (* value (pending, not yet examined) *)
  g_found : Z       (* found                        *)
}.

(* (maximum - 1).bit_length() for maximum >= 1 is Z.log2_up maximum;
   for maximum = 0 Python gives (-1).bit_length() = 1. *)
Definition bit_length_pred (size : Z) : Z :=
  if size <=? 0 then 1 else Z.log2_up size.

(* random_range(start, stop) up to the first yield; v0 and o0 are the two randint(0,maximum)
   results.  randint(0, maximum) raises ValueError when maximum < 0. *)
Definition new_gen (start stop v0 o0 : Z) : result lcg :=
  let size := stop - start in
  if size <? 0 then Err (Internal "ValueError")
  else if negb ((0 <=? v0) && (v0 <=? size) && (0 <=? o0) && (o0 <=? size)) then Err BadOracle
  else Ok (mkLcg start size (4 * (size / 4) + 1) (o0 * 2 + 1)
                 (2 ^ bit_length_pred size) v0 0).

Definition lcg_f (g : lcg) (x : Z) : Z := (x * g_mult g + g_off g) mod g_mod g.

(* One next() on the generator: None = StopIteration.  Fuel bounds the while loop. *)
Fixpoint gen_next (fuel : nat) (g : lcg) : result (option (Z * lcg)) :=
  match fuel with
  | O => Err OutOfFuel
  | S n =>
    if g_found g <? g_size g then
      let g' v fnd := mkLcg (g_start g) (g_size g) (g_mult g) (g_off g) (g_mod g) v fnd in
      if g_value g <? g_size g
      then Ok (Some (g_value g + g_start g, g' (lcg_f g (g_value g)) (g_found g + 1)))
      else gen_next n (g' (lcg_f g (g_value g)) (g_found g))
    else Ok None
  end.

(* fuel that always suffices for one next(): one full period plus the initial value *)
Definition gen_fuel (g : lcg) : nat := Z.to_nat (g_mod g + 2).

(* drain the generator: list(random_range(start, stop)) *)
Fixpoint gen_drain (fuel : nat) (g : lcg) : result (list Z) :=
  match fuel with
  | O => Err OutOfFuel
  | S n =>
    if g_found g <? g_size g then
      let g' v fnd := mkLcg (g_start g) (g_size g) (g_mult g) (g_off g) (g_mod g) v fnd in
      if g_value g <? g_size g
      then do rest <- gen_drain n (g' (lcg_f g (g_value g)) (g_found g + 1));
           Ok ((g_value g + g_start g) :: rest)
      else gen_drain n (g' (lcg_f g (g_value g)) (g_found g))
    else Ok []
  end.

Definition random_range_list (start stop v0 o0 : Z) : result (list Z) :=
  do g <- new_gen start stop v0 o0;
  gen_drain (gen_fuel g) g.

(* -------- UpdatableRandomRange -------- *)

(* random_range is a Python generator: its body — including the two randint draws — only
   runs at the first next().  GNew = created, not yet started. *)
Inductive gstate := GNew (a b : Z) | GRun (g : lcg).

Record urr := mkUrr {
  u_start : Z;                  (* self.start: first minimum of the current chain of ranges *)
  u_min : Z;
  u_orig_max : Z;
  u_cur_max : Z;
  u_gen : gstate;
  u_oracle : list (Z * Z)       (* remaining (v0,o0) draws for generators not yet started *)
}.

Definition assertion {A} : result A := Err (Internal "AssertionError").

(* _set_new_range_immediately *)
Definition set_immediately (new_min new_max : Z) (oracle : list (Z * Z)) : result urr :=
  if negb (new_min <? new_max) then assertion
  else Ok (mkUrr new_min new_min new_max new_max (GNew new_min new_max) oracle).

(* UpdatableRandomRange(start, stop) *)
Definition urr_init (start stop : Z) (oracle : list (Z * Z)) : result urr :=
  if negb (start <? stop) then assertion else set_immediately start stop oracle.

(* set_new_range(new_min, new_max) *)
Definition urr_set_new_range (u : urr) (new_min new_max : Z) : result urr :=
  if new_min =? u_start u then
    if negb (u_cur_max u <=? new_max) then assertion
    else Ok (mkUrr (u_start u) (u_min u) (u_orig_max u) new_max (u_gen u) (u_oracle u))
  else
    if negb (u_orig_max u <=? new_min) then assertion
    else set_immediately new_min new_max (u_oracle u).

(* start the generator if it has not run yet *)
Definition force (u : urr) : result (lcg * list (Z * Z)) :=
  match u_gen u with
  | GRun g => Ok (g, u_oracle u)
  | GNew a b =>
    match u_oracle u with
    | [] => Err BadOracle
    | (v0, o0) :: rest => do g <- new_gen a b v0 o0; Ok (g, rest)
    end
  end.

(* __next__: Ok (None, u) = StopIteration *)
Definition urr_next (u : urr) : result (option Z * urr) :=
  do '(g0, orc) <- force u;
  do r <- gen_next (gen_fuel g0) g0;
  match r with
  | Some (v, g') =>
    Ok (Some v, mkUrr (u_start u) (u_min u) (u_orig_max u) (u_cur_max u) (GRun g') orc)
  | None =>
    if u_cur_max u <=? u_orig_max u
    then Ok (None, mkUrr (u_start u) (u_min u) (u_orig_max u) (u_cur_max u) (GRun g0) orc)
    else match orc with
         | [] => Err BadOracle
         | (v0, o0) :: rest =>
           do g <- new_gen (u_orig_max u) (u_cur_max u) v0 o0;
           do r2 <- gen_next (gen_fuel g) g;
           match r2 with
           | Some (v, g') =>
             Ok (Some v, mkUrr (u_start u) (u_orig_max u) (u_cur_max u) (u_cur_max u) (GRun g') rest)
           | None =>
             Ok (None, mkUrr (u_start u) (u_orig_max u) (u_cur_max u) (u_cur_max u) (GRun g) rest)
             (* next(gen) raising StopIteration; unreachable because cur_max > orig_max makes
                the new range non-empty (proofs/RandRangeP.v, urr_next_inv) *)
           end
         end
  end.

Inductive uop := UNext | USet (new_min new_max : Z).

(* Run a script; the trace records what each Next produced (None = StopIteration). *)
Fixpoint urr_run (u : urr) (ops : list uop) : result (list (option Z) * urr) :=
  match ops with
  | [] => Ok ([], u)
  | UNext :: rest =>
    do '(v, u1) <- urr_next u;
    do '(tr, u2) <- urr_run u1 rest;
    Ok (v :: tr, u2)
  | USet a b :: rest =>
    do u1 <- urr_set_new_range u a b;
    urr_run u1 rest
  end.

Definition urr_script (start stop : Z) (oracle : list (Z * Z)) (ops : list uop)
  : result (list (option Z)) :=
  do u <- urr_init start stop oracle;
  do '(tr, _) <- urr_run u ops;
  Ok tr.

Fixpoint produced (tr : list (option Z)) : list Z :=
  match tr with
  | [] => []
  | Some v :: r => v :: produced r
  | None :: r => produced r
  end.

(* -------- correspondence cases -------- *)

Inductive case :=
| CRange (start stop v0 o0 : Z) (expected : result (list Z))
| CParams (start stop : Z) (mult modulus : Z)           (* frame locals of the generator *)
| CScript (start stop : Z) (oracle : list (Z * Z)) (ops : list uop)
          (expected : result (list (option Z))).

Definition check_case (c : case) : bool :=
  match c with
  | CRange a b v0 o0 e => result_eqb (list_eqb Z.eqb) (random_range_list a b v0 o0) e
  | CParams a b m md =>
    match new_gen a b 0 0 with
    | Ok g => (g_mult g =? m) && (g_mod g =? md)
    | Err _ => false
    end
  | CScript a b o ops e =>
    result_eqb (list_eqb (option_eqb Z.eqb)) (urr_script a b o ops) e
  end.
