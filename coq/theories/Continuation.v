(* Continuation.v — value-level model of the continuation file (property C05).

   Transcribes, field by field,
     snowfakery/data_generator_runtime.py  IdManager.__getstate__/__setstate__ (63-68),
                                           Transients.__init__ (85-94),
                                           Globals.__getstate__/__setstate__ (189-235),
     snowfakery/object_rows.py             ObjectRow.__getstate__/__setstate__ (56-66),
     snowfakery/data_generator.py          load_continuation_yaml / save_continuation_yaml (90-101),
                                           initialize_globals (237-260),
     snowfakery/utils/yaml_utils.py        SnowfakeryDumper = SafeDumper (which values have a representer;
                                           extra representers: data_generator_runtime.py 71-83).

   The file is a TREE (maps / lists / typed scalars).  `getstate` is Globals.__getstate__;
   `sort_tree` is the key sorting that yaml.dump performs on every mapping (PyYAML
   represent_mapping, sort_keys=True by default; keys are Python str, compared by code point =
   byte order of their UTF-8 encoding); `save = sort_tree ∘ getstate` is therefore the tree that
   reaches the emitter, and the tree that yaml.safe_load gives back (dicts keep file order).
   The text layer itself (emitter / parser) is a Section variable pair in proofs/ContinuationP.v
   with PyYAML's round-trip law as the single named hypothesis.                              *)
From SFV Require Import Base.
From SFV Require Export YamlScalar.
Open Scope string_scope.

(* arbitrary byte strings for the harness (UTF-8, control characters) *)
Definition bs (l : list Z) : string :=
  string_of_list_ascii (map (fun z => ascii_of_N (Z.to_N z)) l).

(* -------- values a field of a row can hold -------- *)
Inductive value :=
| VNull
| VBool (b : bool)
| VInt (z : Z)
| VFloat (hex : string)                       (* float.hex(): opaque token, never computed with *)
| VStr (s : string)                           (* UTF-8 bytes *)
| VDate (ordinal : Z)                         (* date.toordinal() *)
| VDateTime (wall_us : Z) (offset_s : option Z) (* naive wall clock in microseconds, utcoffset *)
| VDec (txt : string)                         (* decimal.Decimal: str(d), opaque token *)
| VRow (table : string) (id : Z)              (* ObjectRow *)
| VSlot (table : string) (id : option Z)      (* NicknameSlot (forward reference) *)
| VLazy (table : string) (id : Z)             (* LazyLoadedObjectReference (random_reference) *)
| VRef (table : string) (id : Z).             (* ObjectReference (reference: {object: T, id: n}) *)

Definition value_eqb (a b : value) : bool :=
  match a, b with
  | VNull, VNull => true
  | VBool x, VBool y => Bool.eqb x y
  | VInt x, VInt y => Z.eqb x y
  | VFloat x, VFloat y => String.eqb x y
  | VStr x, VStr y => String.eqb x y
  | VDate x, VDate y => Z.eqb x y
  | VDateTime x o1, VDateTime y o2 => Z.eqb x y && option_eqb Z.eqb o1 o2
  | VDec x, VDec y => String.eqb x y
  | VRow t1 i1, VRow t2 i2 => String.eqb t1 t2 && Z.eqb i1 i2
  | VSlot t1 i1, VSlot t2 i2 => String.eqb t1 t2 && option_eqb Z.eqb i1 i2
  | VLazy t1 i1, VLazy t2 i2 => String.eqb t1 t2 && Z.eqb i1 i2
  | VRef t1 i1, VRef t2 i2 => String.eqb t1 t2 && Z.eqb i1 i2
  | _, _ => false
  end.

(* isinstance(v, ObjectRow) *)
Definition is_row (v : value) : bool := match v with VRow _ _ => true | _ => false end.

(* SnowfakeryDumper (= yaml.SafeDumper + defaultdict + Decimal) has a representer for the value's
   type.  Decimal is written as the tagged scalar `!snowfakery_decimal 'str(d)'` and read back by
   the matching SafeLoader constructor (data_generator_runtime.py, next to the defaultdict
   representer).  ObjectRow, ObjectReference, NicknameSlot, LazyLoadedObjectReference fall
   through to represent_undefined, which raises RepresenterError. *)
Definition representable_value (v : value) : bool :=
  match v with
  | VNull | VBool _ | VInt _ | VFloat _ | VStr _ | VDate _ | VDateTime _ _ | VDec _ => true
  | VRow _ _ | VSlot _ _ | VLazy _ _ | VRef _ _ => false
  end.

(* -------- Python dicts with str keys: association lists in insertion order -------- *)
Definition smap (A : Type) := list (string * A).

Fixpoint lookup {A} (k : string) (m : smap A) : option A :=
  match m with
  | [] => None
  | (k', v) :: r => if String.eqb k k' then Some v else lookup k r
  end.

Definition map_vals {A B} (f : A -> B) (m : smap A) : smap B :=
  map (fun kv => (fst kv, f (snd kv))) m.

(* d[k] = v *)
Fixpoint dict_set {A} (k : string) (v : A) (m : smap A) : smap A :=
  match m with
  | [] => [(k, v)]
  | (k', v') :: r => if String.eqb k k' then (k, v) :: r else (k', v') :: dict_set k v r
  end.

(* sorted(mapping.items()) for unique str keys: insertion sort on the key bytes *)
Fixpoint insert_key {A} (x : string * A) (l : smap A) : smap A :=
  match l with
  | [] => [x]
  | y :: r => if String.leb (fst x) (fst y) then x :: y :: r else y :: insert_key x r
  end.

Fixpoint sort_keys {A} (l : smap A) : smap A :=
  match l with
  | [] => []
  | x :: r => insert_key x (sort_keys r)
  end.

Fixpoint nodup_keys {A} (m : smap A) : bool :=
  match m with
  | [] => true
  | (k, _) :: r => negb (existsb (fun kv => String.eqb k (fst kv)) r) && nodup_keys r
  end.

(* -------- persistent state -------- *)
Record row := mkRow { r_table : string; r_values : smap value }.

Record dep := mkDep { d_from : string; d_to : string; d_field : string }.

Definition dep_eqb (a b : dep) : bool :=
  String.eqb (d_from a) (d_from b) && String.eqb (d_to a) (d_to b) &&
  String.eqb (d_field a) (d_field b).

(* Transients(nicknames_and_tables, id_manager): nicknamed_objects and last_seen_obj_by_table
   start empty and are empty again at every iteration boundary; what remains is *)
Record transients := mkTr {
  tr_slots : smap string;      (* named_slots: name -> table of a fresh NicknameSlot *)
  tr_orig : smap Z             (* orig_used_ids = last_used_ids.copy() *)
}.

Record globals := mkGlobals {
  g_last_used : smap Z;        (* id_manager.last_used_ids *)
  g_start_ids : smap Z;        (* id_manager.start_ids *)
  g_nicks : smap row;          (* persistent_nicknames *)
  g_tables : smap row;         (* persistent_objects_by_table *)
  g_nat : smap string;         (* nicknames_and_tables *)
  g_today : value;             (* today *)
  g_deps : list dep;           (* intertable_dependencies (OrderedSet) *)
  g_transients : transients;
  g_legacy : smap row          (* attribute nicknamed_objects, set only by __setstate__ *)
}.

(* -------- the file as a tree -------- *)
Inductive tree :=
| TVal (v : value)
| TList (l : list tree)
| TMap (m : list (string * tree)).

(* ObjectRow.__getstate__ *)
Definition row_state (r : row) : tree :=
  TMap [("_tablename", TVal (VStr (r_table r)));
        ("_values", TMap (map_vals TVal (filter (fun kv => negb (is_row (snd kv))) (r_values r))))].

(* serialize_dict_of_object_rows *)
Definition rows_state (m : smap row) : tree := TMap (map_vals row_state m).

(* dict(v._asdict()) *)
Definition dep_state (d : dep) : tree :=
  TMap [("table_name_from", TVal (VStr (d_from d)));
        ("table_name_to", TVal (VStr (d_to d)));
        ("field_name", TVal (VStr (d_field d)))].

(* IdManager.__getstate__ *)
Definition idm_state (ids : smap Z) : tree :=
  TMap [("last_used_ids", TMap (map_vals (fun z => TVal (VInt z)) ids))].

(* Globals.__getstate__ *)
Definition getstate (g : globals) : tree :=
  TMap [("persistent_nicknames", rows_state (g_nicks g));
        ("persistent_objects_by_table", rows_state (g_tables g));
        ("id_manager", idm_state (g_last_used g));
        ("today", TVal (g_today g));
        ("nicknames_and_tables", TMap (map_vals (fun s => TVal (VStr s)) (g_nat g)));
        ("intertable_dependencies", TList (map dep_state (g_deps g)))].

(* PyYAML represent_mapping with sort_keys=True, applied at every mapping node *)
Fixpoint sort_tree (t : tree) : tree :=
  match t with
  | TVal v => TVal v
  | TList l => TList (map sort_tree l)
  | TMap m => TMap (sort_keys (map (fun kv => match kv with (k, v) => (k, sort_tree v) end) m))
  end.

Definition save (g : globals) : tree := sort_tree (getstate g).

Fixpoint representable (t : tree) : bool :=
  match t with
  | TVal v => representable_value v
  | TList l => forallb representable l
  | TMap m => forallb (fun kv => match kv with (_, v) => representable v end) m
  end.

Definition representer_error {A} : result A := Err (Internal "RepresenterError").

(* what yaml.dump(state, Dumper=SnowfakeryDumper) hands to the emitter, or RepresenterError *)
Definition dump_check (g : globals) : result tree :=
  let t := save g in if representable t then Ok t else representer_error.

(* -------- loading -------- *)
Definition attr_err {A} : result A := Err (Internal "AttributeError").
Definition key_err {A} : result A := Err (Internal "KeyError").
Definition type_err {A} : result A := Err (Internal "TypeError").

Fixpoint mapM {A B} (f : A -> result B) (l : list A) : result (list B) :=
  match l with
  | [] => Ok []
  | x :: r => do y <- f x; do ys <- mapM f r; Ok (y :: ys)
  end.

(* ObjectRow.__slots__ *)
Definition slot_name_ok (k : string) : bool :=
  String.eqb k "_tablename" || String.eqb k "_values" || String.eqb k "_child_index".

Definition load_value_entry (kv : string * tree) : result (string * value) :=
  match snd kv with TVal v => Ok (fst kv, v) | _ => Err Unsupported end.

(* hydrate(ObjectRow, v): for slot, value in state.items(): setattr(self, slot, value).
   Outside the model (Unsupported): rows left without _tablename / _values, values that are
   not scalars. *)
Definition load_row (t : tree) : result row :=
  match t with
  | TMap m =>
    if forallb (fun kv => slot_name_ok (fst kv)) m then
      match lookup "_tablename" m, lookup "_values" m with
      | Some (TVal (VStr tb)), Some (TMap vs) =>
        do vals <- mapM load_value_entry vs; Ok (mkRow tb vals)
      | _, _ => Err Unsupported
      end
    else attr_err
  | _ => attr_err                                 (* v.items() *)
  end.

Definition load_row_entry (kv : string * tree) : result (string * row) :=
  do r <- load_row (snd kv); Ok (fst kv, r).

(* deserialize_dict_of_object_rows *)
Definition load_rows (t : tree) : result (smap row) :=
  match t with
  | TMap m => mapM load_row_entry m
  | _ => attr_err                                 (* dct.items() *)
  end.

(* deserialize_dict_of_object_rows(state.get(key, {})) *)
Definition load_rows_default (o : option tree) : result (smap row) :=
  match o with None => Ok [] | Some t => load_rows t end.

Definition require (st : list (string * tree)) (k : string) : result tree :=
  match lookup k st with Some t => Ok t | None => key_err end.

Definition load_id_entry (kv : string * tree) : result (string * Z) :=
  match snd kv with TVal (VInt z) => Ok (fst kv, z) | _ => Err Unsupported end.

(* IdManager.__setstate__: state["last_used_ids"] *)
Definition load_idm (t : tree) : result (smap Z) :=
  match t with
  | TMap m =>
    match lookup "last_used_ids" m with
    | None => key_err
    | Some (TMap ids) => mapM load_id_entry ids
    | Some _ => Err Unsupported
    end
  | _ => type_err
  end.

(* Dependency( ** dep): keyword expansion of the mapping *)
Definition load_dep (t : tree) : result dep :=
  match t with
  | TMap m =>
    match lookup "table_name_from" m, lookup "table_name_to" m, lookup "field_name" m with
    | Some a, Some b, Some c =>
      if (List.length m =? 3)%nat then
        match a, b, c with
        | TVal (VStr x), TVal (VStr y), TVal (VStr z) => Ok (mkDep x y z)
        | _, _, _ => Err Unsupported
        end
      else type_err
    | _, _, _ => type_err
    end
  | _ => type_err
  end.

(* OrderedSet: first occurrence kept *)
Fixpoint dedup (l : list dep) : list dep :=
  match l with
  | [] => []
  | x :: r => x :: filter (fun y => negb (dep_eqb x y)) (dedup r)
  end.

(* for dep in state.get("intertable_dependencies", []): add(Dependency( ** dep)) *)
Definition load_deps (o : option tree) : result (list dep) :=
  match o with
  | None => Ok []
  | Some (TList l) => do ds <- mapM load_dep l; Ok (dedup ds)
  | Some (TMap []) => Ok []
  | Some (TMap (_ :: _)) => type_err              (* iterating a dict yields its str keys *)
  | Some (TVal (VStr EmptyString)) => Ok []
  | Some (TVal _) => type_err                     (* not iterable, or keyword expansion of a str *)
  end.

Definition as_value (t : tree) : result value :=
  match t with TVal v => Ok v | _ => Err Unsupported end.

(* persistent_objects_by_table: deserialised only `if persistent_objects_by_table` *)
Definition load_tables (o : option tree) : result (smap row) :=
  match o with
  | None => Ok []
  | Some (TMap []) => Ok []
  | Some (TList []) => Ok []
  | Some (TVal VNull) => Ok []
  | Some (TVal _) => Err Unsupported
  | Some t => load_rows t
  end.

Definition load_nat_entry (kv : string * tree) : result (string * string) :=
  match snd kv with TVal (VStr s) => Ok (fst kv, s) | _ => Err Unsupported end.

(* reset_slots -> Transients: nicknames_and_tables.items() *)
Definition load_nat (t : tree) : result (smap string) :=
  match t with
  | TMap m => mapM load_nat_entry m
  | _ => attr_err
  end.

(* Globals.__setstate__ (hydrate(Globals, yaml.safe_load(file))), statement by statement *)
Definition load (t : tree) : result globals :=
  match t with
  | TMap st =>
    do legacy <- load_rows_default (lookup "nicknamed_objects" st);
    do nicks <- load_rows_default (lookup "persistent_nicknames" st);
    do nat_t <- require st "nicknames_and_tables";
    do idm_t <- require st "id_manager";
    do ids <- load_idm idm_t;
    do deps <- load_deps (lookup "intertable_dependencies" st);
    do today_t <- require st "today";
    do today <- as_value today_t;
    do tables <- load_tables (lookup "persistent_objects_by_table" st);
    do nat <- load_nat nat_t;
    Ok (mkGlobals ids (map_vals (fun z => z + 1) ids) nicks tables nat today deps
                  (mkTr nat ids) legacy)
  | _ => attr_err                                 (* state.get on a non-dict *)
  end.

(* -------- initialize_globals -------- *)
Fixpoint nick_slots (tpls : list (option string * string)) (acc : smap string) : smap string :=
  match tpls with
  | [] => acc
  | (Some n, t) :: r => nick_slots r (if String.eqb n "" then acc else dict_set n t acc)
  | (None, _) :: r => nick_slots r acc
  end.

Fixpoint table_slots (tpls : list (option string * string)) (acc : smap string) : smap string :=
  match tpls with
  | [] => acc
  | (_, t) :: r => table_slots r (dict_set t t acc)
  end.

(* name_slots = {nickname: table}; name_slots.update({table: table}) *)
Definition name_slots (tpls : list (option string * string)) : smap string :=
  table_slots tpls (nick_slots tpls []).

Definition fresh_globals (today : value) (nat : smap string) : globals :=
  mkGlobals [] [] [] [] nat today [] (mkTr nat []) [].

Definition initialize_globals (cont : option globals) (tpls : list (option string * string))
           (today : value) : globals :=
  match cont with
  | Some g => g                                   (* a loaded Globals object is truthy *)
  | None => fresh_globals today (name_slots tpls)
  end.

(* -------- chains of save / load steps -------- *)
Fixpoint chain (n : nat) (g : globals) : result globals :=
  match n with
  | O => Ok g
  | S k => do t <- dump_check g; do g' <- load t; chain k g'
  end.

(* -------- predicates used by the theorems -------- *)
Definition row_ok (r : row) : bool :=
  forallb (fun kv => representable_value (snd kv)) (r_values r).

Fixpoint nodup_deps (l : list dep) : bool :=
  match l with
  | [] => true
  | x :: r => negb (existsb (dep_eqb x) r) && nodup_deps r
  end.

(* representation invariant: the association lists stand for Python dicts / an OrderedSet *)
Definition wf (g : globals) : bool :=
  nodup_keys (g_last_used g) && nodup_keys (g_nicks g) && nodup_keys (g_tables g) &&
  nodup_keys (g_nat g) && nodup_deps (g_deps g) &&
  forallb (fun kv => nodup_keys (r_values (snd kv))) (g_nicks g) &&
  forallb (fun kv => nodup_keys (r_values (snd kv))) (g_tables g).

(* every stored field value (and today) has a type that SnowfakeryDumper can write; in particular
   no row (finding K1) and no slot / lazy reference / literal reference (finding K2) *)
Definition snapshot_ok (g : globals) : bool :=
  wf g && representable_value (g_today g) &&
  forallb (fun kv => row_ok (snd kv)) (g_nicks g) &&
  forallb (fun kv => row_ok (snd kv)) (g_tables g).

(* -------- vocabulary of the theorems (props/C05.v) -------- *)
Definition nonrow (kv : string * value) : bool := negb (is_row (snd kv)).

(* the values of a row that reach the dumper *)
Definition row_dumpable (r : row) : bool :=
  forallb (fun kv => representable_value (snd kv)) (filter nonrow (r_values r)).

Definition same_map {A} (m1 m2 : smap A) : Prop := forall k, lookup k m1 = lookup k m2.

(* a field after the round trip according to ObjectRow.__getstate__: row-valued fields are gone *)
Definition field_after (r : row) (f : string) : option value :=
  match lookup f (r_values r) with
  | Some v => if is_row v then None else Some v
  | None => None
  end.

Definition field_full (r : row) (f : string) : option value := lookup f (r_values r).

(* every name bound before is bound after, to a row of the same table whose fields are given
   by [keep]; no new names *)
Definition rows_restored (keep : row -> string -> option value) (m m' : smap row) : Prop :=
  forall k,
    match lookup k m with
    | Some r => exists r', lookup k m' = Some r' /\ r_table r' = r_table r /\
                           forall f, lookup f (r_values r') = keep r f
    | None => lookup k m' = None
    end.

Record restored_gen (keep : row -> string -> option value) (g g' : globals) : Prop := mkRestored {
  rs_ids : same_map (g_last_used g') (g_last_used g);
  rs_start : forall t, lookup t (g_start_ids g') = option_map (fun z => z + 1) (lookup t (g_last_used g));
  rs_nicks : rows_restored keep (g_nicks g) (g_nicks g');
  rs_tables : rows_restored keep (g_tables g) (g_tables g');
  rs_nat : same_map (g_nat g') (g_nat g);
  rs_today : g_today g' = g_today g;
  rs_deps : g_deps g' = g_deps g;
  rs_slots : same_map (tr_slots (g_transients g')) (g_nat g);
  rs_orig : same_map (tr_orig (g_transients g')) (g_last_used g)
}.

(* full strength: every field with its value and type tag *)
Definition restored := restored_gen field_full.
(* what the code guarantees in general: every field that is not a row *)
Definition restored_scalars := restored_gen field_after.


(* -------- the YAML text layer: emitter and parser are parameters -------- *)
Section YamlTextLayer.
  Variable text : Type.
  (* yaml.dump(.., Dumper=SnowfakeryDumper) on the key-sorted tree; None = RepresenterError *)
  Variable yaml_dump : tree -> option text.
  (* yaml.safe_load *)
  Variable yaml_load : text -> option tree.

  (* save_continuation_yaml *)
  Definition write_file (g : globals) : result text :=
    do t <- dump_check g;
    match yaml_dump t with Some txt => Ok txt | None => representer_error end.

  (* load_continuation_yaml *)
  Definition read_file (txt : text) : result globals :=
    match yaml_load txt with
    | Some t => load t
    | None => Err (Internal "YAMLError")
    end.

  (* n times: read the file, write it again *)
  Fixpoint rewrite_chain (n : nat) (txt : text) : result text :=
    match n with
    | O => Ok txt
    | S k => do g <- read_file txt; do txt' <- write_file g; rewrite_chain k txt'
    end.

End YamlTextLayer.

(* -------- inter-table references while a (continued) run generates rows -------- *)
(* OrderedSet.add: a reference that is already recorded keeps its place *)
Definition dep_add (l : list dep) (d : dep) : list dep :=
  if existsb (dep_eqb d) l then l else l ++ [d].

(* register_intertable_reference for every reference-valued field of every row, in order *)
Definition record_deps (l : list dep) (news : list dep) : list dep := fold_left dep_add news l.

(* a continued run: start from the loaded state, record what the new rows refer to *)
Definition continue_deps (g : globals) (news : list dep) : list dep := record_deps (g_deps g) news.

(* generate_mapping_from_recipe.build_dependencies: reference_fields[(from, field)] = to, a later entry
   overwrites an earlier one; this is the lookup table the CCI mapping of a run is written from *)
Fixpoint lookup_target (deps : list dep) (from field : string) : option string :=
  match deps with
  | [] => None
  | d :: r =>
    match lookup_target r from field with
    | Some t => Some t
    | None => if String.eqb (d_from d) from && String.eqb (d_field d) field then Some (d_to d) else None
    end
  end.

(* -------- the YAML text layer as a model: representer, serializer/emitter decisions, composer,
            constructor.  Only the character level (quoting, escaping, indentation, anchors) and
            the printers / parsers of float, date, datetime and Decimal stay parameters. -------- *)
Definition decimal_tag : ytag := TgOther "!snowfakery_decimal".

(* values the model keeps as opaque tokens *)
Definition opaque_value (v : value) : bool :=
  match v with VFloat _ | VDate _ | VDateTime _ _ | VDec _ => true | _ => false end.

(* trees of scalar nodes (after the representer / after the composer) and of presented scalars *)
Inductive ntree :=
| NS (n : snode)
| NL (l : list ntree)
| NM (m : list (snode * ntree)).

Inductive ptree :=
| PS (p : pscalar)
| PL (l : list ptree)
| PM (m : list (pscalar * ptree)).

Section YamlModel.
  (* SafeRepresenter.represent_float / represent_date / represent_datetime on the value a token
     stands for; str(Decimal) *)
  Variable float_text : string -> string.
  Variable date_text : Z -> string.
  Variable datetime_text : Z -> option Z -> string.
  (* SafeConstructor.construct_yaml_float (then .hex()), construct_yaml_timestamp, Decimal(text) *)
  Variable float_read : string -> option string.
  Variable timestamp_read : string -> option value.
  Variable decimal_read : string -> option string.

  (* SafeRepresenter + SnowfakeryDumper's Decimal representer; None = represent_undefined raises *)
  Definition represent_value (v : value) : option snode :=
    match v with
    | VNull => Some (mkSN TgNull "null")
    | VBool b => Some (mkSN TgBool (if b then "true" else "false"))
    | VInt z => Some (mkSN TgInt (int_text z))
    | VFloat h => Some (mkSN TgFloat (float_text h))
    | VStr s => Some (mkSN TgStr s)
    | VDate o => Some (mkSN TgTimestamp (date_text o))
    | VDateTime w off => Some (mkSN TgTimestamp (datetime_text w off))
    | VDec t => Some (mkSN decimal_tag t)
    | VRow _ _ | VSlot _ _ | VLazy _ _ | VRef _ _ => None
    end.

  (* SafeConstructor.construct_object on a scalar node; None = ConstructorError (or a text outside
     the modelled part of construct_yaml_int) *)
  Definition construct_scalar (n : snode) : option value :=
    let text := sn_text n in
    match sn_tag n with
    | TgStr => Some (VStr text)
    | TgInt => option_map VInt (construct_int text)
    | TgBool => option_map VBool (construct_bool text)
    | TgNull => Some VNull
    | TgFloat => option_map VFloat (float_read text)
    | TgTimestamp => timestamp_read text
    | TgOther name =>
      if String.eqb name "!snowfakery_decimal" then option_map VDec (decimal_read text) else None
    | TgMerge | TgValue | TgYaml => None
    end.

  Fixpoint represent_tree (t : tree) : option ntree :=
    match t with
    | TVal v => option_map NS (represent_value v)
    | TList l =>
      option_map NL
        ((fix go (l : list tree) : option (list ntree) :=
            match l with
            | [] => Some []
            | x :: r => match represent_tree x, go r with
                        | Some a, Some b => Some (a :: b)
                        | _, _ => None
                        end
            end) l)
    | TMap m =>
      option_map NM
        ((fix go (m : list (string * tree)) : option (list (snode * ntree)) :=
            match m with
            | [] => Some []
            | (k, x) :: r => match represent_tree x, go r with
                             | Some a, Some b => Some ((mkSN TgStr k, a) :: b)
                             | _, _ => None
                             end
            end) m)
    end.

  (* mapping keys of the persistent state are str; any other key type is outside the model *)
  Definition key_of (n : snode) : option string :=
    match construct_scalar n with Some (VStr k) => Some k | _ => None end.

  Fixpoint construct_tree (n : ntree) : option tree :=
    match n with
    | NS s => option_map TVal (construct_scalar s)
    | NL l =>
      option_map TList
        ((fix go (l : list ntree) : option (list tree) :=
            match l with
            | [] => Some []
            | x :: r => match construct_tree x, go r with
                        | Some a, Some b => Some (a :: b)
                        | _, _ => None
                        end
            end) l)
    | NM m =>
      option_map TMap
        ((fix go (m : list (snode * ntree)) : option (list (string * tree)) :=
            match m with
            | [] => Some []
            | (k, x) :: r => match key_of k, construct_tree x, go r with
                             | Some k', Some a, Some b => Some ((k', a) :: b)
                             | _, _, _ => None
                             end
            end) m)
    end.

  (* the resolver, the default tag, the emitter's analysis of a text and its decision whether a key
     is written as a simple key: the theorems hold for every choice *)
  Variable resolve : string -> ytag.
  Variable default_tag : ytag.
  Variable analyze : string -> analysis.
  Variable simple_key : string -> bool.

  (* Serializer + Emitter decisions for every scalar of a block-style document (yaml.dump's
     default_flow_style=False: scalars are never inside a flow collection) *)
  Fixpoint present (n : ntree) : ptree :=
    match n with
    | NS s => PS (emit_scalar resolve default_tag analyze false false s)
    | NL l => PL (map present l)
    | NM m => PM (map (fun kv => match kv with
                                 | (k, x) => (emit_scalar resolve default_tag analyze (simple_key (sn_text k)) false k,
                                              present x)
                                 end) m)
    end.

  (* Parser + Composer *)
  Fixpoint compose (p : ptree) : ntree :=
    match p with
    | PS s => NS (compose_scalar resolve default_tag s)
    | PL l => NL (map compose l)
    | PM m => NM (map (fun kv => match kv with
                                 | (k, x) => (compose_scalar resolve default_tag k, compose x)
                                 end) m)
    end.

  (* the character level: Emitter's writers, Scanner, alias expansion of the Composer *)
  Variable text : Type.
  Variable emit_chars : ptree -> text.
  Variable scan_chars : text -> option ptree.

  (* yaml.dump(tree, Dumper=SnowfakeryDumper); None = RepresenterError *)
  Definition yaml_dump_m (t : tree) : option text :=
    option_map (fun n => emit_chars (present n)) (represent_tree t).

  (* yaml.safe_load(text); None = a YAMLError *)
  Definition yaml_load_m (txt : text) : option tree :=
    match scan_chars txt with
    | Some p => construct_tree (compose p)
    | None => None
    end.

End YamlModel.

(* every opaque token of a tree satisfies [ok] *)
Fixpoint tree_values_ok (ok : value -> bool) (t : tree) : bool :=
  match t with
  | TVal v => ok v
  | TList l => forallb (tree_values_ok ok) l
  | TMap m => forallb (fun kv => match kv with (_, x) => tree_values_ok ok x end) m
  end.

(* every token of an opaque kind (float, date, datetime, Decimal) in the tree stands for a Python value *)
Definition tokens_ok (token_ok : value -> bool) : tree -> bool :=
  tree_values_ok (fun v => implb (opaque_value v) (token_ok v)).

(* Python's / PyYAML's printers and parsers of float, date, datetime and Decimal invert each other
   on such tokens (repr(float) / float(), isoformat / the timestamp regexp, str / Decimal()) *)
Definition codec_law (float_text : string -> string) (date_text : Z -> string)
           (datetime_text : Z -> option Z -> string) (float_read : string -> option string)
           (timestamp_read : string -> option value) (decimal_read : string -> option string)
           (token_ok : value -> bool) : Prop :=
  forall v n, opaque_value v = true -> token_ok v = true ->
              represent_value float_text date_text datetime_text v = Some n ->
              construct_scalar float_read timestamp_read decimal_read n = Some v.

(* the character level (quoting, escaping, indentation, anchors; scanner) reproduces what the emitter
   decided: the structure, the text of every scalar, whether it was plain, and its explicit tag *)
Definition syntax_law (resolve : string -> ytag) (default_tag : ytag) (analyze : string -> analysis)
           (simple_key : string -> bool) (text : Type) (emit_chars : ptree -> text)
           (scan_chars : text -> option ptree) : Prop :=
  forall n, scan_chars (emit_chars (present resolve default_tag analyze simple_key n)) =
            Some (present resolve default_tag analyze simple_key n).

(* -------- comparing the model with the events of a written file -------- *)
(* one scalar of the file as yaml.parse reports it (explicit tag, plain or quoted, text), plus what
   the dumper's and the loader's implicit resolver say about the text *)
Record oscalar := mkOS {
  os_tag : option ytag; os_plain : bool; os_text : string; os_res_d : ytag; os_res_l : ytag }.

Inductive otree :=
| OS (s : oscalar)
| OL (l : list otree)
| OM (m : list (oscalar * otree)).

(* the node of a value whose opaque token's text is read off the file *)
Definition node_for (v : value) (txt : string) : option snode :=
  represent_value (fun _ => txt) (fun _ => txt) (fun _ _ => txt) v.

(* constructor for the kinds the model computes (str, int, bool, null) *)
Definition construct_known : snode -> option value :=
  construct_scalar (fun _ => None) (fun _ => None) (fun _ => None).

Definition check_scalar (v : value) (o : oscalar) : bool :=
  match node_for v (os_text o) with
  | None => false
  | Some n =>
    String.eqb (sn_text n) (os_text o) &&
    ytag_eqb (resolve_plain (os_text o)) (os_res_d o) &&
    ytag_eqb (resolve_plain (os_text o)) (os_res_l o) &&
    match emit_scalar_as resolve_plain default_scalar_tag (os_plain o) n with
    | None => false                               (* written plain although implicit[0] is false *)
    | Some p =>
      option_eqb ytag_eqb (ps_tag p) (os_tag o) &&
      ytag_eqb (composed_tag resolve_plain default_scalar_tag p) (sn_tag n) &&
      (opaque_value v ||
       option_eqb value_eqb (construct_known (compose_scalar resolve_plain default_scalar_tag p)) (Some v))
    end
  end.

Fixpoint check_present (t : tree) (o : otree) : bool :=
  match t, o with
  | TVal v, OS s => check_scalar v s
  | TList l, OL ol =>
    (fix go (l : list tree) (ol : list otree) : bool :=
       match l, ol with
       | [], [] => true
       | x :: r, y :: s => check_present x y && go r s
       | _, _ => false
       end) l ol
  | TMap m, OM om =>
    (fix go (m : list (string * tree)) (om : list (oscalar * otree)) : bool :=
       match m, om with
       | [], [] => true
       | (k, x) :: r, (ok, y) :: s => check_scalar (VStr k) ok && check_present x y && go r s
       | _, _ => false
       end) m om
  | _, _ => false
  end.

(* -------- equality tests for the correspondence check -------- *)
Definition smap_eqb {A} (eqb : A -> A -> bool) (a b : smap A) : bool :=
  list_eqb (fun x y => String.eqb (fst x) (fst y) && eqb (snd x) (snd y)) a b.

Definition row_eqb (a b : row) : bool :=
  String.eqb (r_table a) (r_table b) && smap_eqb value_eqb (r_values a) (r_values b).

Definition globals_eqb (a b : globals) : bool :=
  smap_eqb Z.eqb (g_last_used a) (g_last_used b) &&
  smap_eqb Z.eqb (g_start_ids a) (g_start_ids b) &&
  smap_eqb row_eqb (g_nicks a) (g_nicks b) &&
  smap_eqb row_eqb (g_tables a) (g_tables b) &&
  smap_eqb String.eqb (g_nat a) (g_nat b) &&
  value_eqb (g_today a) (g_today b) &&
  list_eqb dep_eqb (g_deps a) (g_deps b) &&
  smap_eqb String.eqb (tr_slots (g_transients a)) (tr_slots (g_transients b)) &&
  smap_eqb Z.eqb (tr_orig (g_transients a)) (tr_orig (g_transients b)) &&
  smap_eqb row_eqb (g_legacy a) (g_legacy b).

Fixpoint tree_eqb (a b : tree) : bool :=
  match a, b with
  | TVal x, TVal y => value_eqb x y
  | TList l1, TList l2 =>
    (fix go (l1 l2 : list tree) : bool :=
       match l1, l2 with
       | [], [] => true
       | x :: r1, y :: r2 => tree_eqb x y && go r1 r2
       | _, _ => false
       end) l1 l2
  | TMap m1, TMap m2 =>
    (fix go (m1 m2 : list (string * tree)) : bool :=
       match m1, m2 with
       | [], [] => true
       | (k1, x) :: r1, (k2, y) :: r2 => String.eqb k1 k2 && tree_eqb x y && go r1 r2
       | _, _ => false
       end) m1 m2
  | _, _ => false
  end.

(* -------- correspondence cases -------- *)
Inductive case :=
  (* Globals object of the implementation -> tree parsed from the file it wrote (or the error) *)
| CSave (g : globals) (expected : result tree)
  (* tree of a file -> Globals object built by load_continuation_yaml (or the error) *)
| CLoad (t : tree) (expected : result globals)
  (* n times (write, read back), then write: tree of the last file *)
| CChain (g : globals) (n : nat) (expected : result tree)
  (* continued run: nicknames_and_tables after initialize_globals(loaded, templates), sorted *)
| CResume (t : tree) (tpls : list (option string * string)) (expected : result (smap string))
  (* first run: nicknames_and_tables computed from the templates, sorted *)
| CFresh (tpls : list (option string * string)) (expected : smap string)
  (* continued run: references listed in the file it loaded, references of the rows it wrote (in
     order), references listed in the file it wrote *)
| CRecord (loaded : list dep) (news : list dep) (expected : list dep)
  (* tree parsed from a written file and its scalars as the event stream of the file shows them *)
| CPresent (t : tree) (o : otree).

Definition is_unsupported {A} (r : result A) : bool :=
  match r with Err Unsupported => true | _ => false end.

Definition case_unsupported (c : case) : bool :=
  match c with
  | CLoad t _ => is_unsupported (load t)
  | CResume t _ _ => is_unsupported (load t)
  | _ => false
  end.

Definition check_case (c : case) : bool :=
  match c with
  | CSave g e => result_eqb tree_eqb (dump_check g) e
  | CLoad t e => is_unsupported (load t) || result_eqb globals_eqb (load t) e
  | CChain g n e => result_eqb tree_eqb (do g' <- chain n g; dump_check g') e
  | CResume t tpls e =>
    is_unsupported (load t) ||
    result_eqb (smap_eqb String.eqb)
               (do g <- load t; Ok (sort_keys (g_nat (initialize_globals (Some g) tpls VNull)))) e
  | CFresh tpls e =>
    smap_eqb String.eqb (sort_keys (g_nat (initialize_globals None tpls VNull))) e
  | CRecord l news e => list_eqb dep_eqb (record_deps l news) e
  | CPresent t o => check_present t o
  end.

(* one generated input yields several comparisons *)
Definition check_cases (l : list case) : bool := forallb check_case l.
Definition cases_unsupported (l : list case) : bool := existsb case_unsupported l.
