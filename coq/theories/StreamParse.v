(* StreamParse.v — where the schema of the outputs comes from (property C08).

   Transcribes the part of snowfakery/parse_recipe_yaml.py that decides which templates reach
   TableInfo.register, and with which fields:
     parse_file / parse_top_level_elements / parse_included_files / parse_included_file
         the statements of included files come first (depth first), every file's macros go to one
         dictionary (a later definition replaces an earlier one), an include file that does not
         exist or includes itself is refused
     parse_statement_list / parse_object_template / parse_variable_definition
         macros named by `include:` first, then the template's own fields (templates nested in a
         field value, directly or as arguments of a function, are parsed on the way), then its
         friends, _dedupe_field_list, then context.register_template(new_template)
     include_macro / parse_inclusions
         the macro's own `include:` first, then its fields, then its friends; a macro that is not
         defined or that is on the stack of macros being expanded is refused
   The result is the list of registered templates (table, field names, update key) in
   registration order: the argument of [Streams.infer]. *)
From SFV Require Import Base Streams.

(* ------------------------------------------------------------------ recipe syntax *)

Inductive fval :=
| FVSimple                               (* a value without templates inside *)
| FVObj (t : tpl)                        (* field: {object: ...} / a one-element list *)
| FVArgs (a : fvals)                     (* function call: every argument is parsed *)
with fvals := VNil | VCons (v : fval) (r : fvals)
with fields := FNil | FCons (name : string) (v : fval) (r : fields)
with tpl := Tpl (table : string) (upd : bool) (incl : list string) (fs : fields) (friends : stmts)
with stmts :=
| SNil
| SObj (t : tpl) (r : stmts)             (* - object: ... *)
| SVar (v : fval) (r : stmts).           (* - var: ...  value: ... *)

Record macro := mkM { m_name : string; m_incl : list string; m_fields : fields; m_friends : stmts }.

Record rfile := mkF { f_includes : list string; f_macros : list macro; f_stmts : stmts }.

Fixpoint field_names (fs : fields) : list string :=
  match fs with FNil => [] | FCons n _ r => n :: field_names r end.

Fixpoint stmts_app (a b : stmts) : stmts :=
  match a with
  | SNil => b
  | SObj t r => SObj t (stmts_app r b)
  | SVar v r => SVar v (stmts_app r b)
  end.

(* _dedupe_field_list: list({f.name: f for f in fields}.values()) — as far as names go: the
   first occurrence keeps its place *)
Definition dedupe (names : list string) : list string := fold_left add_field names [].

Definition tpl_table (t : tpl) : string := match t with Tpl tb _ _ _ _ => tb end.
Definition tpl_upd (t : tpl) : bool := match t with Tpl _ u _ _ _ => u end.
Definition tpl_incl (t : tpl) : list string := match t with Tpl _ _ i _ _ => i end.
Definition tpl_fields (t : tpl) : fields := match t with Tpl _ _ _ f _ => f end.
Definition tpl_friends (t : tpl) : stmts := match t with Tpl _ _ _ _ f => f end.

(* ------------------------------------------------------------------ the walk of one syntax tree *)

Section Walk.
  (* include_macro: stack of macros being expanded, macro name -> (field names it contributes,
     templates registered while it was expanded) *)
  Variable expand : list string -> string -> result (list string * list template).

  (* parse_inclusions *)
  Fixpoint expand_all (stack : list string) (names : list string)
    : result (list string * list template) :=
    match names with
    | [] => Ok ([], [])
    | n :: r =>
      do a <- expand stack n;
      do b <- expand_all stack r;
      Ok (fst a ++ fst b, snd a ++ snd b)
    end.

  Fixpoint w_fval (stack : list string) (v : fval) : result (list template) :=
    match v with
    | FVSimple => Ok []
    | FVObj t => w_tpl stack t
    | FVArgs a => w_fvals stack a
    end
  with w_fvals (stack : list string) (a : fvals) : result (list template) :=
    match a with
    | VNil => Ok []
    | VCons v r => do x <- w_fval stack v; do y <- w_fvals stack r; Ok (x ++ y)
    end
  with w_fields (stack : list string) (fs : fields) : result (list template) :=
    match fs with
    | FNil => Ok []
    | FCons _ v r => do x <- w_fval stack v; do y <- w_fields stack r; Ok (x ++ y)
    end
  with w_tpl (stack : list string) (t : tpl) : result (list template) :=
    match t with
    | Tpl table upd incl fs friends =>
      do m <- expand_all stack incl;
      do a <- w_fields stack fs;
      do b <- w_stmts stack friends;
      Ok (snd m ++ a ++ b ++ [mkT table (dedupe (fst m ++ field_names fs)) upd])
    end
  with w_stmts (stack : list string) (s : stmts) : result (list template) :=
    match s with
    | SNil => Ok []
    | SObj t r => do x <- w_tpl stack t; do y <- w_stmts stack r; Ok (x ++ y)
    | SVar v r => do x <- w_fval stack v; do y <- w_stmts stack r; Ok (x ++ y)
    end.
End Walk.

(* context.macros.get(name): the last definition wins *)
Definition find_macro (name : string) (ms : list macro) : option macro :=
  fold_left (fun acc m => if String.eqb (m_name m) name then Some m else acc) ms None.

(* include_macro.  The stack holds different names of defined macros, so its depth is bounded
   by the number of macros: [fuel] counts the nesting of expansions. *)
Fixpoint expand_macro (ms : list macro) (fuel : nat) (stack : list string) (name : string)
  : result (list string * list template) :=
  match fuel with
  | O => Err OutOfFuel
  | S n =>
    match find_macro name ms with
    | None => Err (DGE "Cannot find macro")
    | Some m =>
      if mem name stack then Err (DGE "Macro calls itself")
      else
        let st := stack ++ [name] in
        do i <- expand_all (expand_macro ms n) st (m_incl m);
        do a <- w_fields (expand_macro ms n) st (m_fields m);
        do b <- w_stmts (expand_macro ms n) st (m_friends m);
        Ok (dedupe (fst i ++ field_names (m_fields m)), snd i ++ a ++ b)
    end
  end.

Definition macro_fuel (ms : list macro) : nat := S (length ms).

(* parse_statement_list(objects) at the top level: context.macro_stack = () *)
Definition walk_top (ms : list macro) (s : stmts) : result (list template) :=
  w_stmts (expand_macro ms (macro_fuel ms)) [] s.

(* ------------------------------------------------------------------ include files *)

(* parse_file of [f] (called [name]); [stack] = context.inclusion_stack.  Returns the macro
   definitions in the order they reach context.macros, and the statements. *)
Fixpoint load_file (files : list (string * rfile)) (fuel : nat) (stack : list string)
         (name : string) (f : rfile) : result (list macro * stmts) :=
  match fuel with
  | O => Err OutOfFuel
  | S n =>
    do inc <-
       (fix go (l : list string) : result (list macro * stmts) :=
          match l with
          | [] => Ok ([], SNil)
          | i :: r =>
            match aget i files with
            | None => Err (DGE "Cannot load include file")
            | Some fi =>
              if String.eqb i name || mem i stack then Err (DGE "Include file includes itself")
              else
                do a <- load_file files n (stack ++ [name]) i fi;
                do b <- go r;
                Ok (fst a ++ fst b, stmts_app (snd a) (snd b))
            end
          end) (f_includes f);
    Ok (fst inc ++ f_macros f, stmts_app (snd inc) (f_stmts f))
  end.

Definition main_name : string := "r.yml".

(* parse_recipe: the registered templates in registration order *)
Definition parse_recipe (files : list (string * rfile)) (main : rfile) : result (list template) :=
  do ld <- load_file files (S (length files)) [] main_name main;
  walk_top (fst ld) (snd ld).

(* the tables handed to the output streams *)
Definition recipe_schema (files : list (string * rfile)) (main : rfile) : result (list (string * tinfo)) :=
  do regs <- parse_recipe files main; Ok (infer regs).
