(* Base.v — shared conventions of the Snowfakery models (DESIGN.md section 3). *)
From Coq Require Export String Ascii.
From Coq Require Export ZArith List Bool.
Export ListNotations.
Open Scope Z_scope.

(* Errors: DGE = Snowfakery's own DataGenError family; Internal = anything else that would
   escape (assert, KeyError, ...); OutOfFuel / BadOracle / Unsupported are model artefacts
   that every theorem excludes explicitly in its statement. *)
Inductive err :=
| DGE (kind : string)
| Internal (pyexc : string)
| StopIter
| OutOfFuel
| BadOracle
| Unsupported.

Inductive result (A : Type) := Ok (a : A) | Err (e : err).
Arguments Ok {A} a.
Arguments Err {A} e.

Definition bind {A B} (r : result A) (f : A -> result B) : result B :=
  match r with Ok a => f a | Err e => Err e end.
Notation "'do' x <- r ; k" := (bind r (fun x => k))
  (at level 200, x name, r at level 100, k at level 200).
Notation "'do' ' p <- r ; k" := (bind r (fun x => let 'p := x in k))
  (at level 200, p pattern, r at level 100, k at level 200).

Definition is_ok {A} (r : result A) : bool := match r with Ok _ => true | Err _ => false end.

(* [Zseq a n] = [a; a+1; ...; a+n-1] *)
Fixpoint Zseq (a : Z) (n : nat) : list Z :=
  match n with O => [] | S k => a :: Zseq (a + 1) k end.

Definition err_eqb (a b : err) : bool :=
  match a, b with
  | DGE _, DGE _ => true            (* messages / subclasses are not compared *)
  | Internal x, Internal y => String.eqb x y
  | StopIter, StopIter => true
  | OutOfFuel, OutOfFuel => true
  | BadOracle, BadOracle => true
  | Unsupported, Unsupported => true
  | _, _ => false
  end.

Fixpoint list_eqb {A} (eqb : A -> A -> bool) (l1 l2 : list A) : bool :=
  match l1, l2 with
  | [], [] => true
  | x :: r1, y :: r2 => eqb x y && list_eqb eqb r1 r2
  | _, _ => false
  end.

Definition result_eqb {A} (eqb : A -> A -> bool) (a b : result A) : bool :=
  match a, b with
  | Ok x, Ok y => eqb x y
  | Err e1, Err e2 => err_eqb e1 e2
  | _, _ => false
  end.

Definition option_eqb {A} (eqb : A -> A -> bool) (a b : option A) : bool :=
  match a, b with
  | Some x, Some y => eqb x y
  | None, None => true
  | _, _ => false
  end.

(* indices of failing cases, used by the correspondence check to locate disagreements *)
Fixpoint failing_from {A} (i : Z) (p : A -> bool) (l : list A) : list Z :=
  match l with
  | [] => []
  | x :: r => if p x then failing_from (i + 1) p r else i :: failing_from (i + 1) p r
  end.
Definition failing {A} (p : A -> bool) (l : list A) : list Z := failing_from 0 p l.
