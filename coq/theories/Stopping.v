(* Stopping.v — model of the "are we finished?" logic of Snowfakery (property C07).

   Transcribed from (line numbers of the current /repo tree):
     snowfakery/api.py                     43        COUNT_REPS = "__REPS__"
                                           46-55     SnowfakeryApplication (starting_id = 0, rep_count = 0,
                                                     default criterion = StoppingCriteria(COUNT_REPS, 1))
                                           65-76     stopping_tablename
                                           78-97     ensure_progress_was_made (as repaired by 0afda32, d9d462f)
                                           99-117    check_if_finished
     snowfakery/data_generator_runtime.py  42-47     StoppingCriteria
                                           49-68     IdManager (last_used_ids, start_ids, __setstate__)
                                           321-325   Interpreter.__init__: unknown stopping table
                                           406-415   loop_over_templates_until_finished
                                           532-541   RuntimeContext.check_if_finished

   Abstraction: one iteration over the recipe (loop_over_templates_once) is represented by the
   number r of rows of the criterion's table that it creates, i.e. by r calls of
   IdManager.generate_id(table).  Everything else is integer arithmetic on Z.               *)
From SFV Require Import Base.

Definition COUNT_REPS : string := "__REPS__".

(* StoppingCriteria(tablename, count) *)
Record criteria := mkCrit { c_table : string; c_count : Z }.

(* SnowfakeryApplication: the three attributes the stopping logic reads and writes *)
Record app := mkApp { a_crit : criteria; a_starting_id : Z; a_rep_count : Z }.

(* __init__: `stopping_criteria or StoppingCriteria(COUNT_REPS, 1)` (a 2-tuple is always truthy) *)
Definition new_app (sc : option criteria) : app :=
  mkApp (match sc with Some c => c | None => mkCrit COUNT_REPS 1 end) 0 0.

(* property stopping_tablename: None when the criterion counts repetitions *)
Definition stopping_tablename (a : app) : option string :=
  if String.eqb (c_table (a_crit a)) COUNT_REPS then None else Some (c_table (a_crit a)).

(* IdManager restricted to the criterion's table: last_used_ids[table] and start_ids.get(table).
   Fresh: last 0, start_ids = {}.  Restored from a continuation (__setstate__):
   start_ids[t] = last_used_ids[t] + 1 for every stored table.  (A table that is absent from the
   stored dictionary has last 0 and no start id; `.get(table, 1)` then yields 1 = 0 + 1, which is
   what [restored_idm 0] gives, so the two cases are not distinguished.)                      *)
Record idm := mkIdm { m_last : Z; m_start : option Z }.
Definition fresh_idm : idm := mkIdm 0 None.
Definition restored_idm (last0 : Z) : idm := mkIdm last0 (Some (last0 + 1)).
Definition init_idm (cont : option Z) : idm :=
  match cont with None => fresh_idm | Some l => restored_idm l end.

(* r calls of generate_id(table) *)
Definition generate_ids (m : idm) (r : Z) : idm := mkIdm (m_last m + r) (m_start m).

Definition runtime_error : err := Internal "RuntimeError".

(* id_manager.start_ids.get(table, 1) *)
Definition start_of (m : idm) : Z := match m_start m with Some s => s | None => 1 end.

(* api.py 78-97.  At the first boundary of a run (rep_count = 0) the reference id is the id
   the run started from: start_ids.get(table, 1) - 1. *)
Definition ensure_progress (a : app) (m : idm) : result app :=
  match stopping_tablename a with
  | None => Ok a
  | Some _ =>
    let s := if a_rep_count a =? 0 then start_of m - 1 else a_starting_id a in
    if m_last m =? s then Err runtime_error
    else Ok (mkApp (a_crit a) (m_last m) (a_rep_count a))
  end.

(* start + count - 1 with start = id_manager.start_ids.get(target_table, 1) *)
Definition target_id (a : app) (m : idm) : Z := start_of m + c_count (a_crit a) - 1.

(* api.py 99-117 *)
Definition check_finished (a : app) (m : idm) : app * bool :=
  let a' := mkApp (a_crit a) (a_starting_id a) (a_rep_count a + 1) in
  if String.eqb (c_table (a_crit a)) COUNT_REPS
  then (a', c_count (a_crit a) <=? a_rep_count a')
  else (a', target_id a m <=? m_last m).

(* data_generator_runtime.py 321-325: `stop_table_name is not None and ... not in tables` *)
Definition interp_init (a : app) (tables : list string) : result unit :=
  match stopping_tablename a with
  | Some s =>
    if negb (existsb (String.eqb s) tables) then Err (DGE "DataGenNameError") else Ok tt
  | None => Ok tt
  end.

(* What a run does.  [Exhausted] is the model's out-of-fuel answer: the supplied prefix of the
   row-count sequence ended before the run did; theorems exclude or bound it explicitly. *)
Inductive outcome :=
| Stopped (iters : nat) (last : Z)    (* normal return after [iters] complete iterations *)
| Failed (iters : nat) (e : err)      (* exception raised at the end of iteration [iters];
                                         iters = 0: at construction, before any row *)
| Exhausted (iters : nat).

(* loop_over_templates_until_finished + RuntimeContext.check_if_finished; the list holds the
   row counts of the coming iterations, [j] counts the iterations already completed. *)
Fixpoint loop (rs : list Z) (j : nat) (a : app) (m : idm) : outcome :=
  match rs with
  | [] => Exhausted j
  | r :: rest =>
    let m1 := generate_ids m r in                       (* loop_over_templates_once *)
    match ensure_progress a m1 with
    | Err e => Failed (S j) e
    | Ok a1 =>
      let '(a2, fin) := check_finished a1 m1 in
      if fin then Stopped (S j) (m_last m1) else loop rest (S j) a2 m1
    end
  end.

(* generate(): new application object per run; cont = Some last0 when a continuation file with
   last_used_ids[table] = last0 was loaded. *)
Definition run (tables : list string) (sc : option criteria) (cont : option Z) (rs : list Z)
  : outcome :=
  let a := new_app sc in
  match interp_init a tables with
  | Err e => Failed 0 e
  | Ok _ => loop rs 0 a (init_idm cont)
  end.

Definition zsum (l : list Z) : Z := fold_right Z.add 0 l.

(* first n values of an infinite row-count sequence *)
Definition prefix (r : nat -> Z) (n : nat) : list Z := map r (seq 0 n).

(* A session: runs chained through continuation files.  [rs] is the row-count sequence of the
   criterion table over the whole session; every run may use at most [cap] iterations.  A run
   that does not return normally writes no continuation file, so the chain ends there. *)
Fixpoint chain (tables : list string) (cont : option Z) (rs : list Z)
         (runs : list (option criteria * nat)) : list outcome :=
  match runs with
  | [] => []
  | (sc, cap) :: more =>
    let o := run tables sc cont (firstn cap rs) in
    o :: match o with
         | Stopped n last => chain tables (Some last) (skipn n rs) more
         | _ => []
         end
  end.

(* The embedding pattern: ONE application object (hence one criterion) passed as
   parent_application to a run and then to its continuations.  starting_id and rep_count are
   never reset, so the object enters the next run in the state the previous run left it in. *)
Fixpoint final_app (rs : list Z) (a : app) (m : idm) : app :=
  match rs with
  | [] => a
  | r :: rest =>
    let m1 := generate_ids m r in
    match ensure_progress a m1 with
    | Err _ => a
    | Ok a1 =>
      let '(a2, fin) := check_finished a1 m1 in
      if fin then a2 else final_app rest a2 m1
    end
  end.

Definition run_with (tables : list string) (a : app) (cont : option Z) (rs : list Z) : outcome :=
  match interp_init a tables with
  | Err e => Failed 0 e
  | Ok _ => loop rs 0 a (init_idm cont)
  end.

Fixpoint chain_reuse (tables : list string) (a : app) (cont : option Z) (rs : list Z)
         (caps : list nat) : list outcome :=
  match caps with
  | [] => []
  | cap :: more =>
    let o := run_with tables a cont (firstn cap rs) in
    o :: match o with
         | Stopped n last =>
           chain_reuse tables (final_app (firstn cap rs) a (init_idm cont)) (Some last)
                       (skipn n rs) more
         | _ => []
         end
  end.

(* -------- correspondence cases -------- *)

Definition outcome_eqb (x y : outcome) : bool :=
  match x, y with
  | Stopped n l, Stopped n' l' => Nat.eqb n n' && (l =? l')
  | Failed n e, Failed n' e' => Nat.eqb n n' && err_eqb e e'
  | Exhausted n, Exhausted n' => Nat.eqb n n'
  | _, _ => false
  end.

Inductive case :=
(* the real SnowfakeryApplication and IdManager objects driven directly *)
| CDirect (sc : option criteria) (cont : option Z) (rs : list Z) (expected : outcome)
(* end to end through snowfakery.data_generator.generate *)
| CChain (tables : list string) (rs : list Z) (runs : list (option criteria * nat))
         (expected : list outcome)
(* the same, one application object reused for all runs of the session *)
| CChainReuse (tables : list string) (rs : list Z) (sc : option criteria) (caps : list nat)
              (expected : list outcome).

Definition check_case (c : case) : bool :=
  match c with
  | CDirect sc cont rs e => outcome_eqb (loop rs 0 (new_app sc) (init_idm cont)) e
  | CChain tables rs runs e => list_eqb outcome_eqb (chain tables None rs runs) e
  | CChainReuse tables rs sc caps e =>
    list_eqb outcome_eqb (chain_reuse tables (new_app sc) None rs caps) e
  end.

(* -------- vocabulary of the theorem statements -------- *)

(* a target table name that selects the row-count criterion: anything but the repetition
   marker (a recipe table literally named "__REPS__" would be read as a repetition target) *)
Definition proper_table (T : string) : Prop := T <> COUNT_REPS.

(* id of the criterion table when the run starts *)
Definition base (cont : option Z) : Z := match cont with None => 0 | Some l => l end.

Definition shift_outcome (d : Z) (o : outcome) : outcome :=
  match o with Stopped n l => Stopped n (l + d) | _ => o end.
