(* C10Cases.v — the correspondence cases of property C10 are of two kinds: operation scripts
   against the RowHistory kernel (RowHistory.case) and whole recipes with random_reference run by
   the interpreter model (Interp.case, which contains that kernel).                          *)
From SFV Require Import Base RandRange RowHistory Interp.

Inductive kcase :=
| KScript (c : RowHistory.case)
| KRecipe (c : Interp.case).

Definition check_kcase (c : kcase) : bool :=
  match c with
  | KScript k => RowHistory.check_case k
  | KRecipe k => Interp.check_case k
  end.

Definition kcase_unsupported (c : kcase) : bool :=
  match c with
  | KScript _ => false
  | KRecipe k => Interp.case_unsupported k
  end.
