(* C10Cases.v — the correspondence cases of property C10 are of three kinds: operation scripts
   against the RowHistory kernel (RowHistory.case), whole recipes with random_reference run by
   the interpreter model (Interp.case, which contains that kernel), and traces of several call
   sites of (unique) random_reference over one row history (RowHistory.mcase).               *)
From SFV Require Import Base RandRange RowHistory Interp.

Inductive kcase :=
| KScript (c : RowHistory.case)
| KRecipe (c : Interp.case)
| KMulti (c : RowHistory.mcase).

Definition check_kcase (c : kcase) : bool :=
  match c with
  | KScript k => RowHistory.check_case k
  | KRecipe k => Interp.check_case k
  | KMulti k => RowHistory.check_mcase k
  end.

Definition kcase_unsupported (c : kcase) : bool :=
  match c with
  | KScript _ => false
  | KRecipe k => Interp.case_unsupported k
  | KMulti _ => false
  end.
