(* Mapping.v — model of the CCI mapping generator (property C16).

   Transcribes, as the code is now (after fix commits a45ec7e, 51666fd and ae07041):
     snowfakery/generate_mapping_from_recipe.py   (whole file)
     snowfakery/cci_mapping_files/post_processes.py (add_after_statements, _index_by_sobject)
     snowfakery/salesforce.py:52-65               (find_record_type_column)
     snowfakery/parse_recipe_yaml.py:56-90, 138-147, 805-810 (TableInfo.register, register_template,
                                                   hidden tables dropped from ParseResult.tables)
     snowfakery/data_generator_runtime.py:166-171, 197-226 (register_intertable_reference,
                                                   Globals.__getstate__/__setstate__ for the dependencies)

   Inputs of the model: the templates of the recipe in registration order (post-order of the parse:
   nested templates of the fields, then friends, then the template itself), the Dependency tuples
   recorded at run time (an OrderedSet, i.e. a duplicate-free list in first-insertion order) and the
   unified load declarations.  Python dicts are association lists in insertion order. *)
From SFV Require Import Base.
Open Scope string_scope.
Open Scope list_scope.   (* [++] is list append; strings use String.append *)

(* ------------------------------------------------------------------ helpers *)
Definition mem (x : string) (l : list string) : bool := existsb (String.eqb x) l.

(* list.index: None = ValueError *)
Fixpoint index_of (x : string) (l : list string) : option nat :=
  match l with
  | [] => None
  | y :: r => if String.eqb x y then Some O else option_map S (index_of x r)
  end.

(* sorted(l)[0]: None = IndexError *)
Fixpoint min_str (l : list string) : option string :=
  match l with
  | [] => None
  | x :: r => match min_str r with
              | None => Some x
              | Some m => if String.leb x m then Some x else Some m
              end
  end.

Fixpoint assoc_get {A} (k : string) (l : list (string * A)) : option A :=
  match l with
  | [] => None
  | (k', v) :: r => if String.eqb k k' then Some v else assoc_get k r
  end.

(* d[k] = v on an insertion-ordered dict: an existing key keeps its position *)
Fixpoint dict_set {A} (k : string) (v : A) (l : list (string * A)) : list (string * A) :=
  match l with
  | [] => [(k, v)]
  | (k', v') :: r => if String.eqb k k' then (k, v) :: r else (k', v') :: dict_set k v r
  end.

Fixpoint mapM {A B} (f : A -> result B) (l : list A) : result (list B) :=
  match l with
  | [] => Ok []
  | x :: r => do y <- f x; do ys <- mapM f r; Ok (y :: ys)
  end.

(* str.lower() and .replace("_", "") on ASCII names *)
Definition lower_ascii (c : ascii) : ascii :=
  let n := N_of_ascii c in
  if (N.leb 65 n && N.leb n 90)%bool then ascii_of_N (n + 32) else c.
Fixpoint lower (s : string) : string :=
  match s with EmptyString => EmptyString | String c r => String (lower_ascii c) (lower r) end.
Fixpoint drop_underscores (s : string) : string :=
  match s with
  | EmptyString => EmptyString
  | String c r => if Ascii.eqb c "_"%char then drop_underscores r else String c (drop_underscores r)
  end.

Definition hidden (s : string) : bool := prefix "__" s.

Fixpoint has_space (s : string) : bool :=
  match s with
  | EmptyString => false
  | String c r => if Ascii.eqb c " "%char then true else has_space r
  end.

(* ------------------------------------------------------------------ dependencies (run time) *)
Record dep := mkDep { d_from : string; d_to : string; d_field : string }.

Definition dep_eqb (a b : dep) : bool :=
  String.eqb (d_from a) (d_from b) && String.eqb (d_to a) (d_to b)
  && String.eqb (d_field a) (d_field b).

(* OrderedSet.add *)
Definition oset_add (d : dep) (l : list dep) : list dep :=
  if existsb (dep_eqb d) l then l else l ++ [d].

(* __getstate__ writes the items as a list of dicts, __setstate__ adds them one by one to a new
   OrderedSet (commit a45ec7e) *)
Definition save_load (l : list dep) : list dep := fold_left (fun acc d => oset_add d acc) l [].

(* history of one dataset: references observed by remember_row, interleaved with
   stop-and-continue (save to / load from a continuation file) *)
Inductive ev := Obs (d : dep) | SaveLoad.

Fixpoint run_events (evs : list ev) (st : list dep) : list dep :=
  match evs with
  | [] => st
  | Obs d :: r => run_events r (oset_add d st)
  | SaveLoad :: r => run_events r (save_load st)
  end.

Definition is_obs (e : ev) : bool := match e with Obs _ => true | SaveLoad => false end.

(* ------------------------------------------------------------------ the sorter *)
(* _table_is_free: every dependency of the table leads to a sorted table or to the table itself.
   [tg t] = the target tables of dependencies.get(t, OrderedSet()) *)
Definition is_free (tg : string -> list string) (sorted : list string) (t : string) : bool :=
  forallb (fun x => mem x sorted || String.eqb x t) (tg t).

(* the `while tables` loop of sort_dependencies; [stuck] is what is appended when a pass
   sorts nothing *)
Fixpoint sort_loop (tg : string -> list string) (stuck : list string -> result (list string))
         (fuel : nat) (tables sorted : list string) : result (list string) :=
  match tables with
  | [] => Ok sorted
  | _ :: _ =>
    match fuel with
    | O => Err OutOfFuel
    | S f =>
      let leaf := filter (is_free tg sorted) tables in
      let sorted1 := sorted ++ leaf in
      let tables1 := filter (fun t => negb (mem t sorted1)) tables in
      if Nat.eqb (length tables1) (length tables)
      then do sub <- stuck tables1; sort_loop tg stuck f tables1 (sorted1 ++ sub)
      else sort_loop tg stuck f tables1 sorted1
    end
  end.

(* sorted_tables.append(sorted(tables)[0]) *)
Definition stuck_min (ts : list string) : result (list string) :=
  match min_str ts with
  | Some m => Ok [m]
  | None => Err (Internal "IndexError")
  end.

Definition sort_fuel (tables : list string) : nat := 2 * length tables + 1.

Definition tg_of (deps : list (string * list string)) (t : string) : list string :=
  match assoc_get t deps with Some l => l | None => [] end.

(* {**inferred_dependencies, **declared_dependencies}: a declared entry replaces the inferred one *)
Definition merged_tg (inferred declared : list (string * list string)) (t : string) : list string :=
  match assoc_get t declared with Some l => l | None => tg_of inferred t end.

Definition nonempty {A} (l : list A) : bool := match l with [] => false | _ => true end.

(* sort_dependencies({}, declared, tables.copy()) *)
Definition sort_declared_only (declared : list (string * list string)) (ts : list string)
  : result (list string) :=
  sort_loop (tg_of declared) stuck_min (sort_fuel ts) ts [].

Definition sort_dependencies (inferred declared : list (string * list string))
           (tables : list string) : result (list string) :=
  sort_loop (merged_tg inferred declared)
            (if (nonempty inferred && nonempty declared)%bool
             then sort_declared_only declared else stuck_min)
            (sort_fuel tables) tables [].

(* ------------------------------------------------------------------ tables inferred from the recipe *)
Record ftpl := mkTpl { tp_table : string; tp_key : option string; tp_fields : list string }.
Record tinfo := mkTi { ti_name : string; ti_fields : list string; ti_keys : list (option string) }.

(* `parsed_template.update_key or None` *)
Definition norm_key (k : option string) : option string :=
  match k with Some EmptyString => None | _ => k end.

(* dict.update with new keys appended, existing keys keeping their position *)
Definition add_new (old new : list string) : list string :=
  fold_left (fun acc x => if mem x acc then acc else acc ++ [x]) new old.

Definition visible_fields (fs : list string) : list string := filter (fun f => negb (hidden f)) fs.

(* ParseContext.register_template + TableInfo.register *)
Fixpoint register (t : ftpl) (tis : list tinfo) : list tinfo :=
  match tis with
  | [] => [mkTi (tp_table t) (add_new [] (visible_fields (tp_fields t))) [norm_key (tp_key t)]]
  | ti :: r =>
    if String.eqb (ti_name ti) (tp_table t)
    then mkTi (ti_name ti) (add_new (ti_fields ti) (visible_fields (tp_fields t)))
              (ti_keys ti ++ [norm_key (tp_key t)]) :: r
    else ti :: register t r
  end.

Definition all_tables (tpls : list ftpl) : list tinfo :=
  fold_left (fun acc t => register t acc) tpls [].

(* parse_recipe: tables whose name starts with "__" are dropped *)
Definition infer_tables (tpls : list ftpl) : list tinfo :=
  filter (fun ti => negb (hidden (ti_name ti))) (all_tables tpls).

(* ------------------------------------------------------------------ build_dependencies *)
Fixpoint group_add (k v : string) (l : list (string * list string)) : list (string * list string) :=
  match l with
  | [] => [(k, [v])]
  | (k', vs) :: r => if String.eqb k k' then (k', vs ++ [v]) :: r else (k', vs) :: group_add k v r
  end.

(* inferred_dependencies: table_name_from -> targets, keys in first-insertion order *)
Definition inferred_of (ds : list dep) : list (string * list string) :=
  fold_left (fun acc d => group_add (d_from d) (d_to d) acc) ds [].

(* reference_fields[(table, field)]: the last dependency recorded for the pair wins *)
Definition ref_target (ds : list dep) (t f : string) : option string :=
  fold_left (fun acc d => if (String.eqb (d_from d) t && String.eqb (d_field d) f)%bool
                          then Some (d_to d) else acc) ds None.

Record decl := mkDecl { dc_object : string; dc_load_after : list string;
                        dc_extras : list (string * string) }.

(* relevant_declarations (load_after non-empty) -> declared_dependencies *)
Definition declared_of (decls : list decl) : list (string * list string) :=
  map (fun d => (dc_object d, dc_load_after d)) (filter (fun d => nonempty (dc_load_after d)) decls).

(* remove_person_contact_id *)
Definition remove_pc_deps (inferred : list (string * list string)) : list (string * list string) :=
  map (fun kv => if String.eqb (fst kv) "Account"
                 then (fst kv, filter (fun x => negb (String.eqb (lower x) "personcontact")) (snd kv))
                 else kv) inferred.

Definition remove_pc_field (tis : list tinfo) : list tinfo :=
  map (fun ti => if String.eqb (ti_name ti) "Account"
                 then mkTi (ti_name ti)
                           (filter (fun f => negb (String.eqb f "PersonContactId")) (ti_fields ti))
                           (ti_keys ti)
                 else ti) tis.

(* ------------------------------------------------------------------ load steps *)
Record lstep := mkLs { ls_table : string; ls_key : option string; ls_fields : list string }.

Definition lstep_eqb (a b : lstep) : bool :=
  String.eqb (ls_table a) (ls_table b) && option_eqb String.eqb (ls_key a) (ls_key b)
  && list_eqb String.eqb (ls_fields a) (ls_fields b).

Definition raw_steps (tis : list tinfo) : list lstep :=
  flat_map (fun ti => map (fun k => mkLs (ti_name ti) k (ti_fields ti)) (ti_keys ti)) tis.

(* OrderedSet of LoadStep tuples *)
Definition lset_add (s : lstep) (l : list lstep) : list lstep :=
  if existsb (lstep_eqb s) l then l else l ++ [s].
Definition dedupe_steps (l : list lstep) : list lstep := fold_left (fun acc s => lset_add s acc) l [].

(* list.sort(key=...) is stable *)
Fixpoint insert_by (k : nat) (s : lstep) (l : list (nat * lstep)) : list (nat * lstep) :=
  match l with
  | [] => [(k, s)]
  | (k', s') :: r => if Nat.leb k k' then (k, s) :: l else (k', s') :: insert_by k s r
  end.
Definition sort_keyed (l : list (nat * lstep)) : list (nat * lstep) :=
  fold_right (fun ks acc => insert_by (fst ks) (snd ks) acc) [] l.

Definition key_step (order : list string) (s : lstep) : result (nat * lstep) :=
  match index_of (ls_table s) order with
  | Some i => Ok (i, s)
  | None => Err (Internal "ValueError")
  end.

Definition load_steps (tis : list tinfo) (order : list string) : result (list lstep) :=
  do keyed <- mapM (key_step order) (dedupe_steps (raw_steps tis));
  Ok (map snd (sort_keyed keyed)).

(* ------------------------------------------------------------------ mappings *)
Record lookup := mkLk { lk_field : string; lk_table : string; lk_after : option string }.

Record mstep := mkStep {
  m_sf_object : string;
  m_table : string;
  m_fields : list (string * string);       (* mapping key -> column *)
  m_lookups : list lookup;                 (* key_field = the field name *)
  m_extras : list (string * string);       (* api / bulk_mode / batch_size / anchor_date *)
  m_action : option string;
  m_update_key : option string;
  m_filters : list string
}.

(* salesforce.find_record_type_column *)
Definition is_rt (f : string) : bool :=
  let n := drop_underscores (lower f) in
  (String.eqb n "recordtype" || String.eqb n "recordtypeid")%bool.

Definition find_rt (fields : list string) : result (option string) :=
  match filter is_rt fields with
  | [] => Ok None
  | [c] => Ok (Some c)
  | _ => Err (DGE "Multiple record type columns")
  end.

Definition step_name (t : string) (k : option string) : string :=
  match k with
  | Some key => String.append "Upsert " (String.append t (String.append " on " key))
  | None => String.append "Insert " t
  end.

Definition is_some {A} (o : option A) : bool := match o with Some _ => true | None => false end.

Definition step_body (steps : list lstep) (loadable : list dep) (decls : list (string * decl))
           (s : lstep) : result (string * mstep) :=
  let t := ls_table s in
  do rt <- find_rt (ls_fields s);
  let plain := filter (fun f => negb (is_some (ref_target loadable t f))
                                && negb (option_eqb String.eqb (Some f) rt))%bool (ls_fields s) in
  let fields0 := map (fun f => (f, f)) plain in
  let fields := match rt with Some c => dict_set "RecordTypeId" c fields0 | None => fields0 end in
  let lookups := flat_map (fun f => match ref_target loadable t f with
                                    | Some to => [mkLk f to None]
                                    | None => []
                                    end) (ls_fields s) in
  let sf := if String.eqb t "PersonContact" then "Contact" else t in
  let extras := match assoc_get t decls with Some d => dc_extras d | None => [] end in
  match ls_key s with
  | Some key =>
    Ok (step_name t (Some key),
        mkStep sf t fields lookups extras (Some "upsert") (Some key)
               [String.append "_sf_update_key = '" (String.append key "'")])
  | None =>
    let other := existsb (fun o => String.eqb (ls_table o) t && is_some (ls_key o))%bool steps in
    Ok (step_name t None,
        mkStep sf t fields lookups extras None None
               (if other then ["_sf_update_key = NULL"] else []))
  end.

(* _index_by_sobject: table -> (first_instance, last_step_name); keyed on mapping["table"] since
   fix commit ae07041 (lookups name tables, and the PersonContact step has sf_object Contact) *)
Fixpoint index_by_sobject (idx : nat) (ms : list (string * mstep))
         (acc : list (string * (nat * string))) : list (string * (nat * string)) :=
  match ms with
  | [] => acc
  | (name, m) :: r =>
    let so := m_table m in
    let acc' := match assoc_get so acc with
                | Some (fi, _) => dict_set so (fi, name) acc
                | None => dict_set so (idx, name) acc
                end in
    index_by_sobject (S idx) r acc'
  end.

Definition after_lookup (index : list (string * (nat * string))) (idx : nat) (l : lookup)
  : result lookup :=
  if String.eqb (lk_table l) "PersonContact" then Ok l
  else match assoc_get (lk_table l) index with
       | None => Err (Internal "KeyError")
       | Some (fi, ln) =>
         if Nat.leb idx fi
         then match lk_after l with
              | Some _ => Ok l
              | None => Ok (mkLk (lk_field l) (lk_table l) (Some ln))
              end
         else Ok l
       end.

Fixpoint add_after_from (index : list (string * (nat * string))) (idx : nat)
         (ms : list (string * mstep)) : result (list (string * mstep)) :=
  match ms with
  | [] => Ok []
  | (name, m) :: r =>
    do lks <- mapM (after_lookup index idx) (m_lookups m);
    do rest <- add_after_from index (S idx) r;
    Ok ((name, mkStep (m_sf_object m) (m_table m) (m_fields m) lks (m_extras m)
                      (m_action m) (m_update_key m) (m_filters m)) :: rest)
  end.

Definition add_after_statements (ms : list (string * mstep)) : result (list (string * mstep)) :=
  add_after_from (index_by_sobject O ms []) O ms.

Definition mappings_from_load_steps (steps : list lstep) (loadable : list dep)
           (decls : list (string * decl)) : result (list (string * mstep)) :=
  do named <- mapM (step_body steps loadable decls) steps;
  add_after_statements (fold_left (fun acc nm => dict_set (fst nm) (snd nm) acc) named []).

(* ------------------------------------------------------------------ mapping_from_recipe_templates *)
Definition loadable_deps (names : list string) (deps : list dep) : list dep :=
  filter (fun d => mem (d_to d) names || String.eqb (d_to d) "PersonContact")%bool deps.

Definition mapping_from_recipe (tpls : list ftpl) (deps : list dep) (decls : list decl)
  : result (list (string * mstep)) :=
  let tis := infer_tables tpls in
  let names := map ti_name tis in
  let loadable := loadable_deps names deps in
  let inferred := remove_pc_deps (inferred_of loadable) in
  let declared := declared_of decls in
  let tis' := remove_pc_field tis in
  do order <- sort_dependencies inferred declared names;
  do steps <- load_steps tis' order;
  mappings_from_load_steps steps loadable (map (fun d => (dc_object d, d)) decls).

(* ------------------------------------------------------------------ correspondence cases *)
Definition dep_visible (d : dep) : bool := (negb (hidden (d_from d)) && negb (hidden (d_field d)))%bool.

Definition pair_eqb (a b : string * string) : bool :=
  (String.eqb (fst a) (fst b) && String.eqb (snd a) (snd b))%bool.

(* the parsed YAML is a dict: compare as sets of entries *)
Definition same_set {A} (eqb : A -> A -> bool) (l1 l2 : list A) : bool :=
  (Nat.eqb (length l1) (length l2) && forallb (fun x => existsb (eqb x) l2) l1
   && forallb (fun y => existsb (eqb y) l1) l2)%bool.

Definition lookup_eqb (a b : lookup) : bool :=
  (String.eqb (lk_field a) (lk_field b) && String.eqb (lk_table a) (lk_table b)
   && option_eqb String.eqb (lk_after a) (lk_after b))%bool.

Definition mstep_eqb (a b : mstep) : bool :=
  (String.eqb (m_sf_object a) (m_sf_object b) && String.eqb (m_table a) (m_table b)
   && same_set pair_eqb (m_fields a) (m_fields b)
   && same_set lookup_eqb (m_lookups a) (m_lookups b)
   && same_set pair_eqb (m_extras a) (m_extras b)
   && option_eqb String.eqb (m_action a) (m_action b)
   && option_eqb String.eqb (m_update_key a) (m_update_key b)
   && list_eqb String.eqb (m_filters a) (m_filters b))%bool.

Definition named_eqb (a b : string * mstep) : bool :=
  (String.eqb (fst a) (fst b) && mstep_eqb (snd a) (snd b))%bool.

(* one run of the implementation on a recipe: [r_start] = dependencies in the continuation file
   the run started from (empty for a fresh run), [r_evs] = SaveLoad (for a continued run) followed by
   the references seen in the rows handed to the output stream, [r_final] = the Dependency tuples
   the run handed to the mapping generator, [r_expected] = the mapping it wrote *)
Record run_obs := mkRun {
  r_start : list dep;
  r_evs : list ev;
  r_final : list dep;
  r_expected : result (list (string * mstep))
}.

Inductive case :=
| CFree (t : string) (deps : list (string * list string)) (sorted : list string) (expected : bool)
| CSort (inferred declared : list (string * list string)) (tables : list string)
        (expected : result (list string))
| CRecipe (tpls : list ftpl) (decls : list decl) (runs : list run_obs).

(* the recorded dependencies, projected to visible tables / fields (hidden rows never reach the
   output stream), are what the start state becomes after the events *)
Definition check_deps (r : run_obs) : bool :=
  list_eqb dep_eqb (filter dep_visible (run_events (r_evs r) (filter dep_visible (r_start r))))
           (filter dep_visible (r_final r)).

Definition check_case (c : case) : bool :=
  match c with
  | CFree t deps sorted e => Bool.eqb (is_free (tg_of deps) sorted t) e
  | CSort inf dec tables e =>
    result_eqb (list_eqb String.eqb) (sort_dependencies inf dec tables) e
  | CRecipe tpls decls runs =>
    forallb (fun r => check_deps r &&
                      result_eqb (list_eqb named_eqb)
                                 (mapping_from_recipe tpls (r_final r) decls) (r_expected r))%bool runs
  end.
