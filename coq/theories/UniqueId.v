(* UniqueId.v — model of snowfakery/standard_plugins/UniqueId.py, snowfakery/utils/scrambled_numbers.py
   and the unique_id / unique_alpha_code entries of snowfakery/template_funcs.py (property C13).

   Pipeline of the implementation:
     template parts (pid / context / index / literal numbers)
       -> each number rendered in octal, chunks joined with the digit 9, the digit string read
          as a decimal integer                                    (UniqueNumericIdGenerator)
       -> scramble_number: (number//10 xor mask(key,numbits)) * 10^4 + key * 10^3 + numbits
       -> (alpha codes) BaseConverter(alphabet).encode, left-padded with alphabet[0]
                                                                   (AlphaUniquifier)
   Python ints are Z.  Characters are code points (Z).  Digit strings are lists of Z, most
   significant digit first.
   Third-party / float behaviour is NOT computed by the model; it enters as Section variables:
     mask  key numbits = Random(key).getrandbits(numbits)         (mask_for_key)
     nbits number      = int(log(number, 2)) + 1                  (scramble_number, float log)
     bpc   size        = int(log(size, 2))                        (AlphaUniquifier._randomize_number)
   The correspondence check observes their values from the implementation and instantiates the
   variables with the observed constants. *)
From SFV Require Import Base.

Definition assertion {A} : result A := Err (Internal "AssertionError").
Definition value_error {A} : result A := Err (Internal "ValueError").

(* ---------------------------------------------------------------- positional digits *)

(* least significant digit first.  The fuel is an upper bound on the number of digits; the lemma
   to_digits_value (proofs/UniqueIdP.v) shows that the fuel given by [to_digits] always suffices
   (from_digits b (to_digits b n) = n), so the [O] branch is never reached from [to_digits]. *)
Fixpoint digits_lsb (fuel : nat) (b n : Z) : list Z :=
  match fuel with
  | O => []
  | S f => if n <? b then [n] else (n mod b) :: digits_lsb f b (n / b)
  end.

(* digits of n >= 0 in base b >= 2, most significant first; 0 is rendered as [0] *)
Definition to_digits (b n : Z) : list Z :=
  rev (digits_lsb (S (Z.to_nat (Z.log2 n))) b n).

Definition from_digits (b : Z) (ds : list Z) : Z :=
  fold_left (fun acc d => acc * b + d) ds 0.

(* ---------------------------------------------------------------- templates *)

Inductive part :=
| PPid              (* "pid"     : the generator's pid string (one or two octal numbers) *)
| PContext          (* "context" : the process-wide generator counter                    *)
| PIndex            (* "index"   : the per-generator counter                             *)
| PNum (n : Z)      (* a literal number                                                  *)
| PBad.             (* anything else: DataGenValueError in the constructor               *)

Definition is_bad (p : part) : bool := match p with PBad => true | _ => false end.

(* The pid is a list of numbers: [p] for a user-supplied pid, [seconds; os_pid] for the default
   (rendered by the code as oct(seconds) + "9" + oct(os_pid), i.e. two chunks of the join). *)
Definition part_nums (pid : list Z) (ctx idx : Z) (p : part) : list Z :=
  match p with
  | PPid => pid
  | PContext => [ctx]
  | PIndex => [idx]
  | PNum n => [n]
  | PBad => []
  end.

Definition instantiate (tpl : list part) (pid : list Z) (ctx idx : Z) : list Z :=
  flat_map (part_nums pid ctx idx) tpl.

Definition oct (n : Z) : list Z := to_digits 8 n.

(* "9".join(chunks) *)
Fixpoint join9 (chunks : list (list Z)) : list Z :=
  match chunks with
  | [] => []
  | [c] => c
  | c :: rest => c ++ 9 :: join9 rest
  end.

(* int("9".join(oct(n) for n in nums)) *)
Definition encode (nums : list Z) : Z := from_digits 10 (join9 (map oct nums)).

(* UniqueNumericIdGenerator.__init__: every part must be recognised *)
Definition gen_new_ok (tpl : list part) : result unit :=
  if existsb is_bad tpl then Err (DGE "unknown template part") else Ok tt.

(* int(self.number_template.format(index=index)); oct() of a negative number leaves an "o" in
   the string (oct(-5)[2:] = "o5"), on which int() raises ValueError. *)
Definition plain_value (tpl : list part) (pid : list Z) (ctx idx : Z) : result Z :=
  let nums := instantiate tpl pid ctx idx in
  if forallb (fun x => 0 <=? x) nums then Ok (encode nums) else value_error.

(* ---------------------------------------------------------------- template strings *)

(* UniqueNumericIdGenerator.__init__ on the raw `parts` string:
     parts = [self._convert(part.strip().lower()) for part in parts.split(",")]
   with _convert: "pid" | part.isnumeric() -> oct(int(part)) | "index" | "context" | DataGenValueError.
   Strings are lists of code points.  The model covers ASCII strings exactly (str.strip() removes the
   ASCII characters for which str.isspace() holds: 9..13, 28..32; str.lower() maps A..Z; str.isnumeric()
   holds for non-empty strings of 0..9); a string with a code point >= 128 is refused (Unsupported):
   Unicode case mapping / numeric characters are not modelled. *)
Definition is_space (c : Z) : bool := ((9 <=? c) && (c <=? 13)) || ((28 <=? c) && (c <=? 32)).
Definition lower_char (c : Z) : Z := if (65 <=? c) && (c <=? 90) then c + 32 else c.
Definition is_digit (c : Z) : bool := (48 <=? c) && (c <=? 57).

(* s.split(sep): always at least one chunk *)
Fixpoint split_on (sep : Z) (s : list Z) : list (list Z) :=
  match s with
  | [] => [[]]
  | c :: r =>
    if c =? sep then [] :: split_on sep r
    else match split_on sep r with
         | [] => [[c]]                      (* unreachable: split_on never returns [] *)
         | h :: t => (c :: h) :: t
         end
  end.

Fixpoint lstrip (s : list Z) : list Z :=
  match s with
  | c :: r => if is_space c then lstrip r else s
  | [] => []
  end.
Definition strip (s : list Z) : list Z := rev (lstrip (rev (lstrip s))).

(* int(part) for a string of ASCII digits *)
Definition dec_value (s : list Z) : Z := from_digits 10 (map (fun c => c - 48) s).

Definition s_pid : list Z := [112; 105; 100].
Definition s_index : list Z := [105; 110; 100; 101; 120].
Definition s_context : list Z := [99; 111; 110; 116; 101; 120; 116].

Definition classify (chunk : list Z) : part :=
  let p := map lower_char (strip chunk) in
  if list_eqb Z.eqb p s_pid then PPid
  else if negb (match p with [] => true | _ => false end) && forallb is_digit p then PNum (dec_value p)
  else if list_eqb Z.eqb p s_index then PIndex
  else if list_eqb Z.eqb p s_context then PContext
  else PBad.

Definition parse_template (s : list Z) : result (list part) :=
  if forallb (fun c => (0 <=? c) && (c <? 128)) s then Ok (map classify (split_on 44 s))
  else Err Unsupported.

(* the canonical spelling of a template: "pid" / "context" / "index" / decimal digits, joined by "," *)
Definition print_part (p : part) : list Z :=
  match p with
  | PPid => s_pid
  | PContext => s_context
  | PIndex => s_index
  | PNum n => map (fun d => d + 48) (to_digits 10 n)
  | PBad => [63]                             (* "?" *)
  end.
Fixpoint print_template (tpl : list part) : list Z :=
  match tpl with
  | [] => []
  | [p] => print_part p
  | p :: r => print_part p ++ 44 :: print_template r
  end.

(* defaults chosen by UniqueId.Functions.NumericIdGenerator / AlphaCodeGenerator *)
Definition default_numeric_tpl (big : bool) : list part :=
  if big then [PPid; PContext; PIndex] else [PContext; PIndex].
(* the small-id default of AlphaCodeGenerator is `index` alone (no context): known finding K5 *)
Definition default_alpha_tpl (big : bool) : list part :=
  if big then [PPid; PContext; PIndex] else [PIndex].
Definition factory_tpl (dflt : list part) (user : option (list part)) : list part :=
  match user with Some t => t | None => dflt end.

(* string.digits + string.ascii_uppercase *)
Definition default_alphabet : list Z := Zseq 48 10 ++ Zseq 65 26.

(* str.rjust(width, c) *)
Definition rjust (width : Z) (c : Z) (s : list Z) : list Z :=
  repeat c (Z.to_nat (width - Z.of_nat (length s))) ++ s.

Fixpoint map_res {A B} (f : A -> result B) (l : list A) : result (list B) :=
  match l with
  | [] => Ok []
  | x :: r => do y <- f x; do ys <- map_res f r; Ok (y :: ys)
  end.

Definition char_at (alphabet : list Z) (d : Z) : result Z :=
  match nth_error alphabet (Z.to_nat d) with
  | Some c => Ok c
  | None => Err (Internal "IndexError")
  end.

(* BaseConverter(alphabet).encode(n) for n >= 0 (negative numbers never reach it; the model
   refuses them instead of guessing) *)
Definition base_encode (alphabet : list Z) (n : Z) : result (list Z) :=
  if n <? 0 then Err Unsupported
  else map_res (char_at alphabet) (to_digits (Z.of_nat (length alphabet)) n).

(* self.alpha_encoder(n).rjust(self.min_chars, self.alphabet[0]) *)
Definition alpha_string (abc : list Z) (width n : Z) : result (list Z) :=
  do code <- base_encode abc n;
  match abc with
  | [] => Err (Internal "IndexError")
  | c0 :: _ => Ok (rjust width c0 code)
  end.

(* AlphaUniquifier after __init__ *)
Record alpha := mkAlpha {
  al_alphabet : list Z;
  al_min_chars : Z;
  al_randomize : bool
}.

(* AlphaUniquifier.__init__: the inner number generator is built first (DataGenValueError for a
   bad template), then BaseConverter (ValueError: sign character "-" in the digits, or fewer
   than two digits).  `alphabet or default`: None and "" both select the default. *)
Definition alpha_new (tpl : list part) (alphabet : option (list Z)) (min_chars : Z)
           (randomize_codes : bool) : result alpha :=
  do _ <- gen_new_ok tpl;
  let abc := match alphabet with
             | None => default_alphabet
             | Some [] => default_alphabet
             | Some a => a
             end in
  if existsb (Z.eqb 45) abc then value_error
  else if Z.of_nat (length abc) <=? 1 then value_error
  else Ok (mkAlpha abc (if randomize_codes then Z.max min_chars 4 else min_chars) randomize_codes).

Section Keyed.
  Variable mask : Z -> Z -> Z.
  Variable nbits : Z -> Z.
  Variable bpc : Z -> Z.

  (* scramble_number(number, minbits) *)
  Definition scramble (number minbits : Z) : result Z :=
    if minbits <? 10 then assertion
    else
      let mb := Z.max 10 (minbits - 13) in
      let key := number mod 10 in
      let num := number / 10 in
      if num <? 0 then value_error                       (* math.log of a negative number *)
      else
        let nb := Z.max mb (if num =? 0 then mb else nbits num) in
        if negb (nb <? 1000) then assertion
        else Ok (Z.lxor num (mask key nb) * 10000 + key * 1000 + nb).

  (* unscramble_number(number) *)
  Definition unscramble (number : Z) : result Z :=
    let nb := number mod 1000 in
    let n1 := number - nb in
    let key := (n1 mod 10000) / 1000 in
    let n2 := n1 - key * 1000 in
    if negb (n2 mod 10000 =? 0) then assertion
    else Ok (Z.lxor (n2 / 10000) (mask key nb) * 10 + key).

  (* UniqueNumericIdGenerator.unique_id with next(self.counter) = idx *)
  Definition num_value (tpl : list part) (pid : list Z) (ctx idx : Z) (randomize : bool)
    : result Z :=
    do v <- plain_value tpl pid ctx idx;
    if randomize then scramble v 10 else Ok v.

  (* AlphaUniquifier.unique_id; the inner generator has randomize=False *)
  Definition alpha_value (a : alpha) (tpl : list part) (pid : list Z) (ctx idx : Z)
    : result (list Z) :=
    do v <- plain_value tpl pid ctx idx;
    do n <- (if al_randomize a
             then scramble v (al_min_chars a * bpc (Z.of_nat (length (al_alphabet a))))
             else Ok v);
    alpha_string (al_alphabet a) (al_min_chars a) n.
End Keyed.

(* ---------------------------------------------------------------- one process, any number of runs *)

(* What persists in a Python process across generate_data runs (fresh runs and continuation runs alike)
   is the class attribute UniqueNumericIdGenerator.context_uniqifier = count(1) and the mask function.
   Every generator object — made by unique_id / unique_alpha_code / UniqueId.* in any run, re-created
   from a continuation file (PluginResult._from_continuation builds a NEW object from the saved state, new context
   number, index restarting at `start`), or the inner number generator of an AlphaUniquifier — takes
   `next(context_uniqifier)` as the first statement of its constructor (also when the constructor then
   raises), and owns `count(start)`; every draw takes `next(self.counter)` first (also when the draw
   then raises).  A run boundary (interpreter exit, plugin close) changes nothing of this state. *)

Inductive gval := VNum (z : Z) | VCode (s : list Z).
Definition gval_eqb (a b : gval) : bool :=
  match a, b with
  | VNum x, VNum y => x =? y
  | VCode x, VCode y => list_eqb Z.eqb x y
  | _, _ => false
  end.

(* a constructed generator: parsed template, pid numbers, and what it does with the number *)
Inductive rspec :=
| RNum (tpl : list part) (pid : list Z) (randomize : bool)
| RAlpha (tpl : list part) (pid : list Z) (a : alpha).

Record lgen := mkLgen { lg_spec : rspec; lg_ctx : Z; lg_next : Z }.
Record pstate := mkPstate { ps_counter : Z; ps_gens : list lgen }.

Inductive pop :=
| ONew (r : result (rspec * Z))     (* a constructor call: Ok (spec, start) or the error it raised *)
| ODraw (g : nat) (n : nat)         (* n draws from the g-th successfully constructed generator *)
| OBurn (n : nat)                   (* n context numbers taken without leaving a generator that is drawn from *)
| OBoundary.                        (* end of a generate_data run / start of the next one *)

Fixpoint set_nth {A} (n : nat) (x : A) (l : list A) : list A :=
  match l, n with
  | [], _ => []
  | _ :: r, O => x :: r
  | y :: r, S k => y :: set_nth k x r
  end.

(* one step: new state and the (generator, context, index) keys of the values drawn in this step *)
Definition p_step (s : pstate) (o : pop) : pstate * list (rspec * Z * Z) :=
  match o with
  | ONew (Ok (r, start)) =>
    (mkPstate (ps_counter s + 1) (ps_gens s ++ [mkLgen r (ps_counter s) start]), [])
  | ONew (Err _) => (mkPstate (ps_counter s + 1) (ps_gens s), [])
  | ODraw g n =>
    match nth_error (ps_gens s) g with
    | Some lg =>
      (mkPstate (ps_counter s)
                (set_nth g (mkLgen (lg_spec lg) (lg_ctx lg) (lg_next lg + Z.of_nat n)) (ps_gens s)),
       map (fun i => (lg_spec lg, lg_ctx lg, i)) (Zseq (lg_next lg) n))
    | None => (s, [])
    end
  | OBurn n => (mkPstate (ps_counter s + Z.of_nat n) (ps_gens s), [])
  | OBoundary => (s, [])
  end.

Fixpoint p_run (s : pstate) (ops : list pop) : pstate * list (rspec * Z * Z) :=
  match ops with
  | [] => (s, [])
  | o :: r => let '(s1, ks) := p_step s o in
              let '(s2, ks') := p_run s1 r in (s2, ks ++ ks')
  end.

(* a process starts with no generators; the counter starts at 1 in the code, any c0 here *)
Definition p_init (c0 : Z) : pstate := mkPstate c0 [].
Definition process_keys (c0 : Z) (ops : list pop) : list (rspec * Z * Z) := snd (p_run (p_init c0) ops).

Section Machine.
  Variable mask : Z -> Z -> Z.
  Variable nbits : Z -> Z.
  Variable bpc : Z -> Z.

  (* the value a generator with spec r, context c produces for index i *)
  Definition rvalue (r : rspec) (c i : Z) : result gval :=
    match r with
    | RNum tpl pid rand => do v <- num_value mask nbits tpl pid c i rand; Ok (VNum v)
    | RAlpha tpl pid a => do s <- alpha_value mask nbits bpc a tpl pid c i; Ok (VCode s)
    end.

  Definition key_value (k : rspec * Z * Z) : result gval :=
    let '(r, c, i) := k in rvalue r c i.

  (* every value drawn in the process, in order *)
  Definition process_values (c0 : Z) (ops : list pop) : list (result gval) :=
    map key_value (process_keys c0 ops).
End Machine.

(* two generators whose values the property compares: same template, same number of pid chunks, and
   either both numeric with the same randomize flag or both alphabetic over the same alphabet with the
   same randomize_codes flag *)
Definition comparable (r r' : rspec) : Prop :=
  match r, r' with
  | RNum tpl pid rand, RNum tpl' pid' rand' => tpl = tpl' /\ length pid = length pid' /\ rand = rand'
  | RAlpha tpl pid a, RAlpha tpl' pid' a' =>
    tpl = tpl' /\ length pid = length pid' /\ al_alphabet a = al_alphabet a' /\
    al_randomize a = al_randomize a' /\ NoDup (al_alphabet a) /\ (2 <= length (al_alphabet a))%nat
  | _, _ => False
  end.
Definition spec_tpl (r : rspec) : list part :=
  match r with RNum tpl _ _ => tpl | RAlpha tpl _ _ => tpl end.

(* the counter of the inner generator of an AlphaUniquifier starts at 1001 *)
Definition alpha_start : Z := 1001.

(* constructor arguments as the implementation received them *)
Inductive pspec :=
| SNum (src : list Z) (pid : list Z) (start : Z) (randomize : bool)
| SAlpha (src : list Z) (pid : list Z) (alphabet : option (list Z)) (min_chars : Z) (rc : bool).

Definition resolve (sp : pspec) : result (rspec * Z) :=
  match sp with
  | SNum src pid start rand =>
    do tpl <- parse_template src; do _ <- gen_new_ok tpl; Ok (RNum tpl pid rand, start)
  | SAlpha src pid abc mc rc =>
    do tpl <- parse_template src; do a <- alpha_new tpl abc mc rc; Ok (RAlpha tpl pid a, alpha_start)
  end.

(* ---------------------------------------------------------------- one generator, several names *)

(* A recipe gets at a generator through NAMES: the nickname of the row that holds it in a (hidden) field, the
   table name of that row, a `reference:` field of another row, a `var:` holding a reference ...  The store maps
   names to generator numbers of the process machine (positions in ps_gens).  What a continuation does
   (ObjectRow / PluginResult state written to the continuation file with one YAML anchor per Python object and
   aliases for the further occurrences, read back by PluginResult._from_continuation) is [n_continue]: every
   generator that some name denotes is built anew ONCE — a new constructor call with the saved arguments, hence a
   new context number and the index restarting at `start` — and every name that denoted the old generator
   denotes the new one. *)
Definition nstore := list (nat * nat).

Fixpoint st_lookup (st : nstore) (nm : nat) : option nat :=
  match st with
  | [] => None
  | e :: r => if Nat.eqb (fst e) nm then Some (snd e) else st_lookup r nm
  end.
Definition st_forget (st : nstore) (nm : nat) : nstore :=
  filter (fun e => negb (Nat.eqb (fst e) nm)) st.
Definition st_bind (st : nstore) (nm g : nat) : nstore := (nm, g) :: st_forget st nm.

Fixpoint gen_position (x : nat) (l : list nat) : nat :=
  match l with
  | [] => O
  | y :: r => if Nat.eqb y x then O else S (gen_position x r)
  end.

(* ns_made: the constructor arguments (resolved spec, start) of every generator of the machine, by number *)
Record nstate := mkNstate { ns_store : nstore; ns_made : list (rspec * Z) }.
Definition n_init : nstate := mkNstate [] [].

Inductive nop :=
| NNew (nm : nat) (sp : pspec)     (* a constructor call; the name denotes the new generator *)
| NAlias (nm' nm : nat)            (* nm' denotes what nm denotes *)
| NDraw (nm : nat)                 (* one draw through a name *)
| NForget (nm : nat)               (* the name goes out of scope (rows and variables that are not saved) *)
| NContinue                        (* the run ends, the next run continues it from the continuation file *)
| NFresh.                          (* the run ends, the next run starts from nothing *)

Definition reachable (st : nstore) : list nat := nodup Nat.eq_dec (map snd st).

Definition n_continue (st : nstate) : nstate * list pop :=
  let gs := reachable (ns_store st) in
  let base := length (ns_made st) in
  let args := map (fun g => nth g (ns_made st) (RNum [] [] false, 0)) gs in
  (mkNstate (map (fun e => (fst e, (base + gen_position (snd e) gs)%nat)) (ns_store st)) (ns_made st ++ args),
   OBoundary :: map (fun a => ONew (Ok a)) args).

Definition n_step (st : nstate) (o : nop) : nstate * list pop :=
  match o with
  | NNew nm sp =>
    match resolve sp with
    | Ok a => (mkNstate (st_bind (ns_store st) nm (length (ns_made st))) (ns_made st ++ [a]), [ONew (Ok a)])
    | Err e => (mkNstate (st_forget (ns_store st) nm) (ns_made st), [ONew (Err e)])
    end
  | NAlias nm' nm =>
    match st_lookup (ns_store st) nm with
    | Some g => (mkNstate (st_bind (ns_store st) nm' g) (ns_made st), [])
    | None => (mkNstate (st_forget (ns_store st) nm') (ns_made st), [])
    end
  | NDraw nm =>
    match st_lookup (ns_store st) nm with
    | Some g => (st, [ODraw g 1])
    | None => (st, [])
    end
  | NForget nm => (mkNstate (st_forget (ns_store st) nm) (ns_made st), [])
  | NContinue => n_continue st
  | NFresh => (mkNstate [] (ns_made st), [OBoundary])
  end.

Fixpoint n_run (st : nstate) (prog : list nop) : list pop :=
  match prog with
  | [] => []
  | o :: r => let '(st1, ops) := n_step st o in ops ++ n_run st1 r
  end.

(* the (generator, context, index) keys of all draws of a program over names *)
Definition names_keys (c0 : Z) (prog : list nop) : list (rspec * Z * Z) :=
  process_keys c0 (n_run n_init prog).

(* ---------------------------------------------------------------- correspondence cases *)

(* one call of scramble_number with the observed values of int(log)+1 and of the mask *)
Inductive sitem := SItem (number minbits nb mask : Z) (expected : result Z).
Inductive uitem := UItem (number mask : Z) (expected : result Z).
(* k-th draw (0-based) of a generator, with the observations made during that draw *)
Inductive draw := Draw (k nb mask : Z) (expected : result Z).
Inductive adraw := ADraw (k nb mask : Z) (expected : result (list Z)).

Inductive gcase :=
| GNum (tpl : list part) (pid : list Z) (ctx start : Z) (randomize : bool) (draws : list draw)
| GNumErr (tpl : list part) (e : err)
| GAlpha (tpl : list part) (pid : list Z) (ctx : Z) (alphabet : option (list Z)) (min_chars : Z)
         (randomize_codes : bool) (bpc_obs : Z) (draws : list adraw)
| GAlphaErr (tpl : list part) (alphabet : option (list Z)) (min_chars : Z)
            (randomize_codes : bool) (e : err)
(* generators made by UniqueId.Functions.NumericIdGenerator / AlphaCodeGenerator (recipes):
   user = the template argument, None when absent *)
| GFacNum (big : bool) (user : option (list part)) (pid : list Z) (ctx : Z) (draws : list draw)
| GFacAlpha (big : bool) (user : option (list part)) (pid : list Z) (ctx : Z)
            (alphabet : option (list Z)) (min_chars : Z) (randomize_codes : bool) (bpc_obs : Z)
            (draws : list adraw)
(* the template as the string the implementation received: the model parses it (parse_template) and
   hands the parts to the continuation *)
| GParsed (src : list Z) (k : list part -> gcase).

(* One observed process: the trace of constructor calls and draws over all its runs.
   ENew: arguments of a constructor call that succeeded, with the context number the new generator shows
   (Some c: it must not lie below the counter — every context number handed out before is smaller —
   and the numbers in between count as burnt; None: not observable, the model's own next number is
   used);  ENewErr: arguments and error of a constructor call that failed (burns = true: not observable
   mode, the failed call is taken to have used up one number as in the code);  EDraw: one draw of the
   g-th generator with the int(log)+1 value observed during that draw and the value / error it gave;
   ESkip: n draws whose values are not compared (they still advance the index);  EBoundary: a run ended. *)
Inductive pevent :=
| ENew (sp : pspec) (ctx : option Z)
| ENewErr (sp : pspec) (e : err) (burns : bool)
| EDraw (g : nat) (nb : Z) (expected : result gval)
| ESkip (g : nat) (n : nat)
| EBoundary.

Inductive case :=
| CScramble (items : list sitem)
| CUnscramble (items : list uitem)
| CBase (alphabet : list Z) (items : list (Z * result (list Z)))
| CGens (gens : list gcase)
(* c0 = value of the process-wide counter before the first constructor call;  masks = the observed
   mask_for_key table of the WHOLE process (key, numbits, first mask seen): one function for all runs;
   bpcs = observed int(log(size, 2)) per alphabet size *)
| CProc (c0 : Z) (masks : list (Z * Z * Z)) (bpcs : list (Z * Z)) (events : list pevent)
(* a program over names (runs of one recipe chained by continuations) with the index every draw used,
   read back from the id / code that reached the output *)
| CNames (prog : list nop) (indexes : list Z).

Definition tab_mask (t : list (Z * Z * Z)) (key nb : Z) : Z :=
  match find (fun e => (fst (fst e) =? key) && (snd (fst e) =? nb)) t with
  | Some e => snd e
  | None => 0
  end.
Definition tab_bpc (t : list (Z * Z)) (size : Z) : Z :=
  match find (fun e => fst e =? size) t with
  | Some e => snd e
  | None => 0
  end.

Definition gres_eqb := result_eqb gval_eqb.

(* replay the trace on the machine p_step; every compared draw must give the observed value *)
Fixpoint check_events (mask : Z -> Z -> Z) (bpc : Z -> Z) (s : pstate) (evs : list pevent) : bool :=
  match evs with
  | [] => true
  | ENew sp ctx :: r =>
    let res := resolve sp in
    match res with
    | Ok _ =>
      match ctx with
      | None => check_events mask bpc (fst (p_step s (ONew res))) r
      | Some c =>
        (ps_counter s <=? c) &&
        check_events mask bpc (fst (p_step (fst (p_step s (OBurn (Z.to_nat (c - ps_counter s))))) (ONew res))) r
      end
    | Err _ => false
    end
  | ENewErr sp e burns :: r =>
    match resolve sp with
    | Err e' => err_eqb e' e && check_events mask bpc (if burns then fst (p_step s (ONew (Err e'))) else s) r
    | Ok _ => false
    end
  | EDraw g nb expected :: r =>
    match p_step s (ODraw g 1) with
    | (s1, [k]) => gres_eqb (key_value mask (fun _ => nb) bpc k) expected && check_events mask bpc s1 r
    | _ => false
    end
  | ESkip g n :: r =>
    match nth_error (ps_gens s) g with
    | Some _ => check_events mask bpc (fst (p_step s (ODraw g n))) r
    | None => false
    end
  | EBoundary :: r => check_events mask bpc (fst (p_step s OBoundary)) r
  end.

Definition zres_eqb := result_eqb Z.eqb.
Definition lres_eqb := result_eqb (list_eqb Z.eqb).

Definition check_draw tpl pid ctx start randomize (d : draw) : bool :=
  match d with
  | Draw k nb m e =>
    zres_eqb (num_value (fun _ _ => m) (fun _ => nb) tpl pid ctx (start + k) randomize) e
  end.

Definition check_adraw a tpl pid ctx bpc_obs (d : adraw) : bool :=
  match d with
  | ADraw k nb m e =>
    lres_eqb (alpha_value (fun _ _ => m) (fun _ => nb) (fun _ => bpc_obs) a tpl pid ctx
                          (alpha_start + k)) e
  end.

Definition check_num tpl pid ctx start randomize draws : bool :=
  match gen_new_ok tpl with
  | Ok _ => forallb (check_draw tpl pid ctx start randomize) draws
  | Err _ => false
  end.

Definition check_alpha tpl pid ctx alphabet min_chars rc bpc_obs draws : bool :=
  match alpha_new tpl alphabet min_chars rc with
  | Ok a => forallb (check_adraw a tpl pid ctx bpc_obs) draws
  | Err _ => false
  end.

Fixpoint check_gcase (g : gcase) : bool :=
  match g with
  | GNum tpl pid ctx start randomize draws => check_num tpl pid ctx start randomize draws
  | GNumErr tpl e => result_eqb (fun _ _ => true) (gen_new_ok tpl) (Err e)
  | GAlpha tpl pid ctx alphabet min_chars rc bpc_obs draws =>
    check_alpha tpl pid ctx alphabet min_chars rc bpc_obs draws
  | GAlphaErr tpl alphabet min_chars rc e =>
    result_eqb (fun _ _ => true) (alpha_new tpl alphabet min_chars rc) (Err e)
  | GFacNum big user pid ctx draws =>
    check_num (factory_tpl (default_numeric_tpl big) user) pid ctx 1 true draws
  | GFacAlpha big user pid ctx alphabet min_chars rc bpc_obs draws =>
    check_alpha (factory_tpl (default_alpha_tpl big) user) pid ctx alphabet min_chars rc
                bpc_obs draws
  | GParsed src k =>
    match parse_template src with
    | Ok tpl => check_gcase (k tpl)
    | Err _ => false
    end
  end.

Definition check_case (c : case) : bool :=
  match c with
  | CScramble items =>
    forallb (fun it => match it with
                       | SItem n mb nb m e => zres_eqb (scramble (fun _ _ => m) (fun _ => nb) n mb) e
                       end) items
  | CUnscramble items =>
    forallb (fun it => match it with
                       | UItem n m e => zres_eqb (unscramble (fun _ _ => m) n) e
                       end) items
  | CBase alphabet items =>
    forallb (fun it => lres_eqb (base_encode alphabet (fst it)) (snd it)) items
  | CGens gens => forallb check_gcase gens
  | CProc c0 masks bpcs events => check_events (tab_mask masks) (tab_bpc bpcs) (p_init c0) events
  | CNames prog indexes => list_eqb Z.eqb (map (fun k : rspec * Z * Z => snd k) (names_keys 1 prog)) indexes
  end.

(* ---------------------------------------------------------------- process-level view *)

(* A default numeric generator living in one process (made by `unique_id`,
   `UniqueId.unique_id` or `UniqueId.NumericIdGenerator` without a template): its id mode, pid,
   context number, first index and the number of values drawn from it so far. *)
Record dgen := mkDgen { d_big : bool; d_pid : list Z; d_ctx : Z; d_start : Z; d_n : nat }.

Definition dgen_draws (mask : Z -> Z -> Z) (nbits : Z -> Z) (g : dgen) : list (result Z) :=
  map (fun i => num_value mask nbits (default_numeric_tpl (d_big g)) (d_pid g) (d_ctx g) i true)
      (Zseq (d_start g) (d_n g)).

(* every value drawn in the process, generator by generator (the order is irrelevant for
   pairwise distinctness) *)
Definition process_draws (mask : Z -> Z -> Z) (nbits : Z -> Z) (gens : list dgen)
  : list (result Z) := flat_map (dgen_draws mask nbits) gens.

(* A default alpha generator of one process (made by `unique_alpha_code` or by
   `UniqueId.AlphaCodeGenerator` without a template): id mode, pid, context number, min_chars
   and the number of codes drawn so far (its counter starts at alpha_start).  The distinctness
   theorem about these (C13_pipeline_alpha_process_big_mode) needs ag_big = true: see K5. *)
Record agen := mkAgen { ag_big : bool; ag_pid : list Z; ag_ctx : Z; ag_min_chars : Z; ag_n : nat }.

Definition agen_draws (mask : Z -> Z -> Z) (nbits bpc : Z -> Z) (abc : list Z) (rc : bool) (g : agen)
  : list (result (list Z)) :=
  map (fun i => alpha_value mask nbits bpc (mkAlpha abc (ag_min_chars g) rc)
                            (default_alpha_tpl (ag_big g)) (ag_pid g) (ag_ctx g) i)
      (Zseq alpha_start (ag_n g)).

(* every code drawn in the process from default alpha generators over one alphabet with one
   randomize_codes flag (min_chars may differ from generator to generator) *)
Definition aprocess_draws (mask : Z -> Z -> Z) (nbits bpc : Z -> Z) (abc : list Z) (rc : bool)
           (gens : list agen) : list (result (list Z)) :=
  flat_map (agen_draws mask nbits bpc abc rc) gens.
