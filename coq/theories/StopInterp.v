(* StopInterp.v — the stopping logic of Stopping.v (property C07) driving the SF-core interpreter
   of Interp.v: what `generate(..., stopping_criteria=...)` does with a real recipe.

   Stopping.v abstracts an iteration to the number of rows of the criterion table it creates.
   Here that abstraction is discharged: the loop below runs Interp.iteration and hands the
   *id counter* of the criterion table (IdManager.last_used_ids[T], exactly what
   api.py 78-117 reads) to Stopping.ensure_progress / Stopping.check_finished.  That the counter
   difference IS the number of rows created - forward references reserve ids before their rows
   exist - is theorem C01 (IdsP.ids_dense_run); proofs/StopInterpP.v combines the two.

   Transcribed: data_generator_runtime.py 437-446 loop_over_templates_until_finished,
   563-572 RuntimeContext.check_if_finished (check_slots_filled is the tail of
   Interp.iteration), 338-342 unknown stopping table, IdManager.__setstate__ start_ids.   *)
From SFV Require Import Base Interp.
From SFV Require Stopping.

(* parse_result.tables: the table of every template of the recipe, at any depth; hidden tables
   are left out (parse_recipe_yaml.py parse_recipe), so a hidden table is never accepted as a
   target: no row of it can reach an output *)
Definition tables_of (stmts : list stmt) : list string :=
  filter (fun t => negb (hidden t)) (map t_table (all_templates stmts)).

Definition crit_table (a : Stopping.app) : string := Stopping.c_table (Stopping.a_crit a).

(* loop_over_templates_until_finished: [j] iterations are complete, [mstart] is
   id_manager.start_ids.get(T) (None: fresh run, the key is absent). *)
Fixpoint run_until (fuel : nat) (e : env) (stmts : list stmt) (continuing : bool)
         (a : Stopping.app) (mstart : option Z) (s : st) (j : nat) : result (st * nat) :=
  match fuel with
  | O => Err OutOfFuel
  | S f =>
    do s1 <- iteration e stmts continuing s;
    let m1 := Stopping.mkIdm (last_id s1 (crit_table a)) mstart in
    match Stopping.ensure_progress a m1 with
    | Err x => Err x
    | Ok a1 =>
      let '(a2, fin) := Stopping.check_finished a1 m1 in
      if fin then Ok (s1, S j) else run_until f e stmts true a2 mstart s1 (S j)
    end
  end.

(* start_ids of a continued run: {name: val + 1}; a table absent from the file reads 1 = 0 + 1 *)
Definition mstart_of (continued : bool) (s0 : st) (T : string) : option Z :=
  if continued then Some (last_id s0 T + 1) else None.

(* one call of generate() with a stopping criterion, fresh or from a continuation *)
Definition run_target (r : recipe) (sc : option Stopping.criteria) (fuel : nat) (c : option cont)
  : result (st * nat) :=
  let a := Stopping.new_app sc in
  match Stopping.interp_init a (tables_of (r_stmts r)) with
  | Err x => Err x
  | Ok _ =>
    match c with
    | None =>
      run_until fuel (env_of r) (r_stmts r) false a None (init_st (env_of r) (r_draws r)) 0
    | Some c0 =>
      do s0 <- load (env_of r) c0;
      run_until fuel (env_of r) (r_stmts r) true a (mstart_of true s0 (crit_table a)) s0 0
    end
  end.

(* a session: runs of [pre] repetitions each, chained by continuation files, then one run with
   the criterion [sc]; the rows of the last run *)
Fixpoint session (r : recipe) (pre : list nat) (sc : option Stopping.criteria) (fuel : nat)
         (c : option cont) : result (list orow * nat) :=
  match pre with
  | [] => do '(s, j) <- run_target r sc fuel c; Ok (rows_of s, j)
  | k :: rest =>
    do s <- run_one r k c;
    do c1 <- save s;
    session r rest sc fuel (Some c1)
  end.

(* -------- correspondence cases (harness/c07.py, stream "interp") -------- *)

Inductive tcase :=
| CTarget (p : proj) (r : recipe) (pre : list nat) (sc : option Stopping.criteria) (fuel : nat)
          (expected : result (list orow)).

Definition session_rows (r : recipe) pre sc fuel : result (list orow) :=
  map_result fst (session r pre sc fuel None).

Definition check_tcase (c : tcase) : bool :=
  match c with
  | CTarget p r pre sc fuel expected =>
    let m := session_rows r pre sc fuel in
    is_unsupported m ||
    result_eqb (list_eqb orow_eqb) (map_result (map (project_row p)) m)
               (map_result (map (project_row p)) expected)
  end.

Definition tcase_unsupported (c : tcase) : bool :=
  match c with CTarget _ r pre sc fuel _ => is_unsupported (session_rows r pre sc fuel) end.

(* C07's cases: the abstract ones of Stopping.v and the interpreter-level ones *)
Inductive case7 :=
| CAbs (c : Stopping.case)
| CInt (c : tcase).

Definition check_case7 (c : case7) : bool :=
  match c with CAbs x => Stopping.check_case x | CInt x => check_tcase x end.

Definition case7_unsupported (c : case7) : bool :=
  match c with CAbs _ => false | CInt x => tcase_unsupported x end.
