(* DepsCases.v — correspondence cases of property C16 at the interpreter level: the inter-table
   dependencies recorded by the SF-core interpreter (Interp.deps, the input of the mapping
   generator) against Globals.intertable_dependencies as written to the continuation file by the
   implementation, next to the cases of the mapping model (Mapping.v).                      *)
From SFV Require Import Base Interp.
From SFV Require Mapping.

(* the state after a chain of runs linked by continuation files *)
Fixpoint run_chain_state (r : recipe) (ks : list nat) (c : option cont) : result st :=
  match ks with
  | [] => Err (Internal "empty-history")
  | k :: rest =>
    do s <- run_one r k c;
    match rest with
    | [] => Ok s
    | _ => do c1 <- save s; run_chain_state r rest (Some c1)
    end
  end.

Definition triple_eqb (a b : string * string * string) : bool := dep_eqb a b.

Inductive dcase :=
| CDepsRun (r : recipe) (ks : list nat) (expected : result (list (string * string * string))).

Definition deps_of_chain (r : recipe) (ks : list nat) : result (list (string * string * string)) :=
  map_result deps (run_chain_state r ks None).

Definition check_dcase (c : dcase) : bool :=
  match c with
  | CDepsRun r ks expected =>
    let m := deps_of_chain r ks in
    is_unsupported m || result_eqb (list_eqb triple_eqb) m expected
  end.

Definition dcase_unsupported (c : dcase) : bool :=
  match c with CDepsRun r ks _ => is_unsupported (deps_of_chain r ks) end.

Inductive case16 :=
| CMap (c : Mapping.case)
| CInterpDeps (c : dcase).

Definition check_case16 (c : case16) : bool :=
  match c with CMap x => Mapping.check_case x | CInterpDeps x => check_dcase x end.

Definition case16_unsupported (c : case16) : bool :=
  match c with CMap _ => false | CInterpDeps x => dcase_unsupported x end.
