(* RowHistory.v — model of snowfakery/row_history.py (property C10):
   RowHistory.save_row / reset_locals / random_row_reference / find_row_id_for_nickname_id
   and RandomReferenceContext (plain and `unique`, the latter on top of the
   UpdatableRandomRange model of RandRange.v).                                            *)
From SFV Require Import Base RandRange.

Fixpoint lookupZ (k : string) (l : list (string * Z)) : option Z :=
  match l with
  | [] => None
  | (k', v) :: r => if String.eqb k k' then Some v else lookupZ k r
  end.

Fixpoint assignZ (k : string) (v : Z) (l : list (string * Z)) : list (string * Z) :=
  match l with
  | [] => [(k, v)]
  | (k', v') :: r => if String.eqb k k' then (k, v) :: r else (k', v') :: assignZ k v r
  end.

Fixpoint lookupS (k : string) (l : list (string * string)) : option string :=
  match l with
  | [] => None
  | (k', v) :: r => if String.eqb k k' then Some v else lookupS k r
  end.

(* one saved row: table, id, nickname, nickname_id *)
Record hrow := mkHrow { h_table : string; h_id : Z; h_nick : option string; h_nid : Z }.

Record rh := mkRh {
  tc : list (string * Z);        (* table_counters: id of the row saved last, per table      *)
  nc : list (string * Z);        (* nickname_counters                                        *)
  lc : list (string * Z);        (* local_counters = snapshot of table_counters at reset     *)
  lnc : list (string * Z);       (* local_nickname_counters = snapshot of nickname_counters  *)
  n2t : list (string * string);  (* nickname_to_tablename (nick <> table entries only)       *)
  hrows : list hrow              (* the history tables, in insertion order                   *)
}.

Definition get0 (k : string) (l : list (string * Z)) : Z :=
  match lookupZ k l with Some z => z | None => 0 end.

(* RowHistory(table_counters, tables, tablename_for_nickname) *)
Definition rh_init (counters : list (string * Z)) (names : list (string * string)) : rh :=
  mkRh counters [] counters []
       (filter (fun '(n, t) => negb (String.eqb n t)) names) [].

(* save_row(tablename, nickname, row) with row["id"] = id *)
Definition save_row (h : rh) (table : string) (nick : option string) (id : Z) : rh :=
  let tc1 := assignZ table id (tc h) in
  match nick with
  | Some n =>
    let nid := get0 n (nc h) + 1 in
    mkRh tc1 (assignZ n nid (nc h)) (lc h) (lnc h) (n2t h)
         (hrows h ++ [mkHrow table id (Some n) nid])
  | None => mkRh tc1 (nc h) (lc h) (lnc h) (n2t h) (hrows h ++ [mkHrow table id None 0])
  end.

Definition reset_locals (h : rh) : rh := mkRh (tc h) (nc h) (tc h) (nc h) (n2t h) (hrows h).

(* find_row_id_for_nickname_id: first row with that nickname and nickname_id; assert found *)
Fixpoint find_nick_row (rows : list hrow) (table nick : string) (nid : Z) : option Z :=
  match rows with
  | [] => None
  | r :: rest =>
    if String.eqb (h_table r) table &&
       (match h_nick r with Some n => String.eqb n nick | None => false end) && (h_nid r =? nid)
    then Some (h_id r) else find_nick_row rest table nick nid
  end.

(* the id interval random_row_reference asks the randomizer for; DGE when nothing exists *)
Definition ref_range (h : rh) (name : string) : result (option string * string * Z * Z) :=
  let '(nick, table, max_id) :=
    match lookupS name (n2t h) with
    | Some t => (Some name, t, Some (get0 name (nc h)))
    | None => (None, name, lookupZ name (tc h))
    end in
  match max_id with
  | None => Err (DGE "no-such-table")
  | Some m =>
    if m =? 0 then Err (DGE "no-such-table")
    else
      let min0 := match nick with
                  | Some n => get0 n (lnc h) + 1
                  | None => get0 table (lc h) + 1
                  end in
      let min_id := if m <? min0 then 1 else min0 in
      Ok (nick, table, min_id, m)
  end.

(* resolve the drawn number to a row id *)
Definition resolve_draw (h : rh) (nick : option string) (table : string) (d : Z) : result (string * Z) :=
  match nick with
  | Some n =>
    match find_nick_row (hrows h) table n d with
    | Some id => Ok (table, id)
    | None => Err (Internal "AssertionError")
    end
  | None => Ok (table, d)
  end.

(* random_row_reference with randomizer = randint: d is the oracle draw, must lie in range *)
Definition random_ref (h : rh) (name : string) (d : Z) : result (string * Z) :=
  do '(nick, table, lo, hi) <- ref_range h name;
  if (lo <=? d) && (d <=? hi) then resolve_draw h nick table d else Err BadOracle.

(* ---------------------------------------------------------------- unique *)

(* RandomReferenceContext(unique=True): self.rng is None until the first call *)
Definition uctx := option urr.

(* unique_random(a, b): b += 1; create or set_new_range; next(rng); StopIteration -> DGE *)
Definition unique_draw (u : uctx) (a b : Z) (oracle : list (Z * Z)) : result (Z * urr) :=
  do u1 <- match u with
           | None => urr_init a (b + 1) oracle
           | Some u0 => urr_set_new_range u0 a (b + 1)
           end;
  do '(v, u2) <- urr_next u1;
  match v with
  | Some x => Ok (x, u2)
  | None => Err (DGE "no-unused-target")
  end.

Definition unique_ref (h : rh) (u : uctx) (name : string) (oracle : list (Z * Z))
  : result (string * Z * urr) :=
  do '(nick, table, lo, hi) <- ref_range h name;
  do '(d, u1) <- unique_draw u lo hi oracle;
  do r <- resolve_draw h nick table d;
  Ok (r, u1).

(* ---------------------------------------------------------------- scripts (correspondence) *)

Inductive hop :=
| HSave (table : string) (nick : option string) (id : Z)
| HReset
| HRef (name : string) (d : Z)
| HURef (name : string).

(* the observable of one op: nothing, or the reference, or a DataGenError (recorded, the script
   goes on), as the harness drives the real object *)
Inductive hobs := ONone | ORefd (table : string) (id : Z) | OErr (e : err).

Definition hobs_eqb (a b : hobs) : bool :=
  match a, b with
  | ONone, ONone => true
  | ORefd t i, ORefd u j => String.eqb t u && (i =? j)
  | OErr e1, OErr e2 => err_eqb e1 e2
  | _, _ => false
  end.

(* the oracle for unique draws: pairs consumed by generators as they start *)
Fixpoint run_script (h : rh) (u : uctx) (oracle : list (Z * Z)) (ops : list hop) : list hobs :=
  match ops with
  | [] => []
  | HSave t n i :: r => ONone :: run_script (save_row h t n i) u oracle r
  | HReset :: r => ONone :: run_script (reset_locals h) u oracle r
  | HRef name d :: r =>
    (match random_ref h name d with Ok (t, i) => ORefd t i | Err e => OErr e end)
      :: run_script h u oracle r
  | HURef name :: r =>
    match unique_ref h u name oracle with
    | Ok (t, i, u1) => ORefd t i :: run_script h (Some u1) (u_oracle u1) r
    | Err e =>
      (* an error leaves the context as it was, except that a rejected set_new_range or an
         exhausted range has already updated the range object in the real code; the harness
         stops comparing a script after the first error of a unique reference *)
      [OErr e]
    end
  end.

Inductive case :=
| CScriptH (counters : list (string * Z)) (names : list (string * string)) (oracle : list (Z * Z))
           (ops : list hop) (expected : list hobs)
| CRangeH (counters : list (string * Z)) (names : list (string * string)) (ops : list hop)
          (name : string) (expected : result (Z * Z)).

Fixpoint apply_ops (h : rh) (ops : list hop) : rh :=
  match ops with
  | [] => h
  | HSave t n i :: r => apply_ops (save_row h t n i) r
  | HReset :: r => apply_ops (reset_locals h) r
  | _ :: r => apply_ops h r
  end.

Definition check_case (c : case) : bool :=
  match c with
  | CScriptH counters names oracle ops expected =>
    list_eqb hobs_eqb (run_script (rh_init counters names) None oracle ops) expected
  | CRangeH counters names ops name expected =>
    result_eqb (fun a b => (fst a =? fst b) && (snd a =? snd b))
      (match ref_range (apply_ops (rh_init counters names) ops) name with
       | Ok (_, _, lo, hi) => Ok (lo, hi) | Err e => Err e end)
      expected
  end.

(* ================================================================ several call sites (round 3)

   Interpreter.get_contextual_state keeps, per call site (the StructuredValue object that
   holds one `random_reference:` in the recipe), a pair [parent object, state]; the state of a
   unique random_reference is one RandomReferenceContext with its own UpdatableRandomRange.
   The definitions below put that table of call sites beside the row history, add the `scope`
   argument of random_row_reference, and thread ONE stream of random.Random._randbelow results
   through all consumers (randint of the plain references, the two draws of every generator
   that starts), as the real run does.                                                         *)

(* random_row_reference(name, scope, ...): glob = (scope == "prior-and-current-iterations") *)
Definition ref_range_sc (h : rh) (name : string) (glob : bool)
  : result (option string * string * Z * Z) :=
  let '(nick, table, max_id) :=
    match lookupS name (n2t h) with
    | Some t => (Some name, t, Some (get0 name (nc h)))
    | None => (None, name, lookupZ name (tc h))
    end in
  match max_id with
  | None => Err (DGE "no-such-table")
  | Some m =>
    if m =? 0 then Err (DGE "no-such-table")
    else
      let min0 := if glob then 1
                  else match nick with
                       | Some n => get0 n (lnc h) + 1
                       | None => get0 table (lc h) + 1
                       end in
      let min_id := if m <? min0 then 1 else min0 in
      Ok (nick, table, min_id, m)
  end.

Definition with_oracle (u : urr) (o : list (Z * Z)) : urr :=
  mkUrr (u_start u) (u_min u) (u_orig_max u) (u_cur_max u) (u_gen u) o.

(* the (value, offset) draws a generator would take if it started now *)
Fixpoint pair_up (l : list Z) : list (Z * Z) :=
  match l with
  | a :: b :: r => (a, b) :: pair_up r
  | _ => []
  end.

(* one entry of instance_states: the parent object (0 = None, else a token of the object's
   identity) and the state; s_old / s_cur are ghost fields: the numbers this site has drawn
   under this parent before / since its range last moved to a disjoint window *)
Record sitest := mkSite { s_parent : Z; s_ctx : uctx; s_old : list Z; s_cur : list Z }.
Definition sites := list (Z * sitest).

Fixpoint lookupN (k : Z) (l : sites) : option sitest :=
  match l with
  | [] => None
  | (k', v) :: r => if k =? k' then Some v else lookupN k r
  end.

Fixpoint assignN (k : Z) (v : sitest) (l : sites) : sites :=
  match l with
  | [] => [(k, v)]
  | (k', v') :: r => if k =? k' then (k, v) :: r else (k', v') :: assignN k v r
  end.

(* get_contextual_state: `if current_parent != parent_obj or value is None: value = make()` *)
Definition site_get (ss : sites) (s p : Z) : sitest :=
  match lookupN s ss with
  | Some st => if s_parent st =? p then st else mkSite p None [] []
  | None => mkSite p None [] []
  end.

Definition uref_moves (c : uctx) (lo : Z) : bool :=
  match c with Some u => negb (lo =? u_start u) | None => false end.

(* a plain reference: randint(lo, hi) = lo + _randbelow(hi - lo + 1) *)
Definition mstep_ref (h : rh) (name : string) (glob : bool) (orc : list Z)
  : result (string * Z) * list Z :=
  match ref_range_sc h name glob with
  | Err e => (Err e, orc)
  | Ok (nick, table, lo, hi) =>
    match orc with
    | [] => (Err BadOracle, [])
    | v :: rest =>
      if (0 <=? v) && (v <=? hi - lo) then (resolve_draw h nick table (lo + v), rest)
      else (Err BadOracle, rest)
    end
  end.

(* a unique reference evaluated at call site s while the parent object is p *)
Definition mstep_uref (h : rh) (ss : sites) (orc : list Z) (s p : Z) (name : string) (glob : bool)
  : result (string * Z * sites * list Z) :=
  let st := site_get ss s p in
  do '(nick, table, lo, hi) <- ref_range_sc h name glob;
  let po := pair_up orc in
  do '(d, u1) <- unique_draw (option_map (fun u => with_oracle u po) (s_ctx st)) lo hi po;
  do r <- resolve_draw h nick table d;
  let st' := if uref_moves (s_ctx st) lo
             then mkSite p (Some u1) (s_old st ++ s_cur st) [d]
             else mkSite p (Some u1) (s_old st) (s_cur st ++ [d]) in
  Ok (r, assignN s st' ss, skipn (2 * (length po - length (u_oracle u1))) orc).

Inductive mop :=
| MSave (table : string) (nick : option string) (id : Z)
| MReset
| MRef (name : string) (glob : bool)
| MURef (site parent : Z) (name : string) (glob : bool).

Record mstate := mkM { m_h : rh; m_sites : sites; m_orc : list Z }.

(* one operation: its observable and the next state (None: the run stops, as a recipe does at
   the first failing unique reference) *)
Definition mstep (m : mstate) (op : mop) : hobs * option mstate :=
  match op with
  | MSave t n i => (ONone, Some (mkM (save_row (m_h m) t n i) (m_sites m) (m_orc m)))
  | MReset => (ONone, Some (mkM (reset_locals (m_h m)) (m_sites m) (m_orc m)))
  | MRef name glob =>
    let '(res, orc') := mstep_ref (m_h m) name glob (m_orc m) in
    (match res with Ok (t, i) => ORefd t i | Err e => OErr e end,
     Some (mkM (m_h m) (m_sites m) orc'))
  | MURef s p name glob =>
    match mstep_uref (m_h m) (m_sites m) (m_orc m) s p name glob with
    | Ok (t, i, ss', orc') => (ORefd t i, Some (mkM (m_h m) ss' orc'))
    | Err e => (OErr e, None)
    end
  end.

Fixpoint mrun (m : mstate) (ops : list mop) : list hobs * mstate :=
  match ops with
  | [] => ([], m)
  | op :: r =>
    match mstep m op with
    | (o, Some m1) => let '(os, m2) := mrun m1 r in (o :: os, m2)
    | (o, None) => ([o], m)
    end
  end.

Definition is_oerr (o : hobs) : bool := match o with OErr _ => true | _ => false end.

(* a trace: [ops] with their observables, then — when the run ended in an error — the
   operations of the row that was being built: one of them must fail *)
Inductive mcase :=
| CMulti (counters : list (string * Z)) (names : list (string * string)) (orc : list Z)
         (ops : list mop) (expected : list hobs) (tail : list mop) (fails : bool).

Definition check_mcase (c : mcase) : bool :=
  match c with
  | CMulti counters names orc ops expected tail fails =>
    let '(obs, m1) := mrun (mkM (rh_init counters names) [] orc) ops in
    list_eqb hobs_eqb obs expected &&
    match tail with
    | [] => true
    | _ => Bool.eqb (existsb is_oerr (fst (mrun m1 tail))) fails
    end
  end.
