(* RowHistory.v — model of snowfakery/row_history.py (property C10):
   RowHistory.save_row / reset_locals / random_row_reference / find_row_id_for_nickname_id
   and RandomReferenceContext (plain and `unique`, the latter on top of the
   UpdatableRandomRange model of RandRange.v).                                            *)
From SFV Require Import Base RandRange.

Fixpoint lookupZ (k : string) (l : list (string * Z)) : option Z :=
  match l with
  | [] => None
  | (k', v) :: r => if String.eqb k k' then Some v else lookupZ k r
  end.

Fixpoint assignZ (k : string) (v : Z) (l : list (string * Z)) : list (string * Z) :=
  match l with
  | [] => [(k, v)]
  | (k', v') :: r => if String.eqb k k' then (k, v) :: r else (k', v') :: assignZ k v r
  end.

Fixpoint lookupS (k : string) (l : list (string * string)) : option string :=
  match l with
  | [] => None
  | (k', v) :: r => if String.eqb k k' then Some v else lookupS k r
  end.

(* one saved row: table, id, nickname, nickname_id *)
Record hrow := mkHrow { h_table : string; h_id : Z; h_nick : option string; h_nid : Z }.

Record rh := mkRh {
  tc : list (string * Z);        (* table_counters: id of the row saved last, per table      *)
  nc : list (string * Z);        (* nickname_counters                                        *)
  lc : list (string * Z);        (* local_counters = snapshot of table_counters at reset     *)
  lnc : list (string * Z);       (* local_nickname_counters = snapshot of nickname_counters  *)
  n2t : list (string * string);  (* nickname_to_tablename (nick <> table entries only)       *)
  hrows : list hrow              (* the history tables, in insertion order                   *)
}.

Definition get0 (k : string) (l : list (string * Z)) : Z :=
  match lookupZ k l with Some z => z | None => 0 end.

(* RowHistory(table_counters, tables, tablename_for_nickname) *)
Definition rh_init (counters : list (string * Z)) (names : list (string * string)) : rh :=
  mkRh counters [] counters []
       (filter (fun '(n, t) => negb (String.eqb n t)) names) [].

(* save_row(tablename, nickname, row) with row["id"] = id *)
Definition save_row (h : rh) (table : string) (nick : option string) (id : Z) : rh :=
  let tc1 := assignZ table id (tc h) in
  match nick with
  | Some n =>
    let nid := get0 n (nc h) + 1 in
    mkRh tc1 (assignZ n nid (nc h)) (lc h) (lnc h) (n2t h)
         (hrows h ++ [mkHrow table id (Some n) nid])
  | None => mkRh tc1 (nc h) (lc h) (lnc h) (n2t h) (hrows h ++ [mkHrow table id None 0])
  end.

Definition reset_locals (h : rh) : rh := mkRh (tc h) (nc h) (tc h) (nc h) (n2t h) (hrows h).

(* find_row_id_for_nickname_id: first row with that nickname and nickname_id; assert found *)
Fixpoint find_nick_row (rows : list hrow) (table nick : string) (nid : Z) : option Z :=
  match rows with
  | [] => None
  | r :: rest =>
    if String.eqb (h_table r) table &&
       (match h_nick r with Some n => String.eqb n nick | None => false end) && (h_nid r =? nid)
    then Some (h_id r) else find_nick_row rest table nick nid
  end.

(* the id interval random_row_reference asks the randomizer for; DGE when nothing exists *)
Definition ref_range (h : rh) (name : string) : result (option string * string * Z * Z) :=
  let '(nick, table, max_id) :=
    match lookupS name (n2t h) with
    | Some t => (Some name, t, Some (get0 name (nc h)))
    | None => (None, name, lookupZ name (tc h))
    end in
  match max_id with
  | None => Err (DGE "no-such-table")
  | Some m =>
    if m =? 0 then Err (DGE "no-such-table")
    else
      let min0 := match nick with
                  | Some n => get0 n (lnc h) + 1
                  | None => get0 table (lc h) + 1
                  end in
      let min_id := if m <? min0 then 1 else min0 in
      Ok (nick, table, min_id, m)
  end.

(* resolve the drawn number to a row id *)
Definition resolve_draw (h : rh) (nick : option string) (table : string) (d : Z) : result (string * Z) :=
  match nick with
  | Some n =>
    match find_nick_row (hrows h) table n d with
    | Some id => Ok (table, id)
    | None => Err (Internal "AssertionError")
    end
  | None => Ok (table, d)
  end.

(* random_row_reference with randomizer = randint: d is the oracle draw, must lie in range *)
Definition random_ref (h : rh) (name : string) (d : Z) : result (string * Z) :=
  do '(nick, table, lo, hi) <- ref_range h name;
  if (lo <=? d) && (d <=? hi) then resolve_draw h nick table d else Err BadOracle.

(* ---------------------------------------------------------------- unique *)

(* RandomReferenceContext(unique=True): self.rng is None until the first call *)
Definition uctx := option urr.

(* unique_random(a, b): b += 1; create or set_new_range; next(rng); StopIteration -> DGE *)
Definition unique_draw (u : uctx) (a b : Z) (oracle : list (Z * Z)) : result (Z * urr) :=
  do u1 <- match u with
           | None => urr_init a (b + 1) oracle
           | Some u0 => urr_set_new_range u0 a (b + 1)
           end;
  do '(v, u2) <- urr_next u1;
  match v with
  | Some x => Ok (x, u2)
  | None => Err (DGE "no-unused-target")
  end.

Definition unique_ref (h : rh) (u : uctx) (name : string) (oracle : list (Z * Z))
  : result (string * Z * urr) :=
  do '(nick, table, lo, hi) <- ref_range h name;
  do '(d, u1) <- unique_draw u lo hi oracle;
  do r <- resolve_draw h nick table d;
  Ok (r, u1).

(* ---------------------------------------------------------------- scripts (correspondence) *)

Inductive hop :=
| HSave (table : string) (nick : option string) (id : Z)
| HReset
| HRef (name : string) (d : Z)
| HURef (name : string).

(* the observable of one op: nothing, or the reference, or a DataGenError (recorded, the script
   goes on), as the harness drives the real object *)
Inductive hobs := ONone | ORefd (table : string) (id : Z) | OErr (e : err).

Definition hobs_eqb (a b : hobs) : bool :=
  match a, b with
  | ONone, ONone => true
  | ORefd t i, ORefd u j => String.eqb t u && (i =? j)
  | OErr e1, OErr e2 => err_eqb e1 e2
  | _, _ => false
  end.

(* the oracle for unique draws: pairs consumed by generators as they start *)
Fixpoint run_script (h : rh) (u : uctx) (oracle : list (Z * Z)) (ops : list hop) : list hobs :=
  match ops with
  | [] => []
  | HSave t n i :: r => ONone :: run_script (save_row h t n i) u oracle r
  | HReset :: r => ONone :: run_script (reset_locals h) u oracle r
  | HRef name d :: r =>
    (match random_ref h name d with Ok (t, i) => ORefd t i | Err e => OErr e end)
      :: run_script h u oracle r
  | HURef name :: r =>
    match unique_ref h u name oracle with
    | Ok (t, i, u1) => ORefd t i :: run_script h (Some u1) (u_oracle u1) r
    | Err e =>
      (* an error leaves the context as it was, except that a rejected set_new_range or an
         exhausted range has already updated the range object in the real code; the harness
         stops comparing a script after the first error of a unique reference *)
      [OErr e]
    end
  end.

Inductive case :=
| CScriptH (counters : list (string * Z)) (names : list (string * string)) (oracle : list (Z * Z))
           (ops : list hop) (expected : list hobs)
| CRangeH (counters : list (string * Z)) (names : list (string * string)) (ops : list hop)
          (name : string) (expected : result (Z * Z)).

Fixpoint apply_ops (h : rh) (ops : list hop) : rh :=
  match ops with
  | [] => h
  | HSave t n i :: r => apply_ops (save_row h t n i) r
  | HReset :: r => apply_ops (reset_locals h) r
  | _ :: r => apply_ops h r
  end.

Definition check_case (c : case) : bool :=
  match c with
  | CScriptH counters names oracle ops expected =>
    list_eqb hobs_eqb (run_script (rh_init counters names) None oracle ops) expected
  | CRangeH counters names ops name expected =>
    result_eqb (fun a b => (fst a =? fst b) && (snd a =? snd b))
      (match ref_range (apply_ops (rh_init counters names) ops) name with
       | Ok (_, _, lo, hi) => Ok (lo, hi) | Err e => Err e end)
      expected
  end.
