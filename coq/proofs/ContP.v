(* ContP.v — property C04 at the level of the SF-core interpreter: cutting a run into runs
   chained by continuation files does not change the output (for recipes without top-level
   variables whose just_once rows hold only scalars).

   Plan: (1) the evaluator never reads the output list, so a run started with a different
   output prefix computes the same thing ([run_app]); (2) the frame stack is restored by every
   top-level object statement ([run_frames]); (3) at an iteration boundary of such a recipe,
   `load (save s)` is `s` with the output emptied ([save_load_id]); hence a continued run is
   the uninterrupted run with its output prefix removed.                                   *)
From Coq Require Import ZArith List Lia Bool Permutation ZifyBool.
From SFV Require Import Base RandRange RowHistory Interp.
From SFV.P Require Import BaseP InterpP InterpHeapP QuietP IdsP RefsP OnceP.
Import ListNotations. Open Scope Z_scope.

(* ------------------------------------------------------------------ frames are not touched by
   expressions (mechanical frame-analogue of the same_out lemmas of InterpP.v) *)

(* [same_frames s s'] : the frame stack is untouched *)
Definition same_frames (s s' : st) : Prop := frames s' = frames s.

Lemma touch_slot_frames s n s' i : touch_slot s n = Ok (s', i) -> same_frames s s'.
Proof.
  unfold touch_slot, same_frames. destruct (lookup n (slots s)) as [sl|]; [|discriminate].
  destruct (s_alloc sl); intros H; injection H as <- _; reflexivity.
Qed.

Lemma eval_expr_frames e x : forall s s' v, eval_expr e x s = Ok (s', v) -> same_frames s s'.
Proof.
  unfold same_frames.
  induction x as [z|n|a IHa f|a IHa b IHb|a IHa b IHb|a IHa b IHb]; intros s s' v H; cbn [eval_expr] in H.
  - injection H as <- _. reflexivity.
  - dbind H as o. destruct o; injection H as <- _; reflexivity.
  - dbind H as [s1 v1]. apply IHa in E.
    destruct v1; try discriminate;
      try (destruct (py_own_attr f); [discriminate|]);
      try (injection H as <- _; exact E);
      try (dbind H as w0; injection H as <- _; exact E).
    + destruct (nth_error (heap s1) h); [|discriminate].
      destruct (row_attr c f); injection H as <- _; exact E.
    + destruct (String.eqb f "id"); [|discriminate]. dbind H as [s2 i].
      injection H as <- _. apply touch_slot_frames in E0. unfold same_frames in E0. congruence.
  - dbind H as [s1 v1]. dbind H as [s2 v2].
    apply IHa in E. apply IHb in E0.
    destruct v1, v2; try discriminate; injection H as <- _; congruence.
  - dbind H as [s1 v1]. dbind H as [s2 v2].
    apply IHa in E. apply IHb in E0.
    destruct v1, v2; try discriminate; injection H as <- _; congruence.
  - dbind H as [s1 v1]. dbind H as [s2 v2].
    apply IHa in E. apply IHb in E0.
    destruct v1, v2; try discriminate; injection H as <- _; congruence.
Qed.

Lemma render_pieces_frames e ps : forall s s' t, render_pieces e ps s = Ok (s', t) -> same_frames s s'.
Proof.
  unfold same_frames. induction ps as [|p ps IH]; intros s s' t H; cbn [render_pieces] in H.
  - injection H as <- _. reflexivity.
  - destruct p as [tx|x].
    + dbind H as [s1 rest]. injection H as <- _. eauto.
    + dbind H as [s1 v]. dbind H as w0. dbind H as [s2 rest].
      injection H as <- _. apply eval_expr_frames in E. apply IH in E1. unfold same_frames in E. congruence.
Qed.

Lemma render_formula_frames e ps s s' v : render_formula e ps s = Ok (s', v) -> same_frames s s'.
Proof.
  unfold render_formula, same_frames. intros H.
  destruct (version e =? 3).
  - destruct ps as [|[tx|x] [|p2 r]];
      try (dbind H as [s1 t]; dbind H as w0; injection H as <- _;
           apply render_pieces_frames in E; exact E).
    dbind H as [s1 w]. apply eval_expr_frames in E.
    destruct w; try discriminate; try (injection H as <- _; exact E).
    dbind H as w0. injection H as <- _. exact E.
  - dbind H as [s1 t]. dbind H as w0. injection H as <- _.
    apply render_pieces_frames in E. exact E.
Qed.

Lemma follow_path_frames parts : forall s v s' w, follow_path s v parts = Ok (s', w) -> same_frames s s'.
Proof.
  unfold same_frames. induction parts as [|p r IH]; intros s v s' w H; cbn [follow_path] in H.
  - injection H as <- _. reflexivity.
  - dbind H as [s1 w1]. apply IH in H. rewrite H.
    unfold getattr_path in E. destruct v; try discriminate.
    + destruct (nth_error (heap s) h); [|discriminate].
      destruct (row_attr c p); [|discriminate]. injection E as <- _. reflexivity.
    + destruct (String.eqb p "id"); [|discriminate]. dbind E as [s2 i].
      injection E as <- _. apply touch_slot_frames in E0. exact E0.
    + dbind E as w0. injection E as <- _. reflexivity.
Qed.

Lemma reference_frames e path s s' v : reference e path s = Ok (s', v) -> same_frames s s'.
Proof.
  unfold reference, same_frames. intros H.
  destruct (split_dot path) as [|first parts]; [discriminate|].
  dbind H as o. destruct o as [v0|]; [|destruct parts; discriminate].
  dbind H as [s1 target]. apply follow_path_frames in E0.
  destruct target; try discriminate.
  - injection H as <- _. exact E0.
  - dbind H as [s2 i]. injection H as <- _.
    apply touch_slot_frames in E1. unfold same_frames in *. congruence.
  - injection H as <- _. exact E0.
Qed.


Lemma flatten_fields_frames fs : forall s s' l, flatten_fields s fs = Ok (s', l) -> same_frames s s'.
Proof.
  unfold same_frames. induction fs as [|[n v] r IH]; intros s s' l H; cbn [flatten_fields] in H.
  - injection H as <- _. reflexivity.
  - destruct (hidden n); [eauto|].
    dbind H as [s1 o]. dbind H as [s2 rest]. injection H as <- _.
    apply IH in E0. rewrite E0.
    destruct v; try discriminate; try (injection E as <- _; reflexivity).
    + destruct (nth_error (heap s) h); [|discriminate]. injection E as <- _. reflexivity.
    + destruct (lookup name (slots s)); [|discriminate]. dbind E as [s3 i].
      injection E as <- _. apply touch_slot_frames in E1. exact E1.
Qed.

Lemma write_row_frames s h s' : write_row s h = Ok s' -> frames s' = frames s.
Proof.
  unfold write_row. destruct (nth_error (heap s) h); [|discriminate].
  destruct (hidden (c_table c)); [intros H; injection H as <-; reflexivity|].
  intros H. dbind H as [s1 fs]. injection H as <-. apply flatten_fields_frames in E. exact E.
Qed.

(* ------------------------------------------------------------------ (1) the output is write-only *)

(* put [o] underneath the current output *)
Definition app_out (o : list orow) (s : st) : st := upd_out s (out s ++ o).

Definition liftA {A} (o : list orow) (r : result (st * A)) : result (st * A) :=
  match r with Ok (s, a) => Ok (app_out o s, a) | Err e => Err e end.

Definition liftS (o : list orow) (r : result st) : result st :=
  match r with Ok s => Ok (app_out o s) | Err e => Err e end.

Lemma touch_slot_app s n o : touch_slot (app_out o s) n = liftA o (touch_slot s n).
Proof.
  unfold touch_slot, app_out. cbn [slots upd_out].
  destruct (lookup n (slots s)) as [sl|]; [|reflexivity].
  destruct (s_alloc sl); reflexivity.
Qed.

Lemma lookup_name_app e s o n : lookup_name e (app_out o s) n = lookup_name e s n.
Proof. reflexivity. Qed.

Lemma eval_expr_app e x : forall s o, eval_expr e x (app_out o s) = liftA o (eval_expr e x s).
Proof.
  induction x as [z|n|a IHa f|a IHa b IHb|a IHa b IHb|a IHa b IHb]; intros s o; cbn [eval_expr].
  - reflexivity.
  - rewrite lookup_name_app. destruct (lookup_name e s n) as [[v|]|]; reflexivity.
  - rewrite IHa. destruct (eval_expr e a s) as [[s1 v]|]; [|reflexivity]. cbn [liftA bind].
    destruct v; try reflexivity; try (destruct (py_own_attr f); reflexivity);
      try (change (hist (rnd (app_out o s1))) with (hist (rnd s1)); change (heap (app_out o s1)) with (heap s1);
           destruct (hist_attr (hist (rnd s1)) (heap s1) table id f); reflexivity).
    + destruct (py_own_attr f); [reflexivity|]. change (heap (app_out o s1)) with (heap s1).
      destruct (nth_error (heap s1) h); [|reflexivity]. destruct (row_attr c f); reflexivity.
    + destruct (String.eqb f "id"); [|reflexivity]. rewrite touch_slot_app.
      destruct (touch_slot s1 name) as [[s2 i]|]; reflexivity.
  - rewrite IHa. destruct (eval_expr e a s) as [[s1 v1]|]; [|reflexivity]. cbn [liftA bind].
    rewrite IHb. destruct (eval_expr e b s1) as [[s2 v2]|]; [|reflexivity]. cbn [liftA bind].
    destruct v1, v2; reflexivity.
  - rewrite IHa. destruct (eval_expr e a s) as [[s1 v1]|]; [|reflexivity]. cbn [liftA bind].
    rewrite IHb. destruct (eval_expr e b s1) as [[s2 v2]|]; [|reflexivity]. cbn [liftA bind].
    destruct v1, v2; reflexivity.
  - rewrite IHa. destruct (eval_expr e a s) as [[s1 v1]|]; [|reflexivity]. cbn [liftA bind].
    rewrite IHb. destruct (eval_expr e b s1) as [[s2 v2]|]; [|reflexivity]. cbn [liftA bind].
    destruct v1, v2; reflexivity.
Qed.

Lemma to_str_app s o v : to_str (app_out o s) v = to_str s v.
Proof. reflexivity. Qed.

Lemma render_pieces_app e ps : forall s o, render_pieces e ps (app_out o s) = liftA o (render_pieces e ps s).
Proof.
  induction ps as [|p ps IH]; intros s o; cbn [render_pieces]; [reflexivity|].
  destruct p as [t|x].
  - rewrite IH. destruct (render_pieces e ps s) as [[s1 rest]|]; reflexivity.
  - rewrite eval_expr_app. destruct (eval_expr e x s) as [[s1 v]|]; [|reflexivity]. cbn [liftA bind].
    rewrite to_str_app. destruct (to_str s1 v); [|reflexivity]. cbn [bind].
    rewrite IH. destruct (render_pieces e ps s1) as [[s2 rest]|]; reflexivity.
Qed.

Lemma render_formula_app e ps s o : render_formula e ps (app_out o s) = liftA o (render_formula e ps s).
Proof.
  unfold render_formula. destruct (version e =? 3).
  - destruct ps as [|[t|x] [|p2 r]];
      try (rewrite render_pieces_app; destruct (render_pieces e _ s) as [[s1 t1]|]; [|reflexivity];
           cbn [liftA bind]; destruct (native_str t1); reflexivity).
    rewrite eval_expr_app. destruct (eval_expr e x s) as [[s1 v]|]; [|reflexivity]. cbn [liftA bind].
    destruct v; try reflexivity. destruct (native_str s0); reflexivity.
  - rewrite render_pieces_app. destruct (render_pieces e ps s) as [[s1 t1]|]; [|reflexivity].
    cbn [liftA bind]. destruct (look_for_number t1); reflexivity.
Qed.

Lemma getattr_path_app s o v p : getattr_path (app_out o s) v p = liftA o (getattr_path s v p).
Proof.
  unfold getattr_path. destruct v; try reflexivity.
  - change (heap (app_out o s)) with (heap s). destruct (nth_error (heap s) h); [|reflexivity].
    destruct (row_attr c p); reflexivity.
  - destruct (String.eqb p "id"); [|reflexivity]. rewrite touch_slot_app.
    destruct (touch_slot s name) as [[s1 i]|]; reflexivity.
  - change (hist (rnd (app_out o s))) with (hist (rnd s)). change (heap (app_out o s)) with (heap s).
    destruct (hist_attr (hist (rnd s)) (heap s) table id p); reflexivity.
Qed.

Lemma follow_path_app parts : forall s o v, follow_path (app_out o s) v parts = liftA o (follow_path s v parts).
Proof.
  induction parts as [|p r IH]; intros s o v; cbn [follow_path]; [reflexivity|].
  rewrite getattr_path_app. destruct (getattr_path s v p) as [[s1 w]|]; [|reflexivity]. cbn [liftA bind].
  apply IH.
Qed.

Lemma reference_app e path s o : reference e path (app_out o s) = liftA o (reference e path s).
Proof.
  unfold reference. destruct (split_dot path) as [|first parts]; [reflexivity|].
  rewrite lookup_name_app. destruct (lookup_name e s first) as [[v0|]|]; try reflexivity.
  - cbn [bind]. rewrite follow_path_app. destruct (follow_path s v0 parts) as [[s1 target]|]; [|reflexivity].
    cbn [liftA bind]. destruct target; try reflexivity.
    rewrite touch_slot_app. destruct (touch_slot s1 name) as [[s2 i]|]; reflexivity.
  - cbn [bind]. destruct parts; reflexivity.
Qed.

Lemma flatten_fields_app fs : forall s o, flatten_fields (app_out o s) fs = liftA o (flatten_fields s fs).
Proof.
  induction fs as [|[n v] r IH]; intros s o; cbn [flatten_fields]; [reflexivity|].
  destruct (hidden n); [apply IH|].
  destruct v; cbn [bind].
  - rewrite IH. destruct (flatten_fields s r) as [[s2 rest]|]; reflexivity.
  - rewrite IH. destruct (flatten_fields s r) as [[s2 rest]|]; reflexivity.
  - rewrite IH. destruct (flatten_fields s r) as [[s2 rest]|]; reflexivity.
  - change (heap (app_out o s)) with (heap s). destruct (nth_error (heap s) h); [|reflexivity]. cbn [bind].
    rewrite IH. destruct (flatten_fields s r) as [[s2 rest]|]; reflexivity.
  - change (slots (app_out o s)) with (slots s). destruct (lookup name (slots s)); [|reflexivity].
    rewrite touch_slot_app. destruct (touch_slot s name) as [[s1 i]|]; [|reflexivity]. cbn [liftA bind].
    rewrite IH. destruct (flatten_fields s1 r) as [[s2 rest]|]; reflexivity.
  - reflexivity.
  - rewrite IH. destruct (flatten_fields s r) as [[s2 rest]|]; reflexivity.
Qed.

Lemma write_row_app s h o : write_row (app_out o s) h = liftS o (write_row s h).
Proof.
  unfold write_row. change (heap (app_out o s)) with (heap s).
  destruct (nth_error (heap s) h) as [c|]; [|reflexivity].
  destruct (hidden (c_table c)); [reflexivity|].
  rewrite flatten_fields_app. destruct (flatten_fields s (c_fields c)) as [[s1 fs]|]; [|reflexivity].
  cbn [liftA liftS bind]. unfold app_out. cbn [out upd_out app]. reflexivity.
Qed.

Lemma set_var_app s n v o : set_var (app_out o s) n v = app_out o (set_var s n v).
Proof. unfold set_var, app_out. cbn [frames upd_out]. destruct (frames s); reflexivity. Qed.
Lemma set_obj_app s h o : set_obj (app_out o s) h = app_out o (set_obj s h).
Proof. unfold set_obj, app_out. cbn [frames upd_out]. destruct (frames s); reflexivity. Qed.
Lemma pop_frame_app s o : pop_frame (app_out o s) = app_out o (pop_frame s).
Proof. unfold pop_frame, app_out. cbn [frames upd_out]. destruct (frames s); reflexivity. Qed.
Lemma push_frame_app s o : push_frame (app_out o s) = app_out o (push_frame s).
Proof. reflexivity. Qed.
Lemma set_field_app s h n v o : set_field (app_out o s) h n v = app_out o (set_field s h n v).
Proof. unfold set_field, app_out. cbn [heap upd_out]. destruct (nth_error (heap s) h); reflexivity. Qed.
Lemma register_object_app s h t nick once o :
  register_object (app_out o s) h t nick once = app_out o (register_object s h t nick once).
Proof. unfold register_object, app_out. destruct nick, once; reflexivity. Qed.
Lemma new_row_id_app s t nick o :
  new_row_id (app_out o s) t nick = (app_out o (fst (new_row_id s t nick)), snd (new_row_id s t nick)).
Proof.
  unfold new_row_id, consume_for, generate_id, app_out. cbn [slots upd_out].
  destruct nick as [n|].
  - destruct (lookup n (slots s)) as [sl|]; [destruct (s_alloc sl); [destruct (_ && _)|]|];
      try reflexivity;
      destruct (lookup t (slots s)) as [sl2|]; try reflexivity;
      destruct (s_alloc sl2); try reflexivity; destruct (_ && _); reflexivity.
  - destruct (lookup t (slots s)) as [sl2|]; try reflexivity;
      destruct (s_alloc sl2); try reflexivity; destruct (_ && _); reflexivity.
Qed.
Lemma remember_deps_app fs : forall s t o, remember_deps (app_out o s) t fs = app_out o (remember_deps s t fs).
Proof.
  unfold remember_deps. induction fs as [|[n v] r IH]; intros s t o; cbn [fold_left]; [reflexivity|].
  change (target_table (app_out o s) v) with (target_table s v).
  destruct (target_table s v); [|apply IH].
  change (deps (app_out o s)) with (deps s). destruct (existsb _ _); [apply IH|].
  change (upd_deps (app_out o s) (deps s ++ [(t, s0, n)])) with (app_out o (upd_deps s (deps s ++ [(t, s0, n)]))).
  apply IH.
Qed.

Lemma remember_history_app e s t nick id o :
  remember_history e (app_out o s) t nick id = liftS o (remember_history e s t nick id).
Proof.
  unfold remember_history. change (hist (rnd (app_out o s))) with (hist (rnd s)).
  destruct (existsb (String.eqb t) (hist_tables e)); reflexivity.
Qed.

Lemma random_reference_app e to s o :
  random_reference e to (app_out o s) = liftA o (random_reference e to s).
Proof.
  unfold random_reference. change (rnd (app_out o s)) with (rnd s).
  destruct (negb (rr_ok e)); [reflexivity|].
  destruct (ref_range (hist (rnd s)) to) as [[[[nick table] lo] hi]|]; [|reflexivity]. cbn [bind].
  destruct (draws (rnd s)) as [|r rest]; [reflexivity|].
  destruct ((0 <=? r) && (r <? hi - lo + 1)); [|reflexivity].
  destruct (resolve_draw (hist (rnd s)) nick table (lo + r)) as [[t i]|]; reflexivity.
Qed.

Lemma count_liftA {A} (o : list orow) (r : result (st * A)) (k : st * A -> result (st * ret)) s1 a :
  r = Ok (s1, a) -> bind (liftA o r) k = k (app_out o s1, a).
Proof. intros ->. reflexivity. Qed.

(* the evaluator commutes with putting rows underneath the output *)
Theorem run_app fuel : forall e tk s o,
  run fuel e tk (app_out o s) = liftA o (run fuel e tk s).
Proof.
  induction fuel as [|n IH]; intros e tk s o; [reflexivity|].
  cbn [run]. destruct tk as [l c|x c|t|t i cnt last|t i|h fs|d].
  - destruct l as [|x l]; [reflexivity|].
    rewrite IH. destruct (run n e (TStmt x c) s) as [[s1 r1]|]; [|reflexivity]. cbn [liftA bind]. apply IH.
  - destruct x as [t|name d].
    + destruct (t_once t && c); [reflexivity|].
      rewrite IH. destruct (run n e (TRows t) s) as [[s1 r1]|]; reflexivity.
    + destruct d; try reflexivity;
        (rewrite push_frame_app, IH;
         match goal with |- context [run n e (TField ?d0) (push_frame s)] =>
           destruct (run n e (TField d0) (push_frame s)) as [[s1 r1]|] end; [|reflexivity];
         cbn [liftA bind]; rewrite pop_frame_app, set_var_app; reflexivity).
  - rewrite push_frame_app.
    destruct (t_count t) as [d|].
    + rewrite IH. destruct (run n e (TField d) (push_frame s)) as [[s1 r1]|]; [|reflexivity].
      cbn [liftA bind]. destruct (count_of (ret_value r1)) as [c|]; [|reflexivity]. cbn [bind].
      rewrite IH. destruct (run n e (TLoop t 0 c None) s1) as [[s2 r2]|]; [|reflexivity].
      cbn [liftA bind]. rewrite pop_frame_app. reflexivity.
    + cbn [bind]. rewrite IH. destruct (run n e (TLoop t 0 1 None) (push_frame s)) as [[s2 r2]|]; [|reflexivity].
      cbn [liftA bind]. rewrite pop_frame_app. reflexivity.
  - destruct (i <? cnt); [|reflexivity].
    rewrite set_var_app, IH.
    destruct (run n e (TRow t i) (set_var s "child_index" (VInt i))) as [[s1 r1]|]; [|reflexivity].
    cbn [liftA bind]. destruct r1; try reflexivity. apply IH.
  - rewrite new_row_id_app.
    destruct (new_row_id s (t_table t) (t_nick t)) as [s1 id] eqn:Hid. cbn [fst snd].
    change (heap (app_out o s1)) with (heap s1).
    change (upd_heap (app_out o s1) (heap s1 ++ [mkCell (t_table t) id i []]))
      with (app_out o (upd_heap s1 (heap s1 ++ [mkCell (t_table t) id i []]))).
    rewrite set_obj_app, register_object_app, IH.
    match goal with |- context [run n e (TFields ?h ?fs) ?st0] => destruct (run n e (TFields h fs) st0) as [[s4 r4]|] end;
      [|reflexivity].
    cbn [liftA bind]. change (heap (app_out o s4)) with (heap s4).
    destruct (nth_error (heap s4) (length (heap s1))) as [c|]; [|reflexivity].
    rewrite remember_deps_app, remember_history_app.
    destruct (remember_history e (remember_deps s4 (t_table t) (c_fields c)) (t_table t) (t_nick t) id) as [s5h|];
      [|reflexivity].
    cbn [liftS bind]. rewrite write_row_app.
    destruct (write_row s5h (length (heap s1))) as [s6|]; [|reflexivity].
    cbn [liftS bind]. rewrite IH. destruct (run n e (TStmts (t_friends t) true) s6) as [[s7 r7]|]; reflexivity.
  - destruct fs as [|[name d] fs]; [reflexivity|].
    destruct (String.eqb name "id"); [reflexivity|].
    rewrite IH. destruct (run n e (TField d) s) as [[s1 v]|]; [|reflexivity]. cbn [liftA bind].
    rewrite set_field_app. apply IH.
  - destruct d as [z|x|ps|path|t|to].
    + reflexivity.
    + destruct (version e =? 3); [reflexivity|]. destruct (look_for_number x); reflexivity.
    + rewrite render_formula_app. destruct (render_formula e ps s) as [[s1 v]|]; reflexivity.
    + rewrite reference_app. destruct (reference e path s) as [[s1 v]|]; reflexivity.
    + apply IH.
    + rewrite random_reference_app. destruct (random_reference e to s) as [[s1 v]|]; reflexivity.
Qed.

(* ------------------------------------------------------------------ (2) frame discipline *)

Definition is_obj (x : stmt) : bool := match x with SObj _ => true | SVar _ _ => false end.

(* tasks that restore the frame stack exactly *)
Definition whole (tk : task) : bool :=
  match tk with
  | TRows _ | TField _ => true
  | TStmt x _ => is_obj x
  | TStmts l _ => forallb is_obj l
  | _ => false
  end.

Lemma set_var_frames_tl s n v : tl (frames (set_var s n v)) = tl (frames s) /\ (frames s <> [] -> frames (set_var s n v) <> []).
Proof. unfold set_var. destruct (frames s) eqn:E; cbn; rewrite ?E; (split; [reflexivity|]); [auto|intros _; discriminate]. Qed.
Lemma set_obj_frames_tl s h : tl (frames (set_obj s h)) = tl (frames s) /\ (frames s <> [] -> frames (set_obj s h) <> []).
Proof. unfold set_obj. destruct (frames s) eqn:E; cbn; rewrite ?E; (split; [reflexivity|]); [auto|intros _; discriminate]. Qed.
Lemma pop_frame_frames s : frames (pop_frame s) = tl (frames s).
Proof. unfold pop_frame. destruct (frames s) eqn:E; cbn; rewrite ?E; reflexivity. Qed.
Lemma set_field_frames s h n v : frames (set_field s h n v) = frames s.
Proof. unfold set_field. destruct (nth_error (heap s) h); reflexivity. Qed.
Lemma register_object_frames s h t nick once : frames (register_object s h t nick once) = frames s.
Proof. unfold register_object. destruct nick, once; reflexivity. Qed.
Lemma new_row_id_frames s t nick : frames (fst (new_row_id s t nick)) = frames s.
Proof.
  unfold new_row_id, consume_for, generate_id.
  destruct nick as [n|].
  - destruct (lookup n (slots s)) as [sl|]; [destruct (s_alloc sl); [destruct (_ && _)|]|];
      try reflexivity;
      destruct (lookup t (slots s)) as [sl2|]; try reflexivity;
      destruct (s_alloc sl2); try reflexivity; destruct (_ && _); reflexivity.
  - destruct (lookup t (slots s)) as [sl2|]; try reflexivity;
      destruct (s_alloc sl2); try reflexivity; destruct (_ && _); reflexivity.
Qed.
Lemma remember_deps_frames fs : forall s t, frames (remember_deps s t fs) = frames s.
Proof.
  unfold remember_deps. induction fs as [|[n v] r IH]; intros s t; cbn [fold_left]; [reflexivity|].
  rewrite IH. destruct (target_table s v); [|reflexivity]. destruct (existsb _ _); reflexivity.
Qed.

Lemma rnd_only_frames s s' : rnd_only s s' -> frames s' = frames s.
Proof. intros [x ->]. reflexivity. Qed.

Theorem run_frames fuel : forall e tk s s' r,
  run fuel e tk s = Ok (s', r) -> frames s <> [] ->
  tl (frames s') = tl (frames s) /\ frames s' <> [] /\ (whole tk = true -> frames s' = frames s).
Proof.
  induction fuel as [|n IH]; intros e tk s s' r H Hne; [discriminate|].
  cbn [run] in H. destruct tk as [l c|x c|t|t i cnt last|t i|h fs|d]; cbn [whole].
  - destruct l as [|x l]; [injection H as <- _; auto|].
    dbind H as [s1 r1]. destruct (IH _ _ _ _ _ E Hne) as (T1 & N1 & W1).
    destruct (IH _ _ _ _ _ H N1) as (T2 & N2 & W2).
    splits; [congruence|exact N2|]. cbn [forallb]. intros Hw. apply andb_true_iff in Hw. destruct Hw as [Hx Hl].
    rewrite (W2 Hl). apply W1. exact Hx.
  - destruct x as [t|name d]; cbn [is_obj].
    + destruct (t_once t && c); [injection H as <- _; auto|].
      dbind H as [s1 r1]. injection H as <- _. destruct (IH _ _ _ _ _ E Hne) as (T1 & N1 & W1).
      splits; auto.
    + destruct d; try discriminate;
        (dbind H as [s1 r1]; injection H as <- _;
         assert (Hp : frames (push_frame s) <> []) by (cbn; discriminate);
         destruct (IH _ _ _ _ _ E Hp) as (T1 & N1 & W1); specialize (W1 eq_refl);
         destruct (set_var_frames_tl (pop_frame s1) name (ret_value r1)) as [Ht Hn];
         rewrite pop_frame_frames, W1 in Ht, Hn; cbn [push_frame frames upd_frames tl] in Ht, Hn;
         splits; [exact Ht|apply Hn; exact Hne|discriminate]).
  - dbind H as [s1 cnt]. dbind H as [s2 r2]. injection H as <- _.
    assert (Hp : frames (push_frame s) <> []) by (cbn; discriminate).
    assert (H1 : frames s1 = frames (push_frame s)).
    { destruct (t_count t) as [d|].
      - dbind E as [s1' r1]. dbind E as w0. injection E as <- _.
        destruct (IH _ _ _ _ _ E1 Hp) as (_ & _ & W). apply W. reflexivity.
      - injection E as <- _. reflexivity. }
    assert (Hn1 : frames s1 <> []) by (rewrite H1; exact Hp).
    destruct (IH _ _ _ _ _ E0 Hn1) as (T2 & N2 & _).
    rewrite pop_frame_frames, T2, H1. cbn [push_frame frames upd_frames tl].
    splits; auto.
  - destruct (i <? cnt); [|injection H as <- _; splits; auto; discriminate].
    dbind H as [s1 r1]. destruct (set_var_frames_tl s "child_index" (VInt i)) as [Ht Hn].
    destruct (IH _ _ _ _ _ E (Hn Hne)) as (T1 & N1 & _).
    destruct r1; try discriminate. destruct (IH _ _ _ _ _ H N1) as (T2 & N2 & _).
    splits; [congruence|exact N2|discriminate].
  - destruct (new_row_id s (t_table t) (t_nick t)) as [s1 id] eqn:Hid.
    dbind H as [s4 r4].
    destruct (nth_error (heap s4) (length (heap s1))) as [c|]; [|discriminate].
    dbind H as s5h. dbind H as s6. dbind H as [s7 r7]. injection H as <- _.
    apply remember_history_rnd in E0. apply rnd_only_frames in E0.
    pose proof (new_row_id_frames s (t_table t) (t_nick t)) as F1. rewrite Hid in F1. cbn [fst] in F1.
    set (s2 := upd_heap s1 (heap s1 ++ [mkCell (t_table t) id i []])) in *.
    assert (F2 : frames s2 = frames s) by exact F1.
    destruct (set_obj_frames_tl s2 (length (heap s1))) as [Ht Hn].
    assert (N3 : frames (register_object (set_obj s2 (length (heap s1))) (length (heap s1)) (t_table t) (t_nick t) (t_once t)) <> []).
    { rewrite register_object_frames. apply Hn. rewrite F2. exact Hne. }
    destruct (IH _ _ _ _ _ E N3) as (T4 & N4 & _).
    apply write_row_frames in E1. rewrite E0, remember_deps_frames in E1.
    assert (N6 : frames s6 <> []) by (rewrite E1; exact N4).
    destruct (IH _ _ _ _ _ E2 N6) as (T7 & N7 & _).
    splits; [|exact N7|discriminate].
    rewrite T7, E1, T4, register_object_frames, Ht, F2. reflexivity.
  - destruct fs as [|[name d] fs]; [injection H as <- _; splits; auto; discriminate|].
    destruct (String.eqb name "id"); [discriminate|].
    dbind H as [s1 v]. destruct (IH _ _ _ _ _ E Hne) as (T1 & N1 & W1). specialize (W1 eq_refl).
    assert (N1' : frames (set_field s1 h name (ret_value v)) <> []) by (rewrite set_field_frames; exact N1).
    destruct (IH _ _ _ _ _ H N1') as (T2 & N2 & _). rewrite set_field_frames in T2.
    splits; [congruence|exact N2|discriminate].
  - destruct d as [z|x|ps|path|t|to].
    + injection H as <- _. auto.
    + destruct (version e =? 3); [injection H as <- _; auto|].
      dbind H as w0. injection H as <- _. auto.
    + dbind H as [s1 v]. injection H as <- _. apply render_formula_frames in E.
      unfold same_frames in E. rewrite E. auto.
    + dbind H as [s1 v]. injection H as <- _. apply reference_frames in E.
      unfold same_frames in E. rewrite E. auto.
    + destruct (IH _ _ _ _ _ H Hne) as (T & N & W). splits; auto.
    + dbind H as [s1 v]. injection H as <- _. apply random_reference_rnd in E. apply rnd_only_frames in E.
      rewrite E. auto.
Qed.

(* ------------------------------------------------------------------ (3) load after save *)

(* recipes without random_reference keep no row history at all *)
Definition rh0 : rh := mkRh [] [] [] [] [] [].

(* the shape of the state between two iterations (of a recipe without random_reference) *)
Definition boundary (e : env) (s : st) : Prop :=
  nick_objs s = [] /\ last_by_table s = [] /\ slots s = fresh_slots e /\ frames s = [mkFrame [] None] /\
  hist_tables e = [] /\ Interp.hist (rnd s) = rh0.

(* every row reachable by a persistent name holds only scalars: nothing is dropped or
   unrepresentable when the continuation is written (the premise excluding K1 / K2) *)
Definition persistable (s : st) : Prop :=
  forall h, In h (map snd (p_nicks s) ++ map snd (p_tables s)) ->
    exists c, nth_error (heap s) h = Some c /\ saved_fields (c_fields c) = Ok (c_fields c).

Lemma set_nth_same {A} (l : list A) : forall i x, nth_error l i = Some x -> set_nth i x l = l.
Proof.
  induction l as [|y r IH]; intros i x H; destruct i; cbn [nth_error set_nth] in *; try discriminate.
  - injection H as ->. reflexivity.
  - rewrite IH; auto.
Qed.

Lemma clean_handles_id hs : forall h,
  (forall x, In x hs -> exists c, nth_error h x = Some c /\ saved_fields (c_fields c) = Ok (c_fields c)) ->
  clean_handles h hs = Ok h.
Proof.
  induction hs as [|x r IH]; intros h H; cbn [clean_handles]; [reflexivity|].
  destruct (H x (or_introl eq_refl)) as (c & Hc & Hs). rewrite Hc, Hs. cbn [bind].
  assert (Hc' : mkCell (c_table c) (c_id c) (c_index c) (c_fields c) = c) by (destruct c; reflexivity).
  rewrite Hc', (set_nth_same _ _ _ Hc). apply IH. intros y Hy. apply H. right. exact Hy.
Qed.

Lemma upd_out_same s : upd_out s (out s) = s.
Proof. destruct s; reflexivity. Qed.

Theorem save_load_id e s :
  boundary e s -> persistable s ->
  exists c, save s = Ok c /\ load e c = Ok (upd_out s []).
Proof.
  intros (B1 & B2 & B3 & B4 & B5 & B6) HP. unfold save. rewrite (clean_handles_id _ _ HP). cbn [bind].
  eexists. split; [reflexivity|]. unfold load, init_hist. rewrite B5. cbn [bind].
  cbn [k_ids k_p_nicks k_p_tables k_heap k_deps k_draws].
  destruct s as [i1 i2 i3 i4 i5 i6 i7 i8 i9 i10 [hh dd]]. cbn in *. subst. reflexivity.
Qed.

(* ------------------------------------------------------------------ the row history of a recipe
   without random_reference stays empty (a random_reference would fail: nothing to draw from) *)

Lemma set_var_rnd s n v : rnd (set_var s n v) = rnd s.
Proof. unfold set_var. destruct (frames s); reflexivity. Qed.
Lemma set_obj_rnd s h : rnd (set_obj s h) = rnd s.
Proof. unfold set_obj. destruct (frames s); reflexivity. Qed.
Lemma pop_frame_rnd s : rnd (pop_frame s) = rnd s.
Proof. unfold pop_frame. destruct (frames s); reflexivity. Qed.
Lemma set_field_rnd s h n v : rnd (set_field s h n v) = rnd s.
Proof. unfold set_field. destruct (nth_error (heap s) h); reflexivity. Qed.
Lemma register_object_rnd s h t nick once : rnd (register_object s h t nick once) = rnd s.
Proof. unfold register_object. destruct nick, once; reflexivity. Qed.

Theorem run_hist_empty fuel : forall e tk s s' r,
  hist_tables e = [] -> run fuel e tk s = Ok (s', r) -> Interp.hist (rnd s) = rh0 -> Interp.hist (rnd s') = rh0.
Proof.
  induction fuel as [|n IH]; intros e tk s s' r He H H0; [discriminate|].
  cbn [run] in H. destruct tk as [l c|x c|t|t i cnt last|t i|h fs|d].
  - destruct l as [|x l]; [injection H as <- _; exact H0|].
    dbind H as [s1 r1]. eapply IH; [exact He|exact H|]. eapply IH; eassumption.
  - destruct x as [t|name d].
    + destruct (t_once t && c); [injection H as <- _; exact H0|].
      dbind H as [s1 r1]. injection H as <- _. eapply IH; eassumption.
    + destruct d; try discriminate;
        (dbind H as [s1 r1]; injection H as <- _; rewrite set_var_rnd, pop_frame_rnd;
         eapply IH; [exact He|exact E|exact H0]).
  - dbind H as [s1 cnt]. dbind H as [s2 r2]. injection H as <- _. rewrite pop_frame_rnd.
    eapply IH; [exact He|exact E0|].
    destruct (t_count t) as [d|].
    + dbind E as [s1' r1]. dbind E as w0. injection E as <- _. eapply IH; [exact He|exact E1|exact H0].
    + injection E as <- _. exact H0.
  - destruct (i <? cnt); [|injection H as <- _; exact H0].
    dbind H as [s1 r1]. destruct r1; try discriminate.
    eapply IH; [exact He|exact H|]. eapply IH; [exact He|exact E|]. rewrite set_var_rnd. exact H0.
  - destruct (new_row_id s (t_table t) (t_nick t)) as [s1 id] eqn:Hid.
    dbind H as [s4 r4].
    destruct (nth_error (heap s4) (length (heap s1))) as [c|]; [|discriminate].
    dbind H as s5h. dbind H as s6. dbind H as [s7 r7]. injection H as <- _.
    eapply IH; [exact He|exact E2|].
    destruct (write_row_so _ _ _ E1) as (_ & _ & ->).
    assert (H4 : Interp.hist (rnd s4) = rh0).
    { eapply IH; [exact He|exact E|]. rewrite register_object_rnd, set_obj_rnd. cbn [rnd upd_heap].
      destruct (new_row_id_same s (t_table t) (t_nick t)) as (_ & _ & Hr). rewrite Hid in Hr. cbn [fst] in Hr.
      rewrite Hr. exact H0. }
    unfold remember_history in E0. rewrite He in E0. cbn [existsb] in E0.
    injection E0 as <-; destruct (remember_deps_same (c_fields c) s4 (t_table t)) as (_ & _ & -> & _); exact H4.
  - destruct fs as [|[name d] fs]; [injection H as <- _; exact H0|].
    destruct (String.eqb name "id"); [discriminate|].
    dbind H as [s1 v]. eapply IH; [exact He|exact H|]. rewrite set_field_rnd. eapply IH; eassumption.
  - destruct d as [z|x|ps|path|t|to].
    + injection H as <- _. exact H0.
    + destruct (version e =? 3); [injection H as <- _; exact H0|]. dbind H as w0. injection H as <- _. exact H0.
    + dbind H as [s1 v]. injection H as <- _. destruct (render_formula_so _ _ _ _ _ E) as (_ & _ & -> & _). exact H0.
    + dbind H as [s1 v]. injection H as <- _. destruct (reference_so _ _ _ _ _ E) as (_ & _ & -> & _). exact H0.
    + eapply IH; eassumption.
    + exfalso. dbind H as [s1 v]. unfold random_reference in E. destruct (negb (rr_ok e)); [discriminate|].
      rewrite H0 in E. unfold ref_range, rh0 in E. cbn in E. discriminate.
Qed.

(* ------------------------------------------------------------------ iterations *)

Strategy 1000 [iteration run].

Lemma iteration_app e stmts c s o : iteration e stmts c (app_out o s) = liftS o (iteration e stmts c s).
Proof.
  unfold iteration. rewrite run_app. destruct (run fuel0 e (TStmts stmts c) s) as [[s1 r]|]; [|reflexivity].
  cbn [liftA bind]. change (slots_filled (app_out o s1)) with (slots_filled s1).
  destruct (slots_filled s1); [|reflexivity].
  change (stale_slot 4 (app_out o s1) (survivors (app_out o s1))) with (stale_slot 4 s1 (survivors s1)).
  destruct (stale_slot 4 s1 (survivors s1)); reflexivity.
Qed.

Lemma iterations_app k : forall e stmts c s o,
  iterations k e stmts c (app_out o s) = liftS o (iterations k e stmts c s).
Proof.
  induction k as [|k IH]; intros e stmts c s o; cbn [iterations]; [reflexivity|].
  rewrite iteration_app. destruct (iteration e stmts c s) as [s1|]; [|reflexivity]. cbn [liftS bind]. apply IH.
Qed.

Lemma iterations_add k1 : forall k2 e stmts c s,
  iterations (S k1 + k2) e stmts c s =
  (do s1 <- iterations (S k1) e stmts c s; iterations k2 e stmts true s1).
Proof.
  induction k1 as [|k1 IH]; intros k2 e stmts c s.
  - cbn [Nat.add iterations]. destruct (iteration e stmts c s); reflexivity.
  - change (S (S k1) + k2)%nat with (S (S k1 + k2)). cbn [iterations].
    destruct (iteration e stmts c s) as [s1|]; [|reflexivity]. cbn [bind].
    rewrite IH. reflexivity.
Qed.

Lemma iteration_inv e stmts c s s' :
  iteration e stmts c s = Ok s' ->
  exists s1 r, run fuel0 e (TStmts stmts c) s = Ok (s1, r) /\ s' = reset_hist (reset_slots e s1).
Proof.
  unfold iteration. intros H. dbind H as [s1 r].
  destruct (slots_filled s1); [|discriminate].
  destruct (stale_slot 4 s1 (survivors s1)); [discriminate|]. injection H as <-.
  exists s1, r. auto.
Qed.

(* an iteration of a recipe without top-level variables ends at a boundary state *)
Lemma iteration_boundary e stmts c s s' :
  forallb is_obj stmts = true -> boundary e s -> iteration e stmts c s = Ok s' -> boundary e s'.
Proof.
  intros Hobj (B1 & B2 & B3 & B4 & B5 & B6) H.
  destruct (iteration_inv _ _ _ _ _ H) as (s1 & r & E & ->).
  assert (Hne : frames s <> []) by (rewrite B4; discriminate).
  destruct (run_frames _ _ _ _ _ _ E Hne) as (_ & _ & W).
  assert (W' : frames s1 = frames s) by (apply W; exact Hobj).
  pose proof (run_hist_empty _ _ _ _ _ _ B5 E B6) as H1.
  split; [reflexivity|]. split; [reflexivity|]. split; [reflexivity|].
  split; [change (frames (reset_hist (reset_slots e s1))) with (frames s1); rewrite W'; exact B4|].
  split; [exact B5|].
  unfold reset_hist. cbn [rnd upd_rnd Interp.hist]. change (rnd (reset_slots e s1)) with (rnd s1).
  rewrite H1. reflexivity.
Qed.

Lemma iterations_boundary k : forall e stmts c s s',
  forallb is_obj stmts = true -> boundary e s -> iterations k e stmts c s = Ok s' -> boundary e s'.
Proof.
  induction k as [|k IH]; intros e stmts c s s' Hobj B H; cbn [iterations] in H.
  - injection H as <-. exact B.
  - dbind H as s1. eapply IH; [exact Hobj| |exact H]. eapply iteration_boundary; eassumption.
Qed.

Lemma init_boundary e dr : hist_tables e = [] -> boundary e (init_st e dr).
Proof. intros He. unfold boundary, init_st, init_hist. rewrite He. cbn. splits; auto. Qed.

(* ------------------------------------------------------------------ split = unsplit *)

(* a chain of runs from a given start state (run_history generalised over the start) *)
Fixpoint chain (e : env) (stmts : list stmt) (ks : list nat) (c0 : bool) (s0 : st)
  : result (list (list orow)) :=
  match ks with
  | [] => Ok []
  | k :: rest =>
    do s <- iterations k e stmts c0 s0;
    match rest with
    | [] => Ok [rows_of s]
    | _ => do c1 <- save s; do s1 <- load e c1; do tl <- chain e stmts rest true s1; Ok (rows_of s :: tl)
    end
  end.

Lemma run_history_chain r ks :
  run_history r ks None = chain (env_of r) (r_stmts r) ks false (init_st (env_of r) (r_draws r)).
Proof.
  assert (G : forall ks c, run_history r ks (Some c) =
                           (do s1 <- load (env_of r) c; chain (env_of r) (r_stmts r) ks true s1) \/ ks = []).
  { induction ks0 as [|k rest IH]; intros c; [right; reflexivity|left].
    cbn [run_history chain run_one].
    destruct (load (env_of r) c) as [s1|]; [|reflexivity]. cbn [bind].
    destruct (iterations k (env_of r) (r_stmts r) true s1) as [s|]; [|reflexivity].
    cbn [bind]. destruct rest as [|k2 rest2]; [reflexivity|].
    destruct (save s) as [c1|]; [|reflexivity]. cbn [bind].
    destruct (IH c1) as [->|Hnil]; [|discriminate]. destruct (load (env_of r) c1); reflexivity. }
  destruct ks as [|k rest]; cbn [run_history chain]; [reflexivity|].
  cbn [run_one]. unfold run_fresh.
  destruct (iterations k (env_of r) (r_stmts r) false (init_st (env_of r) (r_draws r))) as [s|]; [|reflexivity].
  cbn [bind]. destruct rest as [|k2 rest2]; [reflexivity|].
  destruct (save s) as [c1|]; [|reflexivity]. cbn [bind].
  destruct (G (k2 :: rest2) c1) as [->|Hnil]; [|discriminate]. destruct (load (env_of r) c1); reflexivity.
Qed.

(* the premise "the just_once rows hold only scalars" at every cut of the chain *)
Fixpoint cuts_persistable (e : env) (stmts : list stmt) (ks : list nat) (c0 : bool) (s0 : st) : Prop :=
  match ks with
  | k :: ((_ :: _) as rest) =>
    forall s, iterations k e stmts c0 s0 = Ok s ->
      persistable s /\ forall c1 s1, save s = Ok c1 -> load e c1 = Ok s1 -> cuts_persistable e stmts rest true s1
  | _ => True
  end.

Definition all_positive (ks : list nat) : Prop := Forall (fun k => (1 <= k)%nat) ks.

Lemma rows_of_app o s : rows_of (app_out o s) = (rev o ++ rows_of s)%list.
Proof. unfold rows_of, app_out. cbn [out upd_out]. apply rev_app_distr. Qed.

Theorem chain_eq_unsplit e stmts : forall ks c0 s0 rowss,
  forallb is_obj stmts = true -> all_positive ks -> ks <> [] ->
  boundary e s0 -> out s0 = [] ->
  cuts_persistable e stmts ks c0 s0 ->
  chain e stmts ks c0 s0 = Ok rowss ->
  exists sF, iterations (fold_right Nat.add 0%nat ks) e stmts c0 s0 = Ok sF /\
             rows_of sF = concat rowss.
Proof.
  induction ks as [|k rest IH]; intros c0 s0 rowss Hobj Hpos Hne HB Hout HP H; [contradiction|].
  cbn [chain] in H. dbind H as s.
  destruct rest as [|k2 rest2].
  - injection H as <-. cbn [fold_right concat]. rewrite Nat.add_0_r, app_nil_r. exists s. auto.
  - dbind H as c1. dbind H as sl. dbind H as tl0. injection H as <-.
    inversion Hpos as [|? ? Hk Hrest]; subst.
    destruct k as [|k']; [lia|].
    pose proof (iterations_boundary _ _ _ _ _ _ Hobj HB E) as HBs.
    destruct (HP s E) as [Hps Hcuts].
    destruct (save_load_id e s HBs Hps) as (c1' & Hsave & Hload).
    rewrite E0 in Hsave. injection Hsave as <-.
    rewrite E1 in Hload. injection Hload as Hload.
    assert (HB1 : boundary e sl).
    { rewrite Hload. destruct HBs as (a & b & c & d & f & g). unfold boundary. cbn. splits; auto. }
    destruct (IH true sl tl0 Hobj Hrest ltac:(discriminate) HB1 ltac:(rewrite Hload; reflexivity)
                 (Hcuts c1 sl E0 E1) E2) as (sF' & HF' & Hrows').
    (* the uninterrupted continuation from s is the split continuation with s's rows underneath *)
    assert (Hs : s = app_out (out s) (upd_out s [])).
    { clear. destruct s; reflexivity. }
    exists (app_out (out s) sF'). split.
    + change (fold_right Nat.add 0%nat (S k' :: k2 :: rest2)) with (S k' + fold_right Nat.add 0%nat (k2 :: rest2))%nat.
      rewrite iterations_add, E. cbn [bind]. rewrite Hs at 1. rewrite iterations_app.
      rewrite <- Hload, HF'. reflexivity.
    + rewrite rows_of_app, Hrows'. cbn [concat]. unfold rows_of. reflexivity.
Qed.

(* C04 for fresh datasets of recipes without random_reference and without top-level variables:
   every way of cutting k iterations into runs k1+...+km (each >= 1) chained by continuation
   files yields, concatenated, exactly the rows of the single run. *)
Theorem split_eq_unsplit r ks rowss :
  hist_tables (env_of r) = [] ->
  forallb is_obj (r_stmts r) = true -> all_positive ks -> ks <> [] ->
  cuts_persistable (env_of r) (r_stmts r) ks false (init_st (env_of r) (r_draws r)) ->
  run_history r ks None = Ok rowss ->
  run_history r [fold_right Nat.add 0%nat ks] None = Ok [concat rowss].
Proof.
  intros Hrr Hobj Hpos Hne HP H. rewrite run_history_chain in H.
  destruct (chain_eq_unsplit _ _ _ _ _ _ Hobj Hpos Hne (init_boundary _ _ Hrr) eq_refl HP H) as (sF & HF & Hrows).
  cbn [run_history run_one]. unfold run_fresh. rewrite HF. cbn [bind]. rewrite Hrows. reflexivity.
Qed.

(* "A continuation run never fails on a recipe that the uninterrupted run completes":
   if k1+k2 iterations complete in one run, then stopping after k1 (>= 1) iterations and
   continuing for k2 more from the continuation also completes, with the same rows. *)
Theorem continuation_never_fails r k1 k2 sF :
  hist_tables (env_of r) = [] ->
  forallb is_obj (r_stmts r) = true ->
  run_fresh r (S k1 + k2) = Ok sF ->
  exists s1, run_fresh r (S k1) = Ok s1 /\
    (persistable s1 ->
     exists rows2, run_history r [S k1; k2] None = Ok [rows_of s1; rows2] /\
                   rows_of sF = (rows_of s1 ++ rows2)%list).
Proof.
  unfold run_fresh. intros Hrr Hobj H. rewrite iterations_add in H.
  destruct (iterations (S k1) (env_of r) (r_stmts r) false (init_st (env_of r) (r_draws r))) as [s1|] eqn:E; [|discriminate].
  cbn [bind] in H. exists s1. split; [reflexivity|]. intros Hps.
  pose proof (iterations_boundary _ _ _ _ _ _ Hobj (init_boundary _ _ Hrr) E) as HB.
  destruct (save_load_id _ _ HB Hps) as (c1 & Hsave & Hload).
  assert (Hs : s1 = app_out (out s1) (upd_out s1 [])) by (clear; destruct s1; reflexivity).
  rewrite Hs, iterations_app in H.
  destruct (iterations k2 (env_of r) (r_stmts r) true (upd_out s1 [])) as [s2|] eqn:E2; [|discriminate].
  cbn [liftS] in H. injection H as <-.
  exists (rows_of s2). split.
  - cbn [run_history run_one]. unfold run_fresh. rewrite E. cbn [bind]. rewrite Hsave. cbn [bind].
    rewrite Hload. cbn [bind]. rewrite E2. reflexivity.
  - rewrite rows_of_app. unfold rows_of. reflexivity.
Qed.

(* ------------------------------------------------------------------ C02 over continuation chains *)

Definition resolves_in (rows : list orow) (T : string) (i : Z) : Prop :=
  exists row', In row' rows /\ fst row' = T /\ orow_id row' = [i].

Lemma written_In_iff T o i : In i (written T o) <-> resolves_in o T i.
Proof.
  split; [apply written_In|].
  intros (r & Hr & Ht & Hi). unfold written. apply in_flat_map. exists r. split; [exact Hr|].
  rewrite Ht, String.eqb_refl, Hi. left. reflexivity.
Qed.

Lemma resolves_in_app_l a b T i : resolves_in a T i -> resolves_in (a ++ b) T i.
Proof. intros (r & Hr & H). exists r. split; [apply in_or_app; auto|exact H]. Qed.
Lemma resolves_in_app_r a b T i : resolves_in b T i -> resolves_in (a ++ b) T i.
Proof. intros (r & Hr & H). exists r. split; [apply in_or_app; auto|exact H]. Qed.

(* every reference written anywhere in a chain of runs — random references included — resolves
   to a row written by the same run or by an earlier run of the chain ([prev] = rows of the
   runs before this chain) *)
Theorem chain_no_dangling e stmts : forall ks c0 s0 rowss prev,
  start_ok s0 -> Bd s0 -> V s0 ->
  (forall T, hidden T = false -> Permutation (written T prev) (Zseq 1 (Z.to_nat (last_id s0 T)))) ->
  chain e stmts ks c0 s0 = Ok rowss ->
  forall row n T i, In row (concat rowss) -> In (n, ORef T i) (snd row) -> hidden T = false ->
    resolves_in (prev ++ concat rowss) T i.
Proof.
  induction ks as [|k rest IH]; intros c0 s0 rowss prev Hs0 HB HV0 Hprev H row n T i Hr Hin HT;
    cbn [chain] in H; [injection H as <-; destruct Hr|].
  dbind H as s.
  assert (HJ0 : J s0).
  { split; [exact HB|]. destruct Hs0 as (_ & _ & _ & Ho). intros ? ? ? ? Hx. rewrite Ho in Hx. destruct Hx. }
  destruct (iterations_J _ _ _ _ _ _ E HJ0 HV0) as (HJs & _ & HVs).
  destruct (ids_dense_run _ _ _ _ _ _ Hs0 E) as [Hok HD].
  (* references of this run *)
  assert (Hthis : forall row n T i, In row (rows_of s) -> In (n, ORef T i) (snd row) -> hidden T = false ->
                  resolves_in (prev ++ rows_of s) T i).
  { intros row1 n1 T1 i1 Hr1 Hin1 HT1. unfold rows_of in Hr1. apply in_rev in Hr1.
    destruct (no_dangling_run _ _ _ _ _ _ Hs0 HB HV0 E row1 n1 T1 i1 Hr1 Hin1 HT1) as [Hold|(r' & Hr' & Hk)].
    - apply resolves_in_app_l. apply written_In_iff.
      apply (Permutation_in _ (Permutation_sym (Hprev T1 HT1))). apply Zseq_In. lia.
    - apply resolves_in_app_r. exists r'. split; [unfold rows_of; rewrite <- in_rev; exact Hr'|exact Hk]. }
  destruct rest as [|k2 rest2].
  - injection H as <-. cbn [concat] in *. rewrite app_nil_r in *. eapply Hthis; eassumption.
  - dbind H as c1. dbind H as sl. dbind H as tl0. injection H as <-. cbn [concat] in Hr |- *.
    apply in_app_or in Hr. destruct Hr as [Hr|Hr].
    + rewrite app_assoc. apply resolves_in_app_l. eapply Hthis; eassumption.
    + rewrite app_assoc.
      eapply (IH true sl tl0 (prev ++ rows_of s)); try eassumption.
      * destruct Hok as (_ & _ & Hnn & _). eapply load_start_ok; [exact E1|]. intros U.
        rewrite (save_ids _ _ E0). apply (Hnn U).
      * eapply load_Bd; [exact (J_Bd _ HJs)|exact E0|exact E1].
      * eapply load_V; [exact HVs|exact (J_Bd _ HJs)|exact E0|exact E1].
      * intros U HU. rewrite (resume_after_highest e _ _ _ U E0 E1).
        destruct (HD U) as [Hle HP]. specialize (HP HU).
        unfold written. rewrite flat_map_app. fold (written U prev). fold (written U (rows_of s)).
        replace (Z.to_nat (last_id s U)) with (Z.to_nat (last_id s0 U) + Z.to_nat (last_id s U - last_id s0 U))%nat.
        -- rewrite Zseq_app. apply Permutation_app; [apply Hprev; exact HU|].
           destruct Hs0 as (_ & _ & Hnn0 & _). specialize (Hnn0 U).
           replace (1 + Z.of_nat (Z.to_nat (last_id s0 U))) with (last_id s0 U + 1) by lia.
           eapply Permutation_trans; [apply written_rev|exact HP].
        -- destruct Hs0 as (_ & _ & Hnn0 & _). specialize (Hnn0 U). lia.
Qed.

(* C02 over any chain of continuation runs of a fresh dataset *)
Theorem no_dangling_history r ks rowss :
  run_history r ks None = Ok rowss ->
  forall row n T i, In row (concat rowss) -> In (n, ORef T i) (snd row) -> hidden T = false ->
    resolves_in (concat rowss) T i.
Proof.
  intros H row n T i Hr Hin HT. rewrite run_history_chain in H.
  apply (chain_no_dangling _ _ _ _ _ _ [] (init_start_ok _ _) (init_Bd _ _) (init_V _ _)) with (row := row) (n := n) (T := T) (i := i) in H;
    try assumption.
  intros U _. cbn. unfold last_id. cbn. constructor.
Qed.
