(* ContinuationP.v — proofs about theories/Continuation.v (property C05). *)
From Coq Require Import ZArith List Bool String Ascii Lia Permutation.
From SFV Require Import Base Continuation.
Import ListNotations.
Open Scope string_scope.

(* ------------------------------------------------------------------ sorting by key *)
Section SortKeys.
  Context {A : Type}.

  Definition key_le (x y : string * A) : Prop := String.leb (fst x) (fst y) = true.

  (* locally sorted: each element is <= its successor *)
  Fixpoint lsorted (l : smap A) : Prop :=
    match l with
    | [] => True
    | x :: r => match r with [] => True | y :: _ => key_le x y end /\ lsorted r
    end.

  Lemma insert_perm (x : string * A) l : Permutation (insert_key x l) (x :: l).
  Proof.
    induction l as [|y r IH]; cbn [insert_key]; [reflexivity|].
    destruct (String.leb (fst x) (fst y)); [reflexivity|].
    rewrite IH. apply perm_swap.
  Qed.

  Lemma sort_perm (l : smap A) : Permutation (sort_keys l) l.
  Proof.
    induction l as [|x r IH]; cbn [sort_keys]; [reflexivity|].
    rewrite insert_perm. constructor. exact IH.
  Qed.

  Lemma insert_sorted (x : string * A) l : lsorted l -> lsorted (insert_key x l).
  Proof.
    induction l as [|y r IH]; cbn [insert_key lsorted]; [tauto|].
    intros [Hy Hr]. destruct (String.leb (fst x) (fst y)) eqn:E.
    - cbn [lsorted]. unfold key_le. tauto.
    - assert (Hyx : key_le y x).
      { unfold key_le. destruct (String.leb_total (fst x) (fst y)) as [H|H]; [congruence|exact H]. }
      specialize (IH Hr). cbn [lsorted]. split; [|exact IH].
      destruct r as [|z r']; cbn [insert_key]; [exact Hyx|].
      destruct (String.leb (fst x) (fst z)); [exact Hyx|exact Hy].
  Qed.

  Lemma sort_sorted (l : smap A) : lsorted (sort_keys l).
  Proof.
    induction l as [|x r IH]; cbn [sort_keys]; [exact I|]. apply insert_sorted, IH.
  Qed.

  Lemma sort_of_sorted (l : smap A) : lsorted l -> sort_keys l = l.
  Proof.
    induction l as [|x r IH]; cbn [sort_keys lsorted]; [reflexivity|].
    intros [Hx Hr]. rewrite (IH Hr). destruct r as [|y r']; cbn [insert_key]; [reflexivity|].
    unfold key_le in Hx. rewrite Hx. reflexivity.
  Qed.

  Lemma sort_idem (l : smap A) : sort_keys (sort_keys l) = sort_keys l.
  Proof. apply sort_of_sorted, sort_sorted. Qed.

  Lemma forallb_insert (p : string * A -> bool) x l :
    forallb p (insert_key x l) = p x && forallb p l.
  Proof.
    induction l as [|y r IH]; cbn [insert_key forallb]; [reflexivity|].
    destruct (String.leb (fst x) (fst y)); cbn [forallb]; [reflexivity|].
    rewrite IH. destruct (p x), (p y); reflexivity.
  Qed.

  Lemma forallb_sort (p : string * A -> bool) l : forallb p (sort_keys l) = forallb p l.
  Proof.
    induction l as [|x r IH]; cbn [sort_keys forallb]; [reflexivity|].
    rewrite forallb_insert, IH. reflexivity.
  Qed.

  Lemma filter_all (p : string * A -> bool) l : forallb p l = true -> filter p l = l.
  Proof.
    induction l as [|x r IH]; cbn [forallb filter]; [reflexivity|].
    intros H. apply andb_true_iff in H. destruct H as [Hx Hr]. rewrite Hx, (IH Hr). reflexivity.
  Qed.

  Lemma forallb_filter (p : string * A -> bool) l : forallb p (filter p l) = true.
  Proof.
    induction l as [|x r IH]; cbn [filter forallb]; [reflexivity|].
    destruct (p x) eqn:E; cbn [forallb]; [rewrite E|]; exact IH.
  Qed.

  (* ---- lookups ---- *)
  Lemma nodup_keys_NoDup (m : smap A) : nodup_keys m = true -> NoDup (map fst m).
  Proof.
    induction m as [|[k v] r IH]; cbn [nodup_keys map fst]; [constructor|].
    intros H. apply andb_true_iff in H. destruct H as [Hk Hr]. constructor; [|auto].
    intros Hin. apply negb_true_iff in Hk. apply in_map_iff in Hin. destruct Hin as [[k' v'] [E Hin]].
    cbn [fst] in E. subst k'.
    assert (existsb (fun kv : string * A => String.eqb k (fst kv)) r = true).
    { apply existsb_exists. exists (k, v'). split; [exact Hin|]. cbn [fst]. apply String.eqb_refl. }
    congruence.
  Qed.

  Lemma lookup_In (m : smap A) k v : NoDup (map fst m) -> (lookup k m = Some v <-> In (k, v) m).
  Proof.
    induction m as [|[k' v'] r IH]; cbn [lookup map fst In].
    - intros _. split; [discriminate|tauto].
    - intros H. inversion H as [|? ? Hk Hr]; subst. specialize (IH Hr).
      destruct (String.eqb k k') eqn:E.
      + apply String.eqb_eq in E. subst k'. split.
        * intros [= ->]. auto.
        * intros [[= ->]|Hin]; [reflexivity|]. exfalso. apply Hk. apply in_map_iff. exists (k, v). auto.
      + apply String.eqb_neq in E. rewrite IH. split; [auto|].
        intros [[= -> ->]|Hin]; [congruence|exact Hin].
  Qed.

  Lemma lookup_perm (m1 m2 : smap A) k :
    NoDup (map fst m1) -> Permutation m1 m2 -> lookup k m1 = lookup k m2.
  Proof.
    intros H1 HP.
    assert (H2 : NoDup (map fst m2)) by (eapply Permutation_NoDup; [apply Permutation_map; exact HP|exact H1]).
    destruct (lookup k m1) eqn:E1.
    - apply (lookup_In _ _ _ H1) in E1. symmetry. apply (lookup_In _ _ _ H2).
      eapply Permutation_in; eauto.
    - destruct (lookup k m2) eqn:E2; [|reflexivity].
      apply (lookup_In _ _ _ H2) in E2. apply Permutation_sym in HP.
      assert (In (k, a) m1) by (eapply Permutation_in; eauto).
      apply (lookup_In _ _ _ H1) in H. congruence.
  Qed.

  Lemma lookup_sort (m : smap A) k : nodup_keys m = true -> lookup k (sort_keys m) = lookup k m.
  Proof.
    intros H. symmetry. apply lookup_perm; [apply nodup_keys_NoDup, H|].
    apply Permutation_sym, sort_perm.
  Qed.
End SortKeys.

Lemma insert_map_vals {A B} (f : A -> B) (x : string * A) l :
  insert_key (fst x, f (snd x)) (map_vals f l) = map_vals f (insert_key x l).
Proof.
  induction l as [|y r IH]; cbn [insert_key map_vals map fst snd]; [reflexivity|].
  destruct (String.leb (fst x) (fst y)); cbn [map fst snd]; [reflexivity|].
  f_equal. exact IH.
Qed.

Lemma sort_map_vals {A B} (f : A -> B) l : sort_keys (map_vals f l) = map_vals f (sort_keys l).
Proof.
  induction l as [|x r IH]; cbn [sort_keys map_vals map]; [reflexivity|].
  fold (map_vals f r). rewrite IH. apply insert_map_vals.
Qed.

Lemma lookup_map_vals {A B} (f : A -> B) (m : smap A) k :
  lookup k (map_vals f m) = option_map f (lookup k m).
Proof.
  induction m as [|[k' v] r IH]; cbn [map_vals map lookup fst snd option_map]; [reflexivity|].
  destruct (String.eqb k k'); [reflexivity|exact IH].
Qed.

Lemma map_vals_map_vals {A B C} (f : A -> B) (g : B -> C) (m : smap A) :
  map_vals g (map_vals f m) = map_vals (fun x => g (f x)) m.
Proof. unfold map_vals. rewrite map_map. reflexivity. Qed.

Lemma map_vals_ext {A B} (f g : A -> B) (m : smap A) :
  (forall x, f x = g x) -> map_vals f m = map_vals g m.
Proof. intros H. unfold map_vals. apply map_ext. intros [k v]. cbn [fst snd]. rewrite H. reflexivity. Qed.

Lemma map_vals_keys {A B} (f : A -> B) (m : smap A) : map fst (map_vals f m) = map fst m.
Proof. unfold map_vals. rewrite map_map. reflexivity. Qed.

(* ------------------------------------------------------------------ shape of the saved tree *)
Lemma sort_tree_map m : sort_tree (TMap m) = TMap (sort_keys (map_vals sort_tree m)).
Proof.
  cbn [sort_tree]. f_equal. f_equal. unfold map_vals. apply map_ext. intros [k v]. reflexivity.
Qed.

Lemma sort_tree_map1 k a : sort_tree (TMap [(k, a)]) = TMap [(k, sort_tree a)].
Proof. rewrite sort_tree_map. reflexivity. Qed.

Lemma sort_tree_map2 k1 a k2 b :
  sort_tree (TMap [(k1, a); (k2, b)]) = TMap (sort_keys [(k1, sort_tree a); (k2, sort_tree b)]).
Proof. rewrite sort_tree_map. reflexivity. Qed.

Lemma sort_tree_map6 k1 a k2 b k3 c k4 d k5 e k6 f :
  sort_tree (TMap [(k1, a); (k2, b); (k3, c); (k4, d); (k5, e); (k6, f)]) =
  TMap (sort_keys [(k1, sort_tree a); (k2, sort_tree b); (k3, sort_tree c); (k4, sort_tree d);
                   (k5, sort_tree e); (k6, sort_tree f)]).
Proof. rewrite sort_tree_map. reflexivity. Qed.


(* a row as it appears in the file *)
Definition srow (r : row) : tree :=
  TMap [("_tablename", TVal (VStr (r_table r)));
        ("_values", TMap (map_vals TVal (sort_keys (filter nonrow (r_values r)))))].

Definition sdep (d : dep) : tree :=
  TMap [("field_name", TVal (VStr (d_field d)));
        ("table_name_from", TVal (VStr (d_from d)));
        ("table_name_to", TVal (VStr (d_to d)))].

Definition sidm (ids : smap Z) : tree :=
  TMap [("last_used_ids", TMap (map_vals (fun z => TVal (VInt z)) (sort_keys ids)))].

Definition shape (idm deps nat nicks tables today : tree) : tree :=
  TMap [("id_manager", idm); ("intertable_dependencies", deps); ("nicknames_and_tables", nat);
        ("persistent_nicknames", nicks); ("persistent_objects_by_table", tables); ("today", today)].

Lemma sort_scalars {A} (f : A -> value) (m : smap A) :
  sort_tree (TMap (map_vals (fun x => TVal (f x)) m)) = TMap (map_vals (fun x => TVal (f x)) (sort_keys m)).
Proof.
  rewrite sort_tree_map, map_vals_map_vals. cbn [sort_tree]. rewrite sort_map_vals. reflexivity.
Qed.

Lemma sort_tvals (m : smap value) :
  sort_tree (TMap (map_vals TVal m)) = TMap (map_vals TVal (sort_keys m)).
Proof. exact (sort_scalars (fun v : value => v) m). Qed.

Lemma sort_row_state r : sort_tree (row_state r) = srow r.
Proof.
  unfold row_state, srow. rewrite sort_tree_map2.
  change (sort_tree (TVal (VStr (r_table r)))) with (TVal (VStr (r_table r))).
  fold nonrow. rewrite sort_tvals. reflexivity.
Qed.

Lemma sort_rows_state m : sort_tree (rows_state m) = TMap (map_vals srow (sort_keys m)).
Proof.
  unfold rows_state. rewrite sort_tree_map, map_vals_map_vals.
  rewrite (map_vals_ext _ srow) by apply sort_row_state.
  rewrite sort_map_vals. reflexivity.
Qed.

Lemma sort_dep_state d : sort_tree (dep_state d) = sdep d.
Proof. reflexivity. Qed.

Lemma sort_idm_state ids : sort_tree (idm_state ids) = sidm ids.
Proof.
  unfold idm_state, sidm. rewrite sort_tree_map1.
  rewrite (sort_scalars (fun z => VInt z)). reflexivity.
Qed.

Lemma sort6 (a b c d e f : tree) :
  sort_keys [("persistent_nicknames", a); ("persistent_objects_by_table", b); ("id_manager", c);
             ("today", d); ("nicknames_and_tables", e); ("intertable_dependencies", f)] =
  [("id_manager", c); ("intertable_dependencies", f); ("nicknames_and_tables", e);
   ("persistent_nicknames", a); ("persistent_objects_by_table", b); ("today", d)].
Proof. reflexivity. Qed.

Lemma save_shape g :
  save g = shape (sidm (g_last_used g))
                 (TList (map sdep (g_deps g)))
                 (TMap (map_vals (fun s => TVal (VStr s)) (sort_keys (g_nat g))))
                 (TMap (map_vals srow (sort_keys (g_nicks g))))
                 (TMap (map_vals srow (sort_keys (g_tables g))))
                 (TVal (g_today g)).
Proof.
  unfold save, getstate, shape. rewrite sort_tree_map6.
  rewrite sort6. rewrite !sort_rows_state, sort_idm_state.
  rewrite (sort_scalars (fun s => VStr s)).
  change (sort_tree (TVal (g_today g))) with (TVal (g_today g)).
  replace (sort_tree (TList (map dep_state (g_deps g)))) with (TList (map sdep (g_deps g))).
  - reflexivity.
  - cbn [sort_tree]. rewrite map_map. f_equal.
Qed.

(* ------------------------------------------------------------------ loading the saved tree *)
Definition norm_row (r : row) : row :=
  mkRow (r_table r) (sort_keys (filter nonrow (r_values r))).

(* the state rebuilt from the file written for g *)
Definition norm (g : globals) : globals :=
  let ids := sort_keys (g_last_used g) in
  let nat := sort_keys (g_nat g) in
  mkGlobals ids (map_vals (fun z => z + 1) ids)
            (map_vals norm_row (sort_keys (g_nicks g)))
            (map_vals norm_row (sort_keys (g_tables g)))
            nat (g_today g) (dedup (g_deps g)) (mkTr nat ids) [].

Lemma mapM_values (vs : smap value) : mapM load_value_entry (map_vals TVal vs) = Ok vs.
Proof.
  induction vs as [|[k v] r IH]; cbn [map_vals map mapM fst snd]; [reflexivity|].
  fold (map_vals TVal r). rewrite IH. reflexivity.
Qed.

Lemma load_srow r : load_row (srow r) = Ok (norm_row r).
Proof.
  unfold srow, norm_row.
  transitivity (do vals <- mapM load_value_entry
                                (map_vals TVal (sort_keys (filter nonrow (r_values r))));
                Ok (mkRow (r_table r) vals)); [reflexivity|].
  rewrite mapM_values. reflexivity.
Qed.

Lemma mapM_srows (m : smap row) : mapM load_row_entry (map_vals srow m) = Ok (map_vals norm_row m).
Proof.
  induction m as [|[k r] rest IH]; cbn [map_vals map mapM fst snd]; [reflexivity|].
  fold (map_vals srow rest). fold (map_vals norm_row rest). rewrite IH.
  unfold load_row_entry at 1. cbn [fst snd]. rewrite load_srow. reflexivity.
Qed.

Lemma load_rows_srows m : load_rows (TMap (map_vals srow m)) = Ok (map_vals norm_row m).
Proof. apply mapM_srows. Qed.

Lemma load_tables_srows m : load_tables (Some (TMap (map_vals srow m))) = Ok (map_vals norm_row m).
Proof.
  destruct m as [|x r]; [reflexivity|]. apply (mapM_srows (x :: r)).
Qed.

Lemma mapM_ids (ids : smap Z) :
  mapM load_id_entry (map_vals (fun z => TVal (VInt z)) ids) = Ok ids.
Proof.
  induction ids as [|[k v] r IH]; cbn [map_vals map mapM fst snd]; [reflexivity|].
  fold (map_vals (fun z => TVal (VInt z)) r). rewrite IH. reflexivity.
Qed.

Lemma load_sidm ids : load_idm (sidm ids) = Ok (sort_keys ids).
Proof.
  unfold sidm.
  transitivity (mapM load_id_entry (map_vals (fun z => TVal (VInt z)) (sort_keys ids))); [reflexivity|].
  apply mapM_ids.
Qed.

Lemma mapM_nat (m : smap string) :
  mapM load_nat_entry (map_vals (fun s => TVal (VStr s)) m) = Ok m.
Proof.
  induction m as [|[k v] r IH]; cbn [map_vals map mapM fst snd]; [reflexivity|].
  fold (map_vals (fun s => TVal (VStr s)) r). rewrite IH. reflexivity.
Qed.

Lemma load_sdep d : load_dep (sdep d) = Ok d.
Proof. destruct d. reflexivity. Qed.

Lemma mapM_sdeps ds : mapM load_dep (map sdep ds) = Ok ds.
Proof.
  induction ds as [|d r IH]; cbn [map mapM]; [reflexivity|]. rewrite load_sdep, IH. reflexivity.
Qed.

Lemma load_shape idm deps nat nicks tables today :
  load (shape idm (TList deps) nat nicks tables today) =
  (do nk <- load_rows nicks;
   do ids <- load_idm idm;
   do ds0 <- mapM load_dep deps;
   do td <- as_value today;
   do tb <- load_tables (Some tables);
   do nt <- load_nat nat;
   Ok (mkGlobals ids (map_vals (fun z => z + 1) ids) nk tb nt td (dedup ds0) (mkTr nt ids) [])).
Proof.
  unfold shape, load. cbn [lookup String.eqb Ascii.eqb Bool.eqb require load_rows_default load_deps bind].
  destruct (load_rows nicks); [|reflexivity]. cbn [bind].
  destruct (load_idm idm); [|reflexivity]. cbn [bind].
  destruct (mapM load_dep deps); reflexivity.
Qed.

Theorem load_save_norm g : load (save g) = Ok (norm g).
Proof.
  rewrite save_shape, load_shape.
  rewrite load_rows_srows. cbn [bind].
  rewrite load_sidm. cbn [bind].
  rewrite mapM_sdeps. cbn [bind as_value].
  rewrite load_tables_srows. cbn [bind load_nat].
  rewrite mapM_nat. reflexivity.
Qed.

Lemma filter_all_list {A} (p : A -> bool) (l : list A) : forallb p l = true -> filter p l = l.
Proof.
  induction l as [|x r IH]; cbn [forallb filter]; [reflexivity|].
  intros H. apply andb_true_iff in H. destruct H as [Hx Hr]. rewrite Hx, (IH Hr). reflexivity.
Qed.

(* ------------------------------------------------------------------ what "restored" means *)
Lemma lookup_filter {A} (p : string * A -> bool) (m : smap A) k :
  NoDup (map fst m) ->
  lookup k (filter p m) = match lookup k m with
                          | Some v => if p (k, v) then Some v else None
                          | None => None
                          end.
Proof.
  induction m as [|[k' v] r IH]; cbn [filter lookup map fst]; [reflexivity|].
  intros H. inversion H as [|? ? Hk Hr]; subst. specialize (IH Hr).
  destruct (String.eqb k k') eqn:E.
  - apply String.eqb_eq in E. subst k'. destruct (p (k, v)) eqn:P.
    + cbn [lookup]. rewrite String.eqb_refl. reflexivity.
    + rewrite IH. destruct (lookup k r) eqn:L; [|reflexivity].
      exfalso. apply Hk. apply (lookup_In r k a Hr) in L. apply in_map_iff. exists (k, a). auto.
  - destruct (p (k', v)); [cbn [lookup]; rewrite E|]; exact IH.
Qed.

Lemma NoDup_keys_filter {A} (p : string * A -> bool) (m : smap A) :
  NoDup (map fst m) -> NoDup (map fst (filter p m)).
Proof.
  induction m as [|[k v] r IH]; cbn [filter map fst]; [constructor|].
  intros H. inversion H as [|? ? Hk Hr]; subst. destruct (p (k, v)); [|auto].
  cbn [map fst]. constructor; [|auto]. intros Hin. apply Hk.
  apply in_map_iff in Hin. destruct Hin as [[k' v'] [E Hin]]. apply filter_In in Hin.
  apply in_map_iff. exists (k', v'). tauto.
Qed.

Lemma norm_row_fields r f :
  nodup_keys (r_values r) = true -> lookup f (r_values (norm_row r)) = field_after r f.
Proof.
  intros H. unfold norm_row, field_after. cbn [r_values].
  pose proof (nodup_keys_NoDup _ H) as ND.
  rewrite <- (lookup_perm (filter nonrow (r_values r)) _ f (NoDup_keys_filter _ _ ND)
                          (Permutation_sym (sort_perm _))).
  rewrite (lookup_filter _ _ _ ND). destruct (lookup f (r_values r)); [|reflexivity].
  unfold nonrow. cbn [snd]. destruct (is_row v); reflexivity.
Qed.

Lemma forallb_lookup {A} (p : string * A -> bool) (m : smap A) k v :
  forallb p m = true -> lookup k m = Some v -> p (k, v) = true.
Proof.
  induction m as [|[k' v'] r IH]; cbn [forallb lookup]; [discriminate|].
  intros H. apply andb_true_iff in H. destruct H as [H1 H2].
  destruct (String.eqb k k') eqn:E.
  - apply String.eqb_eq in E. subst. intros [= ->]. exact H1.
  - apply IH, H2.
Qed.

Lemma rows_restored_norm (m : smap row) :
  nodup_keys m = true ->
  forallb (fun kv => nodup_keys (r_values (snd kv))) m = true ->
  rows_restored field_after m (map_vals norm_row (sort_keys m)).
Proof.
  intros H1 H2 k. rewrite lookup_map_vals, (lookup_sort m k H1).
  destruct (lookup k m) as [r|] eqn:L; cbn [option_map]; [|reflexivity].
  exists (norm_row r). split; [reflexivity|]. split; [reflexivity|].
  intros f. apply norm_row_fields.
  exact (forallb_lookup (fun kv => nodup_keys (r_values (snd kv))) m k r H2 L).
Qed.

Lemma wf_parts g : wf g = true ->
  nodup_keys (g_last_used g) = true /\ nodup_keys (g_nicks g) = true /\
  nodup_keys (g_tables g) = true /\ nodup_keys (g_nat g) = true /\
  nodup_deps (g_deps g) = true /\
  forallb (fun kv => nodup_keys (r_values (snd kv))) (g_nicks g) = true /\
  forallb (fun kv => nodup_keys (r_values (snd kv))) (g_tables g) = true.
Proof. unfold wf. rewrite !andb_true_iff. tauto. Qed.

(* an OrderedSet holds no duplicates, so re-adding its elements changes nothing *)
Lemma dedup_nodup l : nodup_deps l = true -> dedup l = l.
Proof.
  induction l as [|d r IH]; cbn [dedup nodup_deps]; [reflexivity|].
  intros H. apply andb_true_iff in H. destruct H as [Hd Hr].
  rewrite (IH Hr). f_equal. apply filter_all_list.
  apply negb_true_iff in Hd. clear - Hd. induction r as [|y r IH]; [reflexivity|].
  cbn [existsb forallb] in *. apply orb_false_iff in Hd. destruct Hd as [H1 H2].
  rewrite H1, (IH H2). reflexivity.
Qed.

Theorem norm_restored_scalars g : wf g = true -> restored_scalars g (norm g).
Proof.
  intros W. destruct (wf_parts g W) as (Wids & Wn & Wt & Wnat & Wd & Wnv & Wtv).
  constructor; cbn [norm g_last_used g_start_ids g_nicks g_tables g_nat g_today
                         g_deps g_transients tr_slots tr_orig].
  - intros k. apply lookup_sort. assumption.
  - intros t. rewrite lookup_map_vals, lookup_sort by assumption. reflexivity.
  - apply rows_restored_norm; assumption.
  - apply rows_restored_norm; assumption.
  - intros k. apply lookup_sort. assumption.
  - reflexivity.
  - apply dedup_nodup. assumption.
  - intros k. apply lookup_sort. assumption.
  - intros k. apply lookup_sort. assumption.
Qed.

(* ------------------------------------------------------------------ full restoration for snapshot_ok states *)
Lemma snapshot_parts g : snapshot_ok g = true ->
  wf g = true /\ representable_value (g_today g) = true /\
  forallb (fun kv => row_ok (snd kv)) (g_nicks g) = true /\
  forallb (fun kv => row_ok (snd kv)) (g_tables g) = true.
Proof. unfold snapshot_ok. rewrite !andb_true_iff. tauto. Qed.

Lemma row_ok_field_after r f : row_ok r = true -> field_after r f = field_full r f.
Proof.
  unfold row_ok, field_after, field_full. intros H.
  destruct (lookup f (r_values r)) as [v|] eqn:L; [|reflexivity].
  pose proof (forallb_lookup (fun kv => representable_value (snd kv)) _ f v H L) as P.
  cbn [snd] in P. destruct v; try reflexivity; discriminate.
Qed.

Lemma rows_restored_full (m m' : smap row) :
  forallb (fun kv => row_ok (snd kv)) m = true ->
  rows_restored field_after m m' -> rows_restored field_full m m'.
Proof.
  intros Hok H k. specialize (H k). destruct (lookup k m) as [r|] eqn:L; [|exact H].
  destruct H as (r' & H1 & H2 & H3). exists r'. split; [exact H1|]. split; [exact H2|].
  intros f. rewrite H3. apply row_ok_field_after.
  exact (forallb_lookup (fun kv => row_ok (snd kv)) m k r Hok L).
Qed.

Theorem norm_restored g : snapshot_ok g = true -> restored g (norm g).
Proof.
  intros S. destruct (snapshot_parts g S) as (W & _ & Hn & Ht).
  destruct (norm_restored_scalars g W). constructor; try assumption.
  - apply rows_restored_full; assumption.
  - apply rows_restored_full; assumption.
Qed.

Theorem load_save_restored g :
  snapshot_ok g = true -> exists g', load (save g) = Ok g' /\ restored g g'.
Proof. intros S. exists (norm g). split; [apply load_save_norm|apply norm_restored, S]. Qed.

Theorem load_save_restored_scalars g :
  wf g = true -> exists g', load (save g) = Ok g' /\ restored_scalars g g'.
Proof. intros W. exists (norm g). split; [apply load_save_norm|apply norm_restored_scalars, W]. Qed.

(* ------------------------------------------------------------------ load + save reproduces the file *)
Lemma srow_norm_row r : srow (norm_row r) = srow r.
Proof.
  unfold srow, norm_row. cbn [r_table r_values].
  rewrite (filter_all nonrow (sort_keys (filter nonrow (r_values r)))).
  - rewrite sort_idem. reflexivity.
  - rewrite forallb_sort. apply forallb_filter.
Qed.

Lemma srows_norm (m : smap row) :
  map_vals srow (sort_keys (map_vals norm_row (sort_keys m))) = map_vals srow (sort_keys m).
Proof.
  rewrite sort_map_vals, sort_idem, map_vals_map_vals.
  apply map_vals_ext. apply srow_norm_row.
Qed.

Theorem save_norm g : nodup_deps (g_deps g) = true -> save (norm g) = save g.
Proof.
  intros Hd. rewrite !save_shape.
  cbn [norm g_last_used g_nicks g_tables g_nat g_today g_deps].
  rewrite !srows_norm, (dedup_nodup _ Hd). unfold sidm. rewrite !sort_idem. reflexivity.
Qed.

Theorem save_load_save g g' :
  nodup_deps (g_deps g) = true -> load (save g) = Ok g' -> save g' = save g.
Proof. intros Hd H. rewrite load_save_norm in H. injection H as <-. apply save_norm, Hd. Qed.

(* ------------------------------------------------------------------ when does writing succeed *)
Lemma representable_map_vals {A} (f : A -> tree) (m : smap A) :
  representable (TMap (map_vals f m)) = forallb (fun kv => representable (f (snd kv))) m.
Proof.
  cbn [representable]. induction m as [|[k v] r IH]; cbn [map_vals map forallb fst snd]; [reflexivity|].
  fold (map_vals f r). rewrite IH. reflexivity.
Qed.

Lemma forallb_ext' {A} (p q : A -> bool) (l : list A) :
  (forall x, p x = q x) -> forallb p l = forallb q l.
Proof. intros H. induction l as [|x r IH]; cbn [forallb]; [reflexivity|]. rewrite H, IH. reflexivity. Qed.

Lemma forallb_const_true {A} (m : list A) : forallb (fun _ => true) m = true.
Proof. induction m; cbn [forallb]; auto. Qed.

Lemma representable_srow r : representable (srow r) = row_dumpable r.
Proof.
  unfold srow, row_dumpable. cbn [representable forallb representable_value].
  rewrite andb_true_r.
  change (forallb (fun kv : string * tree => let (_, v) := kv in representable v)
                  (map_vals TVal (sort_keys (filter nonrow (r_values r)))))
    with (representable (TMap (map_vals TVal (sort_keys (filter nonrow (r_values r)))))).
  rewrite representable_map_vals. cbn [representable]. apply forallb_sort.
Qed.

Lemma representable_srows (m : smap row) :
  representable (TMap (map_vals srow (sort_keys m))) = forallb (fun kv => row_dumpable (snd kv)) m.
Proof.
  rewrite representable_map_vals.
  rewrite (forallb_sort (fun kv => representable (srow (snd kv))) m).
  apply forallb_ext'. intros [k r]. cbn [snd]. apply representable_srow.
Qed.

Theorem representable_save g :
  representable (save g) =
  representable_value (g_today g) &&
  forallb (fun kv => row_dumpable (snd kv)) (g_nicks g) &&
  forallb (fun kv => row_dumpable (snd kv)) (g_tables g).
Proof.
  rewrite save_shape. unfold shape.
  cbn [representable forallb].
  change (forallb (fun kv : string * tree => let (_, v) := kv in representable v)
                  (map_vals srow (sort_keys (g_nicks g))))
    with (representable (TMap (map_vals srow (sort_keys (g_nicks g))))).
  change (forallb (fun kv : string * tree => let (_, v) := kv in representable v)
                  (map_vals srow (sort_keys (g_tables g))))
    with (representable (TMap (map_vals srow (sort_keys (g_tables g))))).
  rewrite !representable_srows.
  replace (representable (sidm (g_last_used g))) with true.
  2:{ unfold sidm. cbn [representable forallb]. rewrite andb_true_r.
      change (forallb (fun kv : string * tree => let (_, v) := kv in representable v)
                      (map_vals (fun z : Z => TVal (VInt z)) (sort_keys (g_last_used g))))
        with (representable (TMap (map_vals (fun z : Z => TVal (VInt z)) (sort_keys (g_last_used g))))).
      rewrite representable_map_vals. cbn [representable representable_value].
      symmetry. apply forallb_const_true. }
  replace (forallb representable (map sdep (g_deps g))) with true.
  2:{ symmetry. induction (g_deps g) as [|d r IH]; cbn [map forallb]; [reflexivity|].
      rewrite IH. reflexivity. }
  change (forallb (fun kv : string * tree => let (_, v) := kv in representable v)
                  (map_vals (fun s : string => TVal (VStr s)) (sort_keys (g_nat g))))
    with (representable (TMap (map_vals (fun s : string => TVal (VStr s)) (sort_keys (g_nat g))))).
  rewrite representable_map_vals. cbn [representable representable_value].
  rewrite forallb_const_true. cbn [andb].
  rewrite andb_true_r. 
  destruct (representable_value (g_today g)),
           (forallb (fun kv => row_dumpable (snd kv)) (g_nicks g)),
           (forallb (fun kv => row_dumpable (snd kv)) (g_tables g)); reflexivity.
Qed.

Lemma forallb_filter_weaken {A} (p q : A -> bool) (l : list A) :
  forallb p l = true -> forallb p (filter q l) = true.
Proof.
  induction l as [|x r IH]; cbn [forallb filter]; [reflexivity|].
  intros H. apply andb_true_iff in H. destruct H as [Hx Hr].
  destruct (q x); cbn [forallb]; [rewrite Hx|]; auto.
Qed.

Lemma row_ok_dumpable r : row_ok r = true -> row_dumpable r = true.
Proof. apply forallb_filter_weaken. Qed.

Theorem dump_total g : snapshot_ok g = true -> dump_check g = Ok (save g).
Proof.
  intros S. destruct (snapshot_parts g S) as (_ & Ht & Hn & Hb).
  unfold dump_check. rewrite representable_save, Ht. cbn [andb].
  assert (E : forall m : smap row, forallb (fun kv => row_ok (snd kv)) m = true ->
                                   forallb (fun kv => row_dumpable (snd kv)) m = true).
  { induction m as [|[k r] rest IH]; cbn [forallb snd]; [reflexivity|].
    intros H. apply andb_true_iff in H. destruct H as [H1 H2].
    rewrite (row_ok_dumpable r H1), (IH H2). reflexivity. }
  rewrite (E _ Hn), (E _ Hb). reflexivity.
Qed.

(* ------------------------------------------------------------------ chains of write / read steps *)
Lemma dump_check_ok g t : dump_check g = Ok t -> t = save g.
Proof. unfold dump_check. destruct (representable (save g)); [intros [= <-]; reflexivity|discriminate]. Qed.

Theorem chain_save n : forall g g',
  nodup_deps (g_deps g) = true -> chain n g = Ok g' ->
  save g' = save g /\ nodup_deps (g_deps g') = true.
Proof.
  induction n as [|n IH]; intros g g' Hd H; cbn [chain] in H.
  - injection H as <-. auto.
  - destruct (dump_check g) as [t|] eqn:D; [|discriminate]. cbn [bind] in H.
    apply dump_check_ok in D. subst t. rewrite load_save_norm in H. cbn [bind] in H.
    assert (Hd' : nodup_deps (g_deps (norm g)) = true).
    { cbn [norm g_deps]. rewrite dedup_nodup; assumption. }
    destruct (IH _ _ Hd' H) as [E1 E2]. split; [|exact E2].
    rewrite E1. apply save_norm, Hd.
Qed.

(* a chain never gets stuck once the first write succeeded *)
Theorem chain_total n : forall g,
  nodup_deps (g_deps g) = true -> is_ok (dump_check g) = true ->
  exists g', chain n g = Ok g' /\ dump_check g' = dump_check g.
Proof.
  induction n as [|n IH]; intros g Hd Hok; cbn [chain].
  - exists g. auto.
  - destruct (dump_check g) as [t|] eqn:D; [|discriminate]. cbn [bind].
    pose proof (dump_check_ok _ _ D) as ->. rewrite load_save_norm. cbn [bind].
    assert (Hd' : nodup_deps (g_deps (norm g)) = true).
    { cbn [norm g_deps]. rewrite dedup_nodup; assumption. }
    assert (E : dump_check (norm g) = dump_check g).
    { unfold dump_check. rewrite (save_norm g Hd). reflexivity. }
    destruct (IH (norm g) Hd') as (g' & H1 & H2); [rewrite E, D; reflexivity|].
    exists g'. split; [exact H1|]. rewrite H2, E, D. reflexivity.
Qed.

Theorem dump_check_spec g :
  dump_check g =
  if representable_value (g_today g) &&
     forallb (fun kv => row_dumpable (snd kv)) (g_nicks g) &&
     forallb (fun kv => row_dumpable (snd kv)) (g_tables g)
  then Ok (save g) else representer_error.
Proof. unfold dump_check. rewrite representable_save. reflexivity. Qed.

(* ------------------------------------------------------------------ the YAML text layer *)
Section YamlText.
  Variable text : Type.
  (* yaml.dump on the key-sorted tree of a state (None = RepresenterError) *)
  Variable yaml_dump : tree -> option text.
  (* yaml.safe_load *)
  Variable yaml_load : text -> option tree.
  (* trees the law is claimed for (e.g. every opaque token stands for a Python value) *)
  Variable good : tree -> bool.

  (* the round-trip law of the text layer: what was written is read back, scalar by scalar with
     its type, mapping by mapping in file order *)
  Hypothesis yaml_roundtrip :
    forall t, representable (sort_tree t) = true -> good (sort_tree t) = true ->
              exists txt, yaml_dump (sort_tree t) = Some txt /\ yaml_load txt = Some (sort_tree t).

  Local Notation write_file := (write_file text yaml_dump).
  Local Notation read_file := (read_file text yaml_load).
  Local Notation rewrite_chain := (rewrite_chain text yaml_dump yaml_load).

  Lemma write_file_ok g txt :
    write_file g = Ok txt -> yaml_dump (save g) = Some txt /\ representable (save g) = true.
  Proof.
    unfold write_file, dump_check. destruct (representable (save g)); [|discriminate].
    cbn [bind]. destruct (yaml_dump (save g)); [|discriminate]. intros [= <-]. auto.
  Qed.

  Lemma read_written g txt :
    representable (save g) = true -> good (save g) = true -> yaml_dump (save g) = Some txt ->
    read_file txt = Ok (norm g).
  Proof.
    intros R G D. unfold read_file, save in *. destruct (yaml_roundtrip _ R G) as (txt' & D' & L).
    rewrite D in D'. injection D' as <-. rewrite L. apply load_save_norm.
  Qed.

  Theorem write_total g :
    snapshot_ok g = true -> good (save g) = true ->
    exists txt, write_file g = Ok txt /\ yaml_dump (save g) = Some txt.
  Proof.
    intros S G. pose proof (dump_total g S) as D.
    assert (R : representable (save g) = true).
    { unfold dump_check in D. destruct (representable (save g)); [reflexivity|discriminate]. }
    unfold save in *. destruct (yaml_roundtrip _ R G) as (txt & Dm & _).
    exists txt. split; [|exact Dm]. unfold write_file. rewrite D. cbn [bind]. unfold save. now rewrite Dm.
  Qed.

  Theorem read_write g :
    snapshot_ok g = true -> good (save g) = true ->
    exists txt g', write_file g = Ok txt /\ read_file txt = Ok g' /\ restored g g'.
  Proof.
    intros S G. destruct (write_total g S G) as (txt & W & D).
    exists txt, (norm g). split; [exact W|]. split.
    - apply read_written; [|exact G|exact D]. exact (proj2 (write_file_ok _ _ W)).
    - apply norm_restored, S.
  Qed.

  Theorem rewrite_same g txt g' :
    nodup_deps (g_deps g) = true -> good (save g) = true ->
    write_file g = Ok txt -> read_file txt = Ok g' -> write_file g' = Ok txt.
  Proof.
    intros Hd G Hw Hr. destruct (write_file_ok _ _ Hw) as [D R].
    rewrite (read_written g txt R G D) in Hr. injection Hr as <-.
    unfold write_file, dump_check in *. rewrite (save_norm g Hd). exact Hw.
  Qed.

  Theorem rewrite_chain_same n : forall g txt,
    nodup_deps (g_deps g) = true -> good (save g) = true ->
    write_file g = Ok txt -> rewrite_chain n txt = Ok txt.
  Proof.
    induction n as [|n IH]; intros g txt Hd G Hw; cbn [rewrite_chain]; [reflexivity|].
    destruct (write_file_ok _ _ Hw) as [D R].
    rewrite (read_written g txt R G D). cbn [bind].
    assert (Hw' : write_file (norm g) = Ok txt).
    { apply (rewrite_same g _ (norm g) Hd G Hw). apply read_written; assumption. }
    rewrite Hw'. cbn [bind]. apply (IH (norm g)); [| |exact Hw'].
    - cbn [norm g_deps]. rewrite dedup_nodup; assumption.
    - rewrite (save_norm g Hd). exact G.
  Qed.
End YamlText.

(* the same with the law claimed for every tree (the statements of props/C05.v) *)
Section YamlTextAll.
  Variable text : Type.
  Variable yaml_dump : tree -> option text.
  Variable yaml_load : text -> option tree.
  Hypothesis yaml_roundtrip :
    forall t, representable (sort_tree t) = true ->
              exists txt, yaml_dump (sort_tree t) = Some txt /\ yaml_load txt = Some (sort_tree t).

  Theorem read_write_all g :
    snapshot_ok g = true ->
    exists txt g', write_file text yaml_dump g = Ok txt /\ read_file text yaml_load txt = Ok g' /\ restored g g'.
  Proof.
    intro S. apply (read_write text yaml_dump yaml_load (fun _ => true)); auto.
  Qed.

  Theorem rewrite_chain_same_all n g txt :
    nodup_deps (g_deps g) = true -> write_file text yaml_dump g = Ok txt ->
    rewrite_chain text yaml_dump yaml_load n txt = Ok txt.
  Proof.
    intros Hd W. apply (rewrite_chain_same text yaml_dump yaml_load (fun _ => true)) with (g := g); auto.
  Qed.
End YamlTextAll.

(* ------------------------------------------------------------------ induction over trees *)
Section TreeInd.
  Variable P : tree -> Prop.
  Hypothesis Hv : forall v, P (TVal v).
  Hypothesis Hl : forall l, Forall P l -> P (TList l).
  Hypothesis Hm : forall m, Forall (fun kv => P (snd kv)) m -> P (TMap m).

  Fixpoint tree_rect' (t : tree) : P t :=
    match t with
    | TVal v => Hv v
    | TList l =>
      Hl l ((fix go (l : list tree) : Forall P l :=
               match l with
               | [] => Forall_nil _
               | x :: r => Forall_cons x (tree_rect' x) (go r)
               end) l)
    | TMap m =>
      Hm m ((fix go (m : list (string * tree)) : Forall (fun kv => P (snd kv)) m :=
               match m with
               | [] => Forall_nil _
               | kv :: r => Forall_cons kv (tree_rect' (snd kv)) (go r)
               end) m)
    end.
End TreeInd.

Section NTreeInd.
  Variable P : ntree -> Prop.
  Hypothesis Hs : forall s, P (NS s).
  Hypothesis Hl : forall l, Forall P l -> P (NL l).
  Hypothesis Hm : forall m, Forall (fun kv => P (snd kv)) m -> P (NM m).

  Fixpoint ntree_rect' (t : ntree) : P t :=
    match t with
    | NS s => Hs s
    | NL l =>
      Hl l ((fix go (l : list ntree) : Forall P l :=
               match l with
               | [] => Forall_nil _
               | x :: r => Forall_cons x (ntree_rect' x) (go r)
               end) l)
    | NM m =>
      Hm m ((fix go (m : list (snode * ntree)) : Forall (fun kv => P (snd kv)) m :=
               match m with
               | [] => Forall_nil _
               | kv :: r => Forall_cons kv (ntree_rect' (snd kv)) (go r)
               end) m)
    end.
End NTreeInd.

(* ------------------------------------------------------------------ the modelled text layer *)
From SFV.P Require Import YamlScalarP.

(* the list loops of represent_tree / construct_tree as ordinary functions *)
Fixpoint opt_all {A} (l : list (option A)) : option (list A) :=
  match l with
  | [] => Some []
  | x :: r => match x, opt_all r with Some a, Some b => Some (a :: b) | _, _ => None end
  end.

Lemma opt_all_map_inv {A B} (f : A -> option B) (g : B -> option A) (l : list A) :
  Forall (fun x => forall y, f x = Some y -> g y = Some x) l ->
  forall ys, opt_all (map f l) = Some ys -> opt_all (map g ys) = Some l.
Proof.
  induction l as [|x r IH]; intros H ys E; cbn [map opt_all] in E.
  - injection E as <-. reflexivity.
  - inversion H as [|? ? Hx Hr]; subst.
    destruct (f x) as [y|] eqn:Ex; [|discriminate].
    destruct (opt_all (map f r)) as [ys'|] eqn:Er; [|discriminate]. injection E as <-.
    cbn [map opt_all]. rewrite (Hx y eq_refl), (IH Hr ys' eq_refl). reflexivity.
Qed.

Section YamlModelP.
  Variable float_text : string -> string.
  Variable date_text : Z -> string.
  Variable datetime_text : Z -> option Z -> string.
  Variable float_read : string -> option string.
  Variable timestamp_read : string -> option value.
  Variable decimal_read : string -> option string.

  Local Notation represent_value := (represent_value float_text date_text datetime_text).
  Local Notation represent_tree := (represent_tree float_text date_text datetime_text).
  Local Notation construct_scalar := (construct_scalar float_read timestamp_read decimal_read).
  Local Notation construct_tree := (construct_tree float_read timestamp_read decimal_read).
  Local Notation key_of := (key_of float_read timestamp_read decimal_read).

  Lemma represent_tree_list l :
    represent_tree (TList l) = option_map NL (opt_all (map represent_tree l)).
  Proof.
    cbn [Continuation.represent_tree]. f_equal.
    induction l as [|x r IH]; cbn [map opt_all]; [reflexivity|]. now rewrite IH.
  Qed.

  Lemma represent_tree_map m :
    represent_tree (TMap m) =
    option_map NM (opt_all (map (fun kv => option_map (fun a => (mkSN TgStr (fst kv), a)) (represent_tree (snd kv))) m)).
  Proof.
    cbn [Continuation.represent_tree]. f_equal.
    induction m as [|[k x] r IH]; cbn [map opt_all fst snd]; [reflexivity|]. rewrite IH.
    destruct (represent_tree x); reflexivity.
  Qed.

  Lemma construct_tree_list l :
    construct_tree (NL l) = option_map TList (opt_all (map construct_tree l)).
  Proof.
    cbn [Continuation.construct_tree]. f_equal.
    induction l as [|x r IH]; cbn [map opt_all]; [reflexivity|]. now rewrite IH.
  Qed.

  Lemma construct_tree_map m :
    construct_tree (NM m) =
    option_map TMap (opt_all (map (fun kv => match key_of (fst kv), construct_tree (snd kv) with
                                             | Some k, Some a => Some (k, a)
                                             | _, _ => None
                                             end) m)).
  Proof.
    cbn [Continuation.construct_tree]. f_equal.
    induction m as [|[k x] r IH]; cbn [map opt_all fst snd]; [reflexivity|]. rewrite IH.
    destruct (key_of k); [|reflexivity]. destruct (construct_tree x); reflexivity.
  Qed.

  (* the representer fails exactly on the values [representable_value] excludes *)
  Lemma represent_value_some v : representable_value v = true <-> exists n, represent_value v = Some n.
  Proof.
    destruct v; cbn [representable_value Continuation.represent_value]; split;
      try (intros _; eexists; reflexivity); try reflexivity; try discriminate;
      intros [n H]; discriminate.
  Qed.

  Lemma represent_tree_some t : representable t = true -> exists n, represent_tree t = Some n.
  Proof.
    induction t as [v|l IH|m IH] using tree_rect'.
    - cbn [representable Continuation.represent_tree]. intro R.
      apply represent_value_some in R as [n ->]. eexists. reflexivity.
    - intro R. rewrite represent_tree_list. cbn [representable] in R.
      assert (exists ns, opt_all (map represent_tree l) = Some ns) as [ns ->].
      { induction l as [|x r IHr]; cbn [map opt_all]; [eexists; reflexivity|].
        cbn [forallb] in R. apply andb_prop in R as [Rx Rr].
        inversion IH as [|? ? Px Pr]; subst.
        destruct (Px Rx) as [a ->]. destruct (IHr Pr Rr) as [b ->]. eexists. reflexivity. }
      eexists. reflexivity.
    - intro R. rewrite represent_tree_map. cbn [representable] in R.
      match goal with |- exists n, option_map NM (opt_all ?L) = Some n =>
        assert (exists ns, opt_all L = Some ns) as [ns ->] end.
      { induction m as [|[k x] r IHr]; cbn [map opt_all fst snd]; [eexists; reflexivity|].
        cbn [forallb] in R. apply andb_prop in R as [Rx Rr].
        inversion IH as [|? ? Px Pr]; subst. cbn [snd] in Px.
        destruct (Px Rx) as [a ->]. cbn [option_map]. destruct (IHr Pr Rr) as [b ->]. eexists. reflexivity. }
      eexists. reflexivity.
  Qed.

  Lemma represent_tree_none t : representable t = false -> represent_tree t = None.
  Proof.
    induction t as [v|l IH|m IH] using tree_rect'.
    - cbn [representable Continuation.represent_tree]. intro R.
      destruct (represent_value v) eqn:E; [|reflexivity].
      assert (representable_value v = true) by (apply represent_value_some; eauto). congruence.
    - intro R. rewrite represent_tree_list. cbn [representable] in R.
      assert (opt_all (map represent_tree l) = None) as ->; [|reflexivity].
      induction l as [|x r IHr]; cbn [map opt_all forallb] in *; [discriminate|].
      inversion IH as [|? ? Px Pr]; subst.
      destruct (representable x) eqn:Rx.
      + cbn [andb] in R. rewrite (IHr Pr R). destruct (represent_tree x); reflexivity.
      + now rewrite (Px eq_refl).
    - intro R. rewrite represent_tree_map. cbn [representable] in R.
      match goal with |- option_map NM (opt_all ?L) = None => assert (opt_all L = None) as ->; [|reflexivity] end.
      induction m as [|[k x] r IHr]; cbn [map opt_all forallb fst snd] in *; [discriminate|].
      inversion IH as [|? ? Px Pr]; subst. cbn [snd] in Px.
      destruct (representable x) eqn:Rx.
      + cbn [andb] in R. rewrite (IHr Pr R). destruct (represent_tree x); reflexivity.
      + now rewrite (Px eq_refl).
  Qed.

  (* tokens of the opaque kinds that stand for a Python value *)
  Variable token_ok : value -> bool.
  Local Notation tokens_ok := (tokens_ok token_ok).

  (* Python's / PyYAML's printers and parsers of float, date, datetime, Decimal invert each other *)
  Hypothesis codec_roundtrip :
    codec_law float_text date_text datetime_text float_read timestamp_read decimal_read token_ok.

  Lemma construct_represent_value v n :
    implb (opaque_value v) (token_ok v) = true ->
    represent_value v = Some n -> construct_scalar n = Some v.
  Proof.
    intros Hok R. destruct (opaque_value v) eqn:O.
    - cbn [implb] in Hok. now apply codec_roundtrip.
    - destruct v; try discriminate O; cbn [Continuation.represent_value] in R; try discriminate R;
        injection R as <-; unfold Continuation.construct_scalar; cbn [sn_tag sn_text].
      + reflexivity.
      + destruct b; reflexivity.
      + now rewrite construct_int_text.
      + reflexivity.
  Qed.

  Theorem construct_represent t : forall n,
    tokens_ok t = true -> represent_tree t = Some n -> construct_tree n = Some t.
  Proof.
    induction t as [v|l IH|m IH] using tree_rect'; intros n Hok R.
    - cbn [Continuation.represent_tree] in R. destruct (represent_value v) as [s|] eqn:E; [|discriminate].
      injection R as <-. cbn [Continuation.construct_tree].
      now rewrite (construct_represent_value v s Hok E).
    - rewrite represent_tree_list in R.
      destruct (opt_all (map represent_tree l)) as [ns|] eqn:E; [|discriminate]. injection R as <-.
      rewrite construct_tree_list.
      rewrite (opt_all_map_inv represent_tree construct_tree l); [reflexivity| |exact E].
      unfold Continuation.tokens_ok in Hok. cbn [tree_values_ok] in Hok. rewrite forallb_forall in Hok.
      rewrite Forall_forall in IH |- *. intros x Hx y Hy. apply (IH x Hx); [|exact Hy]. apply Hok, Hx.
    - rewrite represent_tree_map in R.
      match type of R with option_map NM (opt_all ?L) = _ => destruct (opt_all L) as [ns|] eqn:E; [|discriminate] end.
      injection R as <-. rewrite construct_tree_map.
      erewrite opt_all_map_inv; [reflexivity| |exact E].
      unfold Continuation.tokens_ok in Hok. cbn [tree_values_ok] in Hok. rewrite forallb_forall in Hok.
      rewrite Forall_forall in IH |- *. intros [k x] Hx [k' y] Hy. cbn [fst snd] in *.
      destruct (represent_tree x) as [a|] eqn:Ex; [|discriminate]. injection Hy as <- <-.
      unfold Continuation.key_of, Continuation.construct_scalar. cbn [sn_tag sn_text].
      rewrite (IH (k, x) Hx a); [reflexivity| |exact Ex]. exact (Hok (k, x) Hx).
  Qed.

  Variable resolve : string -> ytag.
  Variable default_tag : ytag.
  Variable analyze : string -> analysis.
  Variable simple_key : string -> bool.

  Local Notation present := (present resolve default_tag analyze simple_key).
  Local Notation compose := (compose resolve default_tag).

  (* every scalar (keys included) comes back from the composer with the tag and the text the
     representer gave it: for EVERY resolver, default tag, analysis and simple-key decision *)
  Theorem compose_present n : compose (present n) = n.
  Proof.
    induction n as [s|l IH|m IH] using ntree_rect'.
    - cbn [Continuation.present Continuation.compose]. now rewrite compose_emit.
    - cbn [Continuation.present Continuation.compose]. f_equal. rewrite map_map.
      induction l as [|x r IHr]; cbn [map]; [reflexivity|].
      inversion IH as [|? ? Px Pr]; subst. now rewrite Px, (IHr Pr).
    - cbn [Continuation.present Continuation.compose]. f_equal. rewrite map_map.
      induction m as [|[k x] r IHr]; cbn [map]; [reflexivity|].
      inversion IH as [|? ? Px Pr]; subst. cbn [snd] in Px.
      now rewrite compose_emit, Px, (IHr Pr).
  Qed.

  Variable text : Type.
  Variable emit_chars : ptree -> text.
  Variable scan_chars : text -> option ptree.

  (* the character level reproduces what the emitter decided: structure, the text of every scalar,
     whether it was plain, and its explicit tag *)
  Hypothesis syntax_roundtrip :
    syntax_law resolve default_tag analyze simple_key text emit_chars scan_chars.

  Local Notation yaml_dump_m :=
    (yaml_dump_m float_text date_text datetime_text resolve default_tag analyze simple_key text emit_chars).
  Local Notation yaml_load_m :=
    (yaml_load_m float_read timestamp_read decimal_read resolve default_tag text scan_chars).

  (* the round-trip law of the text layer, derived *)
  Theorem yaml_roundtrip_m t :
    representable t = true -> tokens_ok t = true ->
    exists txt, yaml_dump_m t = Some txt /\ yaml_load_m txt = Some t.
  Proof.
    intros R Hok. destruct (represent_tree_some t R) as [n E].
    exists (emit_chars (present n)). unfold Continuation.yaml_dump_m, Continuation.yaml_load_m.
    rewrite E. cbn [option_map]. split; [reflexivity|].
    rewrite syntax_roundtrip, compose_present. now apply construct_represent.
  Qed.

  (* writing fails exactly when some value has no representer *)
  Theorem yaml_dump_m_fails t : representable t = false -> yaml_dump_m t = None.
  Proof. intro R. unfold Continuation.yaml_dump_m. now rewrite represent_tree_none. Qed.

  Local Notation write_file_m := (write_file text yaml_dump_m).
  Local Notation read_file_m := (read_file text yaml_load_m).
  Local Notation rewrite_chain_m := (rewrite_chain text yaml_dump_m yaml_load_m).

  Theorem read_write_m g :
    snapshot_ok g = true -> tokens_ok (save g) = true ->
    exists txt g', write_file_m g = Ok txt /\ read_file_m txt = Ok g' /\ restored g g'.
  Proof.
    apply (read_write text yaml_dump_m yaml_load_m tokens_ok).
    intros t R G. now apply yaml_roundtrip_m.
  Qed.

  Theorem rewrite_chain_same_m n g txt :
    nodup_deps (g_deps g) = true -> tokens_ok (save g) = true ->
    write_file_m g = Ok txt -> rewrite_chain_m n txt = Ok txt.
  Proof.
    apply (rewrite_chain_same text yaml_dump_m yaml_load_m tokens_ok).
    intros t R G. now apply yaml_roundtrip_m.
  Qed.
End YamlModelP.

(* ------------------------------------------------------------------ references recorded while a run continues *)
Lemma dep_eqb_eq a b : dep_eqb a b = true <-> a = b.
Proof.
  destruct a as [a1 a2 a3], b as [b1 b2 b3]. unfold dep_eqb. cbn [d_from d_to d_field]. split.
  - intro H. apply andb_prop in H as [H H3]. apply andb_prop in H as [H1 H2].
    apply String.eqb_eq in H1, H2, H3. now subst.
  - intros [= -> -> ->]. now rewrite !String.eqb_refl.
Qed.

Lemma existsb_dep_In d l : existsb (dep_eqb d) l = true <-> In d l.
Proof.
  rewrite existsb_exists. split.
  - intros (x & Hx & E). apply dep_eqb_eq in E. now subst.
  - intro H. exists d. split; [exact H|]. now apply dep_eqb_eq.
Qed.

(* what the file restored stays in front, in its order *)
Theorem record_prefix news : forall l, exists tail, record_deps l news = (l ++ tail)%list.
Proof.
  unfold record_deps. induction news as [|d r IH]; intro l; cbn [fold_left].
  - exists []. now rewrite app_nil_r.
  - unfold dep_add at 2. destruct (existsb (dep_eqb d) l).
    + apply IH.
    + destruct (IH (l ++ [d])%list) as [tail E]. exists (d :: tail). rewrite E, <- app_assoc. reflexivity.
Qed.

(* a run that only meets references it already knows leaves the list as it is *)
Theorem record_known news : forall l,
  (forall d, In d news -> In d l) -> record_deps l news = l.
Proof.
  unfold record_deps. induction news as [|d r IH]; intros l H; cbn [fold_left]; [reflexivity|].
  unfold dep_add at 2. assert (existsb (dep_eqb d) l = true) as ->.
  { apply existsb_dep_In, H. now left. }
  apply IH. intros x Hx. apply H. now right.
Qed.

Lemma record_incl news : forall l d, In d l -> In d (record_deps l news).
Proof.
  intros l d H. destruct (record_prefix news l) as [tail ->]. apply in_or_app. now left.
Qed.

(* every reference the run met is recorded *)
Theorem record_complete news : forall l d, In d news -> In d (record_deps l news).
Proof.
  unfold record_deps. induction news as [|x r IH]; intros l d H; [destruct H|].
  cbn [fold_left]. destruct H as [->|H]; [|now apply IH].
  apply (record_incl r). unfold dep_add. destruct (existsb (dep_eqb d) l) eqn:E.
  - now apply existsb_dep_In.
  - apply in_or_app. right. now left.
Qed.

(* nothing else is *)
Theorem record_sound news : forall l d, In d (record_deps l news) -> In d l \/ In d news.
Proof.
  unfold record_deps. induction news as [|x r IH]; intros l d H; cbn [fold_left] in H; [now left|].
  apply IH in H as [H|H]; [|right; now right].
  unfold dep_add in H. destruct (existsb (dep_eqb x) l); [now left|].
  apply in_app_or in H as [H|[->|[]]]; [now left|right; now left].
Qed.

Lemma nodup_deps_NoDup l : nodup_deps l = true <-> NoDup l.
Proof.
  induction l as [|x r IH]; cbn [nodup_deps]; [split; [constructor|reflexivity]|].
  rewrite andb_true_iff, negb_true_iff, IH. split.
  - intros [H1 H2]. constructor; [|exact H2]. intro H. apply existsb_dep_In in H. congruence.
  - intro H. inversion H as [|? ? Hn Hr]; subst. split; [|exact Hr].
    destruct (existsb (dep_eqb x) r) eqn:E; [|reflexivity]. apply existsb_dep_In in E. contradiction.
Qed.

(* the list stays a set *)
Theorem record_nodup news : forall l, nodup_deps l = true -> nodup_deps (record_deps l news) = true.
Proof.
  unfold record_deps. induction news as [|x r IH]; intros l H; cbn [fold_left]; [exact H|].
  apply IH. unfold dep_add. destruct (existsb (dep_eqb x) l) eqn:E; [exact H|].
  apply nodup_deps_NoDup. apply nodup_deps_NoDup in H.
  assert (Hn : ~ In x l) by (intro Hin; apply existsb_dep_In in Hin; congruence).
  clear - H Hn. induction l as [|y l IHl]; cbn [app].
  - constructor; [intros []|constructor].
  - inversion H as [|? ? Hy Hl]; subst. constructor.
    + intro Hin. apply in_app_or in Hin as [Hin|[->|[]]]; [contradiction|]. apply Hn. now left.
    + apply IHl; [exact Hl|]. intro Hin. apply Hn. now right.
Qed.

(* a continued run starts from the references of the file: they stay in front, in order, whatever
   the run generates; and if it generates nothing new they are the whole list *)
Theorem continue_after_load g g' news :
  nodup_deps (g_deps g) = true -> load (save g) = Ok g' ->
  (exists tail, continue_deps g' news = (g_deps g ++ tail)%list) /\
  ((forall d, In d news -> In d (g_deps g)) -> continue_deps g' news = g_deps g) /\
  (forall from field, lookup_target (g_deps g') from field = lookup_target (g_deps g) from field).
Proof.
  intros Hd L. rewrite load_save_norm in L. injection L as <-.
  unfold continue_deps. cbn [norm g_deps]. rewrite (dedup_nodup _ Hd).
  split; [apply record_prefix|]. split; [apply record_known|reflexivity].
Qed.

(* ------------------------------------------------------------------ refutations (findings K1, K2) *)
Definition k1_row : row := mkRow "A" [("id", VInt 1); ("b", VRow "B" 1); ("n", VInt 5)].

(* state after one iteration of:  B (just_once, name: x);  A (just_once, nickname aa, b: reference B, n: 5) *)
Definition k1_state : globals :=
  mkGlobals [("B", 1); ("A", 1)] []
            [("aa", k1_row)]
            [("B", mkRow "B" [("id", VInt 1); ("name", VStr "x")]); ("A", k1_row)]
            [("aa", "A"); ("B", "B"); ("A", "A")]
            (VDate 738945) [mkDep "A" "B" "b"]
            (mkTr [("aa", "A"); ("B", "B"); ("A", "A")] [("B", 1); ("A", 1)]) [].

(* K1: the file is written, but aa.b is not there after loading — the full-strength statement
   (every field restored) fails for a well-formed state *)
Theorem row_valued_field_refuted :
  exists g, wf g = true /\ is_ok (dump_check g) = true /\
            forall g', load (save g) = Ok g' -> ~ restored g g'.
Proof.
  exists k1_state. split; [vm_compute; reflexivity|]. split; [vm_compute; reflexivity|].
  intros g' H R. rewrite load_save_norm in H. injection H as <-.
  destruct R as [_ _ Hn _ _ _ _ _ _]. specialize (Hn "aa").
  vm_compute in Hn. destruct Hn as (r' & E1 & _ & E3). injection E1 as <-.
  specialize (E3 "b"). vm_compute in E3. discriminate.
Qed.

Definition k2_state (v : value) : globals :=
  mkGlobals [("J", 1)] [] [("jj", mkRow "J" [("id", VInt 1); ("f", v)])]
            [("J", mkRow "J" [("id", VInt 1); ("f", v)])]
            [("jj", "J"); ("J", "J")] (VDate 738945) []
            (mkTr [("jj", "J"); ("J", "J")] [("J", 1)]) [].

(* K2: a well-formed state of a completed run whose continuation file cannot be written *)
Theorem unrepresentable_value_refuted :
  forall v, In v [VSlot "B" (Some 1); VLazy "B" 1; VRef "Zed" 5] ->
            wf (k2_state v) = true /\ dump_check (k2_state v) = representer_error.
Proof.
  intros v H. cbn [In] in H.
  destruct H as [<-|[<-|[<-|[]]]]; split; vm_compute; reflexivity.
Qed.

Theorem dump_total_refuted : ~ (forall g, wf g = true -> is_ok (dump_check g) = true).
Proof.
  intros H. specialize (H (k2_state (VSlot "B" (Some 1))) eq_refl). vm_compute in H. discriminate.
Qed.

(* repaired (Decimal representer): the former Decimal witness of K2 is written and restored *)
Theorem decimal_value_restored :
  forall txt, snapshot_ok (k2_state (VDec txt)) = true /\
              dump_check (k2_state (VDec txt)) = Ok (save (k2_state (VDec txt))).
Proof.
  intros txt. assert (S : snapshot_ok (k2_state (VDec txt)) = true) by reflexivity.
  split; [exact S|apply dump_total, S].
Qed.
