(* StreamParseP.v — every template a recipe can instantiate is registered with all its fields
   (property C08: the schema of the CSV / SQL outputs covers every generated row). *)
From Coq Require Import ZArith List Bool String Lia.
From SFV Require Import Base Streams StreamParse.
From SFV.P Require Import BaseP StreamsP.
Import ListNotations. Open Scope Z_scope.

Ltac splits := repeat match goal with |- _ /\ _ => split end.

(* unfolding equations of the mutual walk *)
Lemma w_fvals_cons e st v r :
  w_fvals e st (VCons v r) = (do x <- w_fval e st v; do y <- w_fvals e st r; Ok (x ++ y)).
Proof. reflexivity. Qed.
Lemma w_fields_cons e st n v r :
  w_fields e st (FCons n v r) = (do x <- w_fval e st v; do y <- w_fields e st r; Ok (x ++ y)).
Proof. reflexivity. Qed.
Lemma w_tpl_eq e st table upd incl fs friends :
  w_tpl e st (Tpl table upd incl fs friends) =
  (do m <- expand_all e st incl; do a <- w_fields e st fs; do b <- w_stmts e st friends;
   Ok (snd m ++ a ++ b ++ [mkT table (dedupe (fst m ++ field_names fs)) upd])).
Proof. reflexivity. Qed.
Lemma w_stmts_obj e st t r :
  w_stmts e st (SObj t r) = (do x <- w_tpl e st t; do y <- w_stmts e st r; Ok (x ++ y)).
Proof. reflexivity. Qed.
Lemma w_stmts_var e st v r :
  w_stmts e st (SVar v r) = (do x <- w_fval e st v; do y <- w_stmts e st r; Ok (x ++ y)).
Proof. reflexivity. Qed.
Lemma w_fval_obj e st t : w_fval e st (FVObj t) = w_tpl e st t.
Proof. reflexivity. Qed.
Lemma w_fval_args e st a : w_fval e st (FVArgs a) = w_fvals e st a.
Proof. reflexivity. Qed.

(* ------------------------------------------------------------------ specification: which templates a recipe holds *)

Section Spec.
  Variable ms : list macro.        (* context.macros after all files were read *)

  (* [occ_X x t]: the template t occurs in x — directly, nested in a field value or in function
     arguments, as a friend, in a variable definition, or in a macro that x includes *)
  Inductive occ_fval : fval -> tpl -> Prop :=
  | of_obj t t' : occ_tpl t t' -> occ_fval (FVObj t) t'
  | of_args a t' : occ_fvals a t' -> occ_fval (FVArgs a) t'
  with occ_fvals : fvals -> tpl -> Prop :=
  | ofs_here v r t' : occ_fval v t' -> occ_fvals (VCons v r) t'
  | ofs_next v r t' : occ_fvals r t' -> occ_fvals (VCons v r) t'
  with occ_fields : fields -> tpl -> Prop :=
  | ofl_here n v r t' : occ_fval v t' -> occ_fields (FCons n v r) t'
  | ofl_next n v r t' : occ_fields r t' -> occ_fields (FCons n v r) t'
  with occ_tpl : tpl -> tpl -> Prop :=
  | ot_self t : occ_tpl t t
  | ot_field t t' : occ_fields (tpl_fields t) t' -> occ_tpl t t'
  | ot_friend t t' : occ_stmts (tpl_friends t) t' -> occ_tpl t t'
  | ot_macro t m t' : In m (tpl_incl t) -> occ_macro m t' -> occ_tpl t t'
  with occ_stmts : stmts -> tpl -> Prop :=
  | os_obj t r t' : occ_tpl t t' -> occ_stmts (SObj t r) t'
  | os_var v r t' : occ_fval v t' -> occ_stmts (SVar v r) t'
  | os_next_obj t r t' : occ_stmts r t' -> occ_stmts (SObj t r) t'
  | os_next_var v r t' : occ_stmts r t' -> occ_stmts (SVar v r) t'
  with occ_macro : string -> tpl -> Prop :=
  | om_field name m t' : find_macro name ms = Some m -> occ_fields (m_fields m) t' -> occ_macro name t'
  | om_friend name m t' : find_macro name ms = Some m -> occ_stmts (m_friends m) t' -> occ_macro name t'
  | om_incl name m m2 t' : find_macro name ms = Some m -> In m2 (m_incl m) -> occ_macro m2 t' ->
                           occ_macro name t'.

  (* the fields a macro gives to a template that includes it *)
  Inductive macro_field : string -> string -> Prop :=
  | mf_own name m f : find_macro name ms = Some m -> In f (field_names (m_fields m)) -> macro_field name f
  | mf_incl name m m2 f : find_macro name ms = Some m -> In m2 (m_incl m) -> macro_field m2 f ->
                          macro_field name f.

  (* the fields of the rows a template generates: its own and those of its macros *)
  Definition eff_field (t : tpl) (f : string) : Prop :=
    In f (field_names (tpl_fields t)) \/ exists m, In m (tpl_incl t) /\ macro_field m f.

  (* t was registered: some registered template has its table, its update-key flag and all
     its fields *)
  Definition covered (regs : list template) (t : tpl) : Prop :=
    exists ft, In ft regs /\ t_table ft = tpl_table t /\ t_upd ft = tpl_upd t /\
               forall f, eff_field t f -> In f (t_fields ft).

  Lemma covered_app_l a b t : covered a t -> covered (a ++ b) t.
  Proof. intros (ft & H & R). exists ft. split; [apply in_or_app; auto|exact R]. Qed.

  Lemma covered_app_r a b t : covered b t -> covered (a ++ b) t.
  Proof. intros (ft & H & R). exists ft. split; [apply in_or_app; auto|exact R]. Qed.

  Lemma dedupe_In l f : In f (dedupe l) <-> In f l.
  Proof. unfold dedupe. rewrite add_fields_In. cbn [In]. tauto. Qed.

  (* ---------------------------------------------------------------- the walk is sound for any sound [expand] *)

  Definition expand_sound (expand : list string -> string -> result (list string * list template)) : Prop :=
    forall stack name names regs, expand stack name = Ok (names, regs) ->
      (forall f, macro_field name f -> In f names) /\
      (forall t', occ_macro name t' -> covered regs t').

  Section WalkSound.
    Variable expand : list string -> string -> result (list string * list template).
    Hypothesis Hexp : expand_sound expand.

    Lemma expand_all_sound names : forall stack fs regs,
      expand_all expand stack names = Ok (fs, regs) ->
      (forall m f, In m names -> macro_field m f -> In f fs) /\
      (forall m t', In m names -> occ_macro m t' -> covered regs t').
    Proof.
      induction names as [|n names IH]; intros stack fs regs H; cbn [expand_all] in H.
      - injection H as <- <-. split; intros ? ? [].
      - destruct (expand stack n) as [[na ra]|] eqn:E1; cbn [bind] in H; [|discriminate].
        destruct (expand_all expand stack names) as [[nb rb]|] eqn:E2; cbn [bind] in H; [|discriminate].
        cbn [fst snd] in H. injection H as <- <-.
        destruct (Hexp _ _ _ _ E1) as (A1 & A2). destruct (IH _ _ _ E2) as (B1 & B2).
        split.
        + intros m f [<-|Hm] Hf; apply in_or_app; [left; apply A1; exact Hf|right; eapply B1; eauto].
        + intros m t' [<-|Hm] Ho; [apply covered_app_l, A2; exact Ho|apply covered_app_r; eapply B2; eauto].
    Qed.

    Scheme fval_mind := Induction for fval Sort Prop
      with fvals_mind := Induction for fvals Sort Prop
      with fields_mind := Induction for fields Sort Prop
      with tpl_mind := Induction for tpl Sort Prop
      with stmts_mind := Induction for stmts Sort Prop.
    Combined Scheme syntax_mind from fval_mind, fvals_mind, fields_mind, tpl_mind, stmts_mind.

    Lemma walk_sound :
      (forall v stack regs, w_fval expand stack v = Ok regs -> forall t', occ_fval v t' -> covered regs t') /\
      (forall a stack regs, w_fvals expand stack a = Ok regs -> forall t', occ_fvals a t' -> covered regs t') /\
      (forall fs stack regs, w_fields expand stack fs = Ok regs -> forall t', occ_fields fs t' -> covered regs t') /\
      (forall t stack regs, w_tpl expand stack t = Ok regs -> forall t', occ_tpl t t' -> covered regs t') /\
      (forall s stack regs, w_stmts expand stack s = Ok regs -> forall t', occ_stmts s t' -> covered regs t').
    Proof.
      apply syntax_mind.
      - (* FVSimple *) intros stack regs _ t' Ho. inversion Ho.
      - (* FVObj *) intros t IH stack regs H t' Ho. rewrite w_fval_obj in H. inversion Ho; subst. eapply IH; eauto.
      - (* FVArgs *) intros a IH stack regs H t' Ho. rewrite w_fval_args in H. inversion Ho; subst. eapply IH; eauto.
      - (* VNil *) intros stack regs _ t' Ho. inversion Ho.
      - (* VCons *) intros v IHv r IHr stack regs H t' Ho. rewrite w_fvals_cons in H.
        destruct (w_fval expand stack v) as [x|] eqn:E1; cbn [bind] in H; [|discriminate].
        destruct (w_fvals expand stack r) as [y|] eqn:E2; cbn [bind] in H; [|discriminate].
        injection H as <-. inversion Ho; subst.
        + apply covered_app_l. eapply IHv; eauto.
        + apply covered_app_r. eapply IHr; eauto.
      - (* FNil *) intros stack regs _ t' Ho. inversion Ho.
      - (* FCons *) intros n v IHv r IHr stack regs H t' Ho. rewrite w_fields_cons in H.
        destruct (w_fval expand stack v) as [x|] eqn:E1; cbn [bind] in H; [|discriminate].
        destruct (w_fields expand stack r) as [y|] eqn:E2; cbn [bind] in H; [|discriminate].
        injection H as <-. inversion Ho; subst.
        + apply covered_app_l. eapply IHv; eauto.
        + apply covered_app_r. eapply IHr; eauto.
      - (* Tpl *) intros table upd incl fs IHf friends IHs stack regs H t' Ho. rewrite w_tpl_eq in H.
        destruct (expand_all expand stack incl) as [[mn mr]|] eqn:E0; cbn [bind] in H; [|discriminate].
        destruct (w_fields expand stack fs) as [a|] eqn:E1; cbn [bind] in H; [|discriminate].
        destruct (w_stmts expand stack friends) as [b|] eqn:E2; cbn [bind] in H; [|discriminate].
        cbn [fst snd] in H. injection H as <-.
        destruct (expand_all_sound _ _ _ _ E0) as (M1 & M2).
        inversion Ho; subst.
        + (* the template itself: registered last *)
          exists (mkT table (dedupe (mn ++ field_names fs)) upd). splits.
          * apply in_or_app. right. apply in_or_app. right. apply in_or_app. right. left. reflexivity.
          * reflexivity.
          * reflexivity.
          * intros f [Hf|(m & Hm & Hf)]; apply dedupe_In, in_or_app.
            -- right. exact Hf.
            -- left. eapply M1; eauto.
        + apply covered_app_r, covered_app_l. eapply IHf; eauto.
        + apply covered_app_r, covered_app_r, covered_app_l. eapply IHs; eauto.
        + apply covered_app_l. eapply M2; eauto.
      - (* SNil *) intros stack regs _ t' Ho. inversion Ho.
      - (* SObj *) intros t IHt r IHr stack regs H t' Ho. rewrite w_stmts_obj in H.
        destruct (w_tpl expand stack t) as [x|] eqn:E1; cbn [bind] in H; [|discriminate].
        destruct (w_stmts expand stack r) as [y|] eqn:E2; cbn [bind] in H; [|discriminate].
        injection H as <-. inversion Ho; subst.
        + apply covered_app_l. eapply IHt; eauto.
        + apply covered_app_r. eapply IHr; eauto.
      - (* SVar *) intros v IHv r IHr stack regs H t' Ho. rewrite w_stmts_var in H.
        destruct (w_fval expand stack v) as [x|] eqn:E1; cbn [bind] in H; [|discriminate].
        destruct (w_stmts expand stack r) as [y|] eqn:E2; cbn [bind] in H; [|discriminate].
        injection H as <-. inversion Ho; subst.
        + apply covered_app_l. eapply IHv; eauto.
        + apply covered_app_r. eapply IHr; eauto.
    Qed.
  End WalkSound.

  (* ---------------------------------------------------------------- include_macro, for every fuel *)

  Lemma expand_macro_sound fuel : expand_sound (expand_macro ms fuel).
  Proof.
    induction fuel as [|n IH]; intros stack name names regs H; cbn [expand_macro] in H; [discriminate|].
    destruct (find_macro name ms) as [m|] eqn:Ef; [|discriminate].
    destruct (mem name stack); [discriminate|].
    destruct (expand_all (expand_macro ms n) (stack ++ [name]) (m_incl m)) as [[inn inr]|] eqn:E0;
      cbn [bind] in H; [|discriminate].
    destruct (w_fields (expand_macro ms n) (stack ++ [name]) (m_fields m)) as [a|] eqn:E1;
      cbn [bind] in H; [|discriminate].
    destruct (w_stmts (expand_macro ms n) (stack ++ [name]) (m_friends m)) as [b|] eqn:E2;
      cbn [bind] in H; [|discriminate].
    cbn [fst snd] in H. injection H as <- <-.
    destruct (expand_all_sound _ IH _ _ _ _ E0) as (M1 & M2).
    destruct (walk_sound _ IH) as (_ & _ & Wf & _ & Ws).
    split.
    - intros f Hf. apply dedupe_In, in_or_app. inversion Hf as [? m' ? Hm Hin|? m' m2 ? Hm Hin Hrec]; subst;
        rewrite Ef in Hm; injection Hm as <-.
      + right. exact Hin.
      + left. eapply M1; eauto.
    - intros t' Ho. inversion Ho as [? m' ? Hm Hx|? m' ? Hm Hx|? m' m2 ? Hm Hin Hx]; subst;
        rewrite Ef in Hm; injection Hm as <-.
      + apply covered_app_r, covered_app_l. eapply Wf; eauto.
      + apply covered_app_r, covered_app_r. eapply Ws; eauto.
      + apply covered_app_l. eapply M2; eauto.
  Qed.

  Theorem walk_top_covers s regs : walk_top ms s = Ok regs ->
    forall t, occ_stmts s t -> covered regs t.
  Proof.
    unfold walk_top. intros H t Ho.
    destruct (walk_sound _ (expand_macro_sound (macro_fuel ms))) as (_ & _ & _ & _ & Ws).
    eapply Ws; eauto.
  Qed.

  Lemma occ_stmts_app a b t : occ_stmts (stmts_app a b) t <-> occ_stmts a t \/ occ_stmts b t.
  Proof.
    induction a as [|x a IH|v a IH]; cbn [stmts_app].
    - split; [auto|]. intros [H|H]; [inversion H|exact H].
    - split.
      + intro H. inversion H as [? ? ? Ht| |? ? ? Hn|]; subst.
        * left. apply os_obj. exact Ht.
        * apply IH in Hn. destruct Hn as [Hn|Hn]; [left; apply os_next_obj; exact Hn|right; exact Hn].
      + intros [H|H].
        * inversion H as [? ? ? Ht| |? ? ? Hn|]; subst; [apply os_obj; exact Ht|].
          apply os_next_obj, IH. left. exact Hn.
        * apply os_next_obj, IH. right. exact H.
    - split.
      + intro H. inversion H as [|? ? ? Ht| |? ? ? Hn]; subst.
        * left. apply os_var. exact Ht.
        * apply IH in Hn. destruct Hn as [Hn|Hn]; [left; apply os_next_var; exact Hn|right; exact Hn].
      + intros [H|H].
        * inversion H as [|? ? ? Ht| |? ? ? Hn]; subst; [apply os_var; exact Ht|].
          apply os_next_var, IH. left. exact Hn.
        * apply os_next_var, IH. right. exact H.
  Qed.
End Spec.

(* ------------------------------------------------------------------ include files *)

(* the files a recipe consists of: the main file and everything reachable through include_file *)
Inductive reach (files : list (string * rfile)) : rfile -> rfile -> Prop :=
| reach_self f : reach files f f
| reach_incl f i fi f' : In i (f_includes f) -> aget i files = Some fi -> reach files fi f' -> reach files f f'.

Lemma load_file_covers files fuel : forall stack name f lms st,
  load_file files fuel stack name f = Ok (lms, st) ->
  forall f', reach files f f' ->
    (forall m, In m (f_macros f') -> In m lms) /\
    (forall ms t, occ_stmts ms (f_stmts f') t -> occ_stmts ms st t).
Proof.
  induction fuel as [|n IH]; intros stack name f lms st H f' Hr; cbn [load_file] in H; [discriminate|].
  match type of H with (do inc <- ?G (f_includes f); _) = _ => set (go := G) in * end.
  destruct (go (f_includes f)) as [[im ist]|] eqn:Eg; cbn [bind] in H; [|discriminate].
  cbn [fst snd] in H. injection H as <- <-.
  assert (Hgo : forall l im ist, go l = Ok (im, ist) ->
            forall i fi f', In i l -> aget i files = Some fi -> reach files fi f' ->
              (forall m, In m (f_macros f') -> In m im) /\
              (forall ms t, occ_stmts ms (f_stmts f') t -> occ_stmts ms ist t)).
  { clear Eg im ist Hr f'. induction l as [|i0 l IHl]; intros im ist Hg i fi f' Hin Hfi Hr; [destruct Hin|].
    cbn in Hg. destruct (aget i0 files) as [fi0|] eqn:Ea; [|discriminate].
    destruct (String.eqb i0 name || mem i0 stack); [discriminate|].
    destruct (load_file files n (stack ++ [name]) i0 fi0) as [[am ast]|] eqn:El; cbn [bind] in Hg; [|discriminate].
    fold go in Hg. destruct (go l) as [[bm bst]|] eqn:Eg2; cbn [bind] in Hg; [|discriminate].
    cbn [fst snd] in Hg. injection Hg as <- <-.
    destruct Hin as [<-|Hin].
    - rewrite Ea in Hfi. injection Hfi as <-.
      destruct (IH _ _ _ _ _ El f' Hr) as (A1 & A2). split.
      + intros m Hm. apply in_or_app. left. auto.
      + intros ms t Ho. apply occ_stmts_app. left. auto.
    - destruct (IHl _ _ eq_refl i fi f' Hin Hfi Hr) as (B1 & B2). split.
      + intros m Hm. apply in_or_app. right. auto.
      + intros ms t Ho. apply occ_stmts_app. right. auto. }
  inversion Hr as [|? i fi ? Hin Hfi Hr']; subst.
  - split.
    + intros m Hm. apply in_or_app. right. exact Hm.
    + intros ms t Ho. apply occ_stmts_app. right. exact Ho.
  - destruct (Hgo _ _ _ Eg i fi f' Hin Hfi Hr') as (B1 & B2). split.
    + intros m Hm. apply in_or_app. left. auto.
    + intros ms t Ho. apply occ_stmts_app. left. auto.
Qed.

(* For every recipe (any number of include files, macros, nesting depth): if the parser accepts
   it, then every template that occurs anywhere in it — in any reachable file, nested in a field
   value or in function arguments, as a friend, in a variable, in a macro — was registered with
   its table, its update key and all its fields (own and macro fields). *)
Theorem parse_covers files main regs :
  parse_recipe files main = Ok regs ->
  exists ms,
    (forall f' m, reach files main f' -> In m (f_macros f') -> In m ms) /\
    forall f' t, reach files main f' -> occ_stmts ms (f_stmts f') t -> covered ms regs t.
Proof.
  unfold parse_recipe. intro H.
  destruct (load_file files (S (length files)) [] main_name main) as [[ms st]|] eqn:El; cbn [bind] in H; [|discriminate].
  cbn [fst snd] in H. exists ms. split.
  - intros f' m Hr Hm. destruct (load_file_covers _ _ _ _ _ _ _ El f' Hr) as (A1 & _). auto.
  - intros f' t Hr Ho. destruct (load_file_covers _ _ _ _ _ _ _ El f' Hr) as (_ & A2).
    eapply walk_top_covers; eauto.
Qed.

(* ... hence every key of every row such a template generates is a column of the schema the
   outputs are created from (CSV header and SQL table) *)
Theorem parse_schema_covers files main tables :
  recipe_schema files main = Ok tables ->
  exists ms,
    (forall f' m, reach files main f' -> In m (f_macros f') -> In m ms) /\
    forall f' t, reach files main f' -> occ_stmts ms (f_stmts f') t -> hidden (tpl_table t) = false ->
      exists ti, aget (tpl_table t) tables = Some ti /\
        forall k, k = "id"%string \/ (tpl_upd t = true /\ k = upd_key) \/ (eff_field ms t k /\ hidden k = false) ->
          In k (fallback ti) /\ In k (csv_header ti).
Proof.
  unfold recipe_schema. intro H.
  destruct (parse_recipe files main) as [regs|] eqn:Ep; cbn [bind] in H; [|discriminate].
  injection H as <-.
  destruct (parse_covers _ _ _ Ep) as (ms & Hm & Hc). exists ms. split; [exact Hm|].
  intros f' t Hr Ho Hh. destruct (Hc f' t Hr Ho) as (ft & Hin & Ht & Hu & Hf).
  destruct (keys_in_schema regs ft Hin) as (ti & Hti & Hk); [rewrite Ht; exact Hh|].
  exists ti. split; [rewrite <- Ht; exact Hti|].
  intros k Hkk. apply Hk. unfold row_keys. destruct Hkk as [->|[[Hup ->]|[He Hhid]]].
  - left. reflexivity.
  - right. apply in_or_app. left. rewrite Hu, Hup. left. reflexivity.
  - right. apply in_or_app. right. apply filter_In. split; [apply Hf; exact He|].
    rewrite Hhid. reflexivity.
Qed.

(* ------------------------------------------------------------------ the fuel is always enough *)

Definition nofuel {A} (r : result A) : Prop := r <> Err OutOfFuel.

Lemma nofuel_bind {A B} (r : result A) (f : A -> result B) :
  nofuel r -> (forall a, r = Ok a -> nofuel (f a)) -> nofuel (bind r f).
Proof.
  unfold nofuel. destruct r as [a|e]; cbn [bind]; intros H1 H2; [apply H2; reflexivity|].
  intros [= ->]. apply H1. reflexivity.
Qed.

Lemma nofuel_ok {A} (a : A) : nofuel (Ok a).
Proof. unfold nofuel. discriminate. Qed.

Section NF.
  Variable expand : list string -> string -> result (list string * list template).
  Variable stack : list string.
  Hypothesis Hexp : forall name, nofuel (expand stack name).

  Lemma expand_all_nofuel names : nofuel (expand_all expand stack names).
  Proof.
    induction names as [|n names IH]; cbn [expand_all]; [apply nofuel_ok|].
    apply nofuel_bind; [apply Hexp|]. intros a _. apply nofuel_bind; [exact IH|]. intros b _. apply nofuel_ok.
  Qed.

  Lemma walk_nofuel :
    (forall v, nofuel (w_fval expand stack v)) /\
    (forall a, nofuel (w_fvals expand stack a)) /\
    (forall fs, nofuel (w_fields expand stack fs)) /\
    (forall t, nofuel (w_tpl expand stack t)) /\
    (forall s, nofuel (w_stmts expand stack s)).
  Proof.
    apply syntax_mind.
    - apply nofuel_ok.
    - intros t IH. rewrite w_fval_obj. exact IH.
    - intros a IH. rewrite w_fval_args. exact IH.
    - apply nofuel_ok.
    - intros v IHv r IHr. rewrite w_fvals_cons.
      apply nofuel_bind; [exact IHv|]. intros ? _. apply nofuel_bind; [exact IHr|]. intros ? _. apply nofuel_ok.
    - apply nofuel_ok.
    - intros n v IHv r IHr. rewrite w_fields_cons.
      apply nofuel_bind; [exact IHv|]. intros ? _. apply nofuel_bind; [exact IHr|]. intros ? _. apply nofuel_ok.
    - intros table upd incl fs IHf friends IHs. rewrite w_tpl_eq.
      apply nofuel_bind; [apply expand_all_nofuel|]. intros ? _.
      apply nofuel_bind; [exact IHf|]. intros ? _. apply nofuel_bind; [exact IHs|]. intros ? _. apply nofuel_ok.
    - apply nofuel_ok.
    - intros t IHt r IHr. rewrite w_stmts_obj.
      apply nofuel_bind; [exact IHt|]. intros ? _. apply nofuel_bind; [exact IHr|]. intros ? _. apply nofuel_ok.
    - intros v IHv r IHr. rewrite w_stmts_var.
      apply nofuel_bind; [exact IHv|]. intros ? _. apply nofuel_bind; [exact IHr|]. intros ? _. apply nofuel_ok.
  Qed.
End NF.

Lemma find_macro_In name ms m : find_macro name ms = Some m -> In name (map m_name ms).
Proof.
  unfold find_macro.
  assert (forall acc, fold_left (fun acc m => if String.eqb (m_name m) name then Some m else acc) ms acc = Some m ->
                      acc = Some m \/ In name (map m_name ms)) as H.
  { induction ms as [|m0 ms IH]; intros acc Hf; cbn [fold_left] in Hf; [left; exact Hf|].
    destruct (IH _ Hf) as [Ha|Hi].
    - destruct (String.eqb (m_name m0) name) eqn:E.
      + right. left. apply String.eqb_eq. exact E.
      + left. exact Ha.
    - right. right. exact Hi. }
  intro Hf. destruct (H None Hf) as [Hn|Hi]; [discriminate|exact Hi].
Qed.

Definition stack_ok (ms : list macro) (stack : list string) : Prop :=
  NoDup stack /\ incl stack (map m_name ms).

Lemma expand_macro_nofuel ms fuel : forall stack name,
  stack_ok ms stack -> (length (map m_name ms) < fuel + length stack)%nat ->
  nofuel (expand_macro ms fuel stack name).
Proof.
  induction fuel as [|n IH]; intros stack name [Hnd Hin] Hlen.
  - exfalso. pose proof (NoDup_incl_length Hnd Hin). lia.
  - cbn [expand_macro]. destruct (find_macro name ms) as [m|] eqn:Ef; [|unfold nofuel; discriminate].
    destruct (mem name stack) eqn:Em; [unfold nofuel; discriminate|].
    assert (stack_ok ms (stack ++ [name])) as Hok.
    { split.
      - apply NoDup_app_intro; [exact Hnd|constructor; [intros []|constructor]|].
        intros x Hx [<-|[]]. apply mem_In in Hx. congruence.
      - intros x Hx. apply in_app_or in Hx. destruct Hx as [Hx|[<-|[]]]; [apply Hin; exact Hx|].
        eapply find_macro_In; eauto. }
    assert (forall nm, nofuel (expand_macro ms n (stack ++ [name]) nm)) as Hn.
    { intro nm. apply IH; [exact Hok|]. rewrite app_length. cbn [length]. lia. }
    destruct (walk_nofuel _ _ Hn) as (_ & _ & Wf & _ & Ws).
    apply nofuel_bind; [apply expand_all_nofuel; exact Hn|]. intros ? _.
    apply nofuel_bind; [apply Wf|]. intros ? _. apply nofuel_bind; [apply Ws|]. intros ? _. apply nofuel_ok.
Qed.

Lemma walk_top_nofuel ms s : nofuel (walk_top ms s).
Proof.
  unfold walk_top, macro_fuel.
  assert (forall nm, nofuel (expand_macro ms (S (length ms)) [] nm)) as Hn.
  { intro nm. apply expand_macro_nofuel; [split; [constructor|intros ? []]|]. rewrite map_length. cbn. lia. }
  destruct (walk_nofuel _ _ Hn) as (_ & _ & _ & _ & Ws). apply Ws.
Qed.

(* ---- include files *)
Definition lstack_ok (files : list (string * rfile)) (chain : list string) : Prop :=
  NoDup chain /\ incl (tl chain) (map fst files).

Lemma load_file_nofuel files fuel : forall stack name f,
  lstack_ok files (stack ++ [name]) ->
  (length (map fst files) + 1 < fuel + length (stack ++ [name]))%nat ->
  nofuel (load_file files fuel stack name f).
Proof.
  induction fuel as [|n IH]; intros stack name f [Hnd Hin] Hlen.
  - exfalso.
    assert (NoDup (tl (stack ++ [name]))) as Hnd'.
    { destruct (stack ++ [name]); [constructor|]. inversion Hnd; assumption. }
    pose proof (NoDup_incl_length Hnd' Hin) as Hl.
    assert (length (tl (stack ++ [name])) = length (stack ++ [name]) - 1)%nat as E.
    { destruct (stack ++ [name]); cbn; lia. }
    lia.
  - cbn [load_file].
    match goal with |- nofuel (do inc <- ?G (f_includes f); _) => set (go := G) end.
    assert (forall l, nofuel (go l)) as Hgo.
    { induction l as [|i l IHl]; [apply nofuel_ok|].
      cbn. destruct (aget i files) as [fi|] eqn:Ea; [|unfold nofuel; discriminate].
      destruct (String.eqb i name || mem i stack) eqn:Ec; [unfold nofuel; discriminate|].
      apply orb_false_iff in Ec. destruct Ec as [Ene Enm].
      apply nofuel_bind.
      - apply IH.
        + split.
          * apply NoDup_app_intro; [exact Hnd|constructor; [intros []|constructor]|].
            intros x Hx [<-|[]]. apply in_app_or in Hx. destruct Hx as [Hx|[<-|[]]].
            -- apply mem_In in Hx. congruence.
            -- rewrite String.eqb_refl in Ene. discriminate.
          * assert (tl ((stack ++ [name]) ++ [i]) = tl (stack ++ [name]) ++ [i]) as ->.
            { destruct stack; reflexivity. }
            intros x Hx. apply in_app_or in Hx. destruct Hx as [Hx|[<-|[]]]; [apply Hin; exact Hx|].
            apply aget_In. congruence.
        + rewrite app_length. cbn [length]. lia.
      - intros ? _. fold go. apply nofuel_bind; [exact IHl|]. intros ? _. apply nofuel_ok. }
    apply nofuel_bind; [apply Hgo|]. intros ? _. apply nofuel_ok.
Qed.

(* the fuel of the model's parser is always enough: it never gives up *)
Theorem parse_recipe_nofuel files main : parse_recipe files main <> Err OutOfFuel.
Proof.
  unfold parse_recipe. apply nofuel_bind.
  - apply load_file_nofuel.
    + split; [constructor; [intros []|constructor]|intros ? []].
    + rewrite map_length. cbn. lia.
  - intros ? _. apply walk_top_nofuel.
Qed.
