(* RefsP.v — property C02 at the level of the SF-core interpreter: every reference value
   written to the output names an id that has been issued for its table; together with C01
   (every issued id of a visible table is written by the end of the iteration) no written
   reference dangles.                                                                    *)
From Coq Require Import ZArith List Lia Bool Permutation ZifyBool.
From SFV Require Import Base Interp.
From SFV.P Require Import BaseP InterpP InterpHeapP IdsP.
Import ListNotations. Open Scope Z_scope.

(* ------------------------------------------------------------------ bounded ids *)

(* every id held by a heap cell or an allocated slot has been issued: 1 <= id <= last *)
Definition Bd (s : st) : Prop :=
  (forall c, In c (heap s) -> 1 <= c_id c <= last_id s (c_table c)) /\
  (forall n sl i, In (n, sl) (slots s) -> s_alloc sl = Some i -> 1 <= i <= last_id s (s_table sl)) /\
  (forall T, 0 <= last_id s T).

(* every reference already written is bounded by the current counters *)
Definition refs_bounded (s : st) : Prop :=
  forall row n T i, In row (out s) -> In (n, ORef T i) (snd row) -> 1 <= i <= last_id s T.

(* counters never decrease *)
Definition mono (s s' : st) : Prop := forall T, last_id s T <= last_id s' T.

Lemma mono_refl s : mono s s.
Proof. intros T. lia. Qed.
Lemma mono_trans a b c : mono a b -> mono b c -> mono a c.
Proof. intros H1 H2 T. specialize (H1 T). specialize (H2 T). lia. Qed.
Lemma mono_ids s s' : ids s' = ids s -> mono s s'.
Proof. intros E T. unfold last_id. rewrite E. lia. Qed.

Lemma In_assign {A} k (v : A) l x : In x (assign k v l) -> x = (k, v) \/ In x l.
Proof.
  induction l as [|[k' v'] r IH]; cbn [assign].
  - intros [H|[]]. left. congruence.
  - destruct (String.eqb k k'); cbn [In]; intros [H|H]; auto.
    destruct (IH H); auto.
Qed.

(* the combined invariant *)
Definition J (s : st) : Prop := Bd s /\ refs_bounded s.

(* steps that keep ids, slots, heap keys and output: J is preserved *)
Lemma J_frame s s' :
  ids s' = ids s -> slots s' = slots s -> out s' = out s ->
  (forall c', In c' (heap s') -> exists c, In c (heap s) /\ c_table c' = c_table c /\ c_id c' = c_id c) ->
  J s -> J s'.
Proof.
  intros Hi Hs Ho Hh [(B1 & B2 & B3) R]. unfold J, Bd, refs_bounded, last_id in *. rewrite Hi, Hs, Ho.
  splits; auto.
  intros c' Hc'. destruct (Hh c' Hc') as (c & Hc & Ht & Hid). rewrite Ht, Hid. auto.
Qed.

Lemma J_same_heap s s' :
  ids s' = ids s -> slots s' = slots s -> out s' = out s -> heap s' = heap s -> J s -> J s'.
Proof.
  intros Hi Hs Ho Hh. apply J_frame; auto. intros c' Hc'. exists c'. rewrite <- Hh. auto.
Qed.

Lemma generate_id_J s t : J s -> J (fst (generate_id s t)) /\ mono s (fst (generate_id s t)) /\
  1 <= snd (generate_id s t) <= last_id (fst (generate_id s t)) t.
Proof.
  intros [(B1 & B2 & B3) R].
  assert (Hm : mono s (fst (generate_id s t))).
  { unfold mono. intros T. rewrite last_id_generate. destruct (String.eqb T t) eqn:E; [|lia].
    apply String.eqb_eq in E. subst. lia. }
  split; [|split; [exact Hm|]].
  - unfold J, Bd, refs_bounded. split; [splits|].
    + intros c Hc. specialize (B1 c Hc). specialize (Hm (c_table c)). cbn [generate_id fst heap upd_ids] in *. lia.
    + intros n sl i Hin Ha. specialize (B2 n sl i Hin Ha). specialize (Hm (s_table sl)).
      cbn [generate_id fst slots upd_ids] in *. lia.
    + intros T. specialize (B3 T). specialize (Hm T). lia.
    + intros row n T i Hr Hin. specialize (R row n T i Hr Hin). specialize (Hm T). lia.
  - rewrite last_id_generate, String.eqb_refl. cbn [generate_id snd]. specialize (B3 t). lia.
Qed.

Lemma touch_slot_J s n s' i :
  touch_slot s n = Ok (s', i) -> J s ->
  J s' /\ mono s s' /\ exists sl, lookup n (slots s) = Some sl /\ 1 <= i <= last_id s' (s_table sl).
Proof.
  unfold touch_slot. destruct (lookup n (slots s)) as [sl|] eqn:Hl; [|discriminate].
  destruct (s_alloc sl) as [j|] eqn:Ha.
  - intros H HJ. injection H as <- <-. splits; [exact HJ|apply mono_refl|].
    exists sl. split; [reflexivity|]. destruct HJ as [(_ & B2 & _) _].
    destruct (lookup_In _ _ _ Hl) as (k' & Hin). eapply B2; eauto.
  - intros H HJ. injection H as <- <-.
    destruct (generate_id_J s (s_table sl) HJ) as (HJ1 & Hm & Hb).
    unfold generate_id in *. cbn [fst snd] in *.
    set (s1 := upd_ids s (assign (s_table sl) (last_id s (s_table sl) + 1) (ids s))) in *.
    splits.
    + destruct HJ1 as [(B1 & B2 & B3) R]. unfold J, Bd, refs_bounded. split; [splits|]; auto.
      intros n' sl' i' Hin Ha'. cbn [slots upd_slots] in Hin. apply In_assign in Hin.
      destruct Hin as [Heq|Hin].
      * injection Heq as Hn Hsl. subst sl'. cbn [s_alloc s_table] in Ha' |- *.
        assert (Hi' : i' = last_id s (s_table sl) + 1) by congruence. subst i'. exact Hb.
      * eapply B2; eauto.
    + exact Hm.
    + exists sl. split; [reflexivity|]. exact Hb.
Qed.

(* expressions, formulas, references: J and mono *)
Definition jq (s s' : st) : Prop := (J s -> J s') /\ mono s s'.
Lemma jq_refl s : jq s s.
Proof. split; [auto|apply mono_refl]. Qed.
Lemma jq_trans a b c : jq a b -> jq b c -> jq a c.
Proof. intros [H1 M1] [H2 M2]. split; [auto|eapply mono_trans; eassumption]. Qed.
Lemma touch_slot_jq s n s' i : touch_slot s n = Ok (s', i) -> jq s s'.
Proof.
  intros H. split.
  - intros HJ. apply (touch_slot_J _ _ _ _ H HJ).
  - (* mono does not need J *)
    unfold touch_slot in H. destruct (lookup n (slots s)) as [sl|]; [|discriminate].
    destruct (s_alloc sl); injection H as <- _; [apply mono_refl|].
    match goal with |- mono _ ?s2 =>
      assert (Hx : forall T, last_id s2 T = last_id (fst (generate_id s (s_table sl))) T) by reflexivity end.
    unfold mono. intros T. rewrite Hx, last_id_generate.
    destruct (String.eqb T (s_table sl)) eqn:E; [|lia].
    apply String.eqb_eq in E. subst. lia.
Qed.

Lemma eval_expr_jq e x : forall s s' v, eval_expr e x s = Ok (s', v) -> jq s s'.
Proof.
  induction x as [z|n|a IHa f|a IHa b IHb|a IHa b IHb|a IHa b IHb]; intros s s' v H; cbn [eval_expr] in H.
  - injection H as <- _. apply jq_refl.
  - dbind H as o. destruct o; injection H as <- _; apply jq_refl.
  - dbind H as [s1 v1]. apply IHa in E.
    destruct v1; try discriminate;
      try (destruct (py_own_attr f); [discriminate|]);
      try (injection H as <- _; exact E).
    + destruct (nth_error (heap s1) h); [|discriminate].
      destruct (row_attr c f); injection H as <- _; exact E.
    + destruct (String.eqb f "id"); [|discriminate]. dbind H as [s2 i].
      injection H as <- _. apply touch_slot_jq in E0. eapply jq_trans; eassumption.
  - dbind H as [s1 v1]. dbind H as [s2 v2]. apply IHa in E. apply IHb in E0.
    destruct v1, v2; try discriminate; injection H as <- _; eapply jq_trans; eassumption.
  - dbind H as [s1 v1]. dbind H as [s2 v2]. apply IHa in E. apply IHb in E0.
    destruct v1, v2; try discriminate; injection H as <- _; eapply jq_trans; eassumption.
  - dbind H as [s1 v1]. dbind H as [s2 v2]. apply IHa in E. apply IHb in E0.
    destruct v1, v2; try discriminate; injection H as <- _; eapply jq_trans; eassumption.
Qed.

Lemma render_pieces_jq e ps : forall s s' t, render_pieces e ps s = Ok (s', t) -> jq s s'.
Proof.
  induction ps as [|p ps IH]; intros s s' t H; cbn [render_pieces] in H.
  - injection H as <- _. apply jq_refl.
  - destruct p as [tx|x].
    + dbind H as [s1 rest]. injection H as <- _. eauto.
    + dbind H as [s1 v]. dbind H as w0. dbind H as [s2 rest].
      injection H as <- _. apply eval_expr_jq in E. apply IH in E1. eapply jq_trans; eassumption.
Qed.

Lemma render_formula_jq e ps s s' v : render_formula e ps s = Ok (s', v) -> jq s s'.
Proof.
  unfold render_formula. intros H.
  destruct (version e =? 3).
  - destruct ps as [|[tx|x] [|p2 r]];
      try (dbind H as [s1 t]; dbind H as w0; injection H as <- _;
           apply render_pieces_jq in E; exact E).
    dbind H as [s1 w]. apply eval_expr_jq in E.
    destruct w; try discriminate; try (injection H as <- _; exact E).
    dbind H as w0. injection H as <- _. exact E.
  - dbind H as [s1 t]. dbind H as w0. injection H as <- _.
    apply render_pieces_jq in E. exact E.
Qed.

Lemma follow_path_jq parts : forall s v s' w, follow_path s v parts = Ok (s', w) -> jq s s'.
Proof.
  induction parts as [|p r IH]; intros s v s' w H; cbn [follow_path] in H.
  - injection H as <- _. apply jq_refl.
  - dbind H as [s1 w1]. apply IH in H. eapply jq_trans; [|exact H].
    unfold getattr_path in E. destruct v; try discriminate.
    + destruct (nth_error (heap s) h); [|discriminate].
      destruct (row_attr c p); [|discriminate]. injection E as <- _. apply jq_refl.
    + destruct (String.eqb p "id"); [|discriminate]. dbind E as [s2 i].
      injection E as <- _. apply touch_slot_jq in E0. exact E0.
Qed.

Lemma reference_jq e path s s' v : reference e path s = Ok (s', v) -> jq s s'.
Proof.
  unfold reference. intros H.
  destruct (split_dot path) as [|first parts]; [discriminate|].
  dbind H as o. destruct o as [v0|]; [|destruct parts; discriminate].
  dbind H as [s1 target]. apply follow_path_jq in E0.
  destruct target; try discriminate.
  - injection H as <- _. exact E0.
  - dbind H as [s2 i]. injection H as <- _.
    apply touch_slot_jq in E1. eapply jq_trans; eassumption.
Qed.

(* flatten: the references it produces are bounded by the counters of the resulting state *)
Lemma flatten_fields_J fs : forall s s' l,
  flatten_fields s fs = Ok (s', l) -> J s ->
  J s' /\ mono s s' /\ out s' = out s /\
  forall n T i, In (n, ORef T i) l -> 1 <= i <= last_id s' T.
Proof.
  induction fs as [|[n v] r IH]; intros s s' l H HJ; cbn [flatten_fields] in H.
  - injection H as <- <-. splits; [exact HJ|apply mono_refl|reflexivity|intros ? ? ? []].
  - destruct (hidden n); [eauto|].
    dbind H as [s1 o]. dbind H as [s2 rest]. injection H as <- <-.
    assert (H1 : J s1 /\ mono s s1 /\ out s1 = out s /\
                 forall T i, o = ORef T i -> 1 <= i <= last_id s1 T).
    { destruct v; try discriminate; try (injection E as <- <-; splits; [exact HJ|apply mono_refl|reflexivity|discriminate]).
      - destruct (nth_error (heap s) h) as [c|] eqn:Hc; [|discriminate]. injection E as <- <-.
        splits; [exact HJ|apply mono_refl|reflexivity|].
        intros T i Hq. injection Hq as <- <-. destruct HJ as [(B1 & _) _].
        apply B1. eapply nth_error_In; eassumption.
      - destruct (lookup name (slots s)) as [sl|] eqn:Hl; [|discriminate]. dbind E as [s3 i].
        injection E as <- <-. destruct (touch_slot_J _ _ _ _ E1 HJ) as (J3 & M3 & sl' & Hl' & Hb).
        rewrite Hl in Hl'. injection Hl' as <-.
        splits; [exact J3|exact M3|apply (touch_slot_out _ _ _ _ E1)|].
        intros T i' Hq. injection Hq as <- <-. exact Hb. }
    destruct H1 as (J1 & M1 & O1 & Hb1).
    destruct (IH _ _ _ E0 J1) as (J2 & M2 & O2 & Hb2).
    splits; [exact J2|eapply mono_trans; eassumption|congruence|].
    intros n' T i [Heq|Hin].
    + injection Heq as _ Ho. specialize (Hb1 T i Ho). specialize (M2 T). lia.
    + eapply Hb2; eassumption.
Qed.

Lemma write_row_J s h s' : write_row s h = Ok s' -> J s -> J s' /\ mono s s'.
Proof.
  unfold write_row. destruct (nth_error (heap s) h) as [c|] eqn:Hc; [|discriminate].
  destruct (hidden (c_table c)); [intros H HJ; injection H as <-; split; [exact HJ|apply mono_refl]|].
  intros H HJ. dbind H as [s1 fs]. injection H as <-.
  destruct (flatten_fields_J _ _ _ _ E HJ) as ([B1 R1] & M1 & O1 & Hb).
  split; [|exact M1]. split; [exact B1|].
  unfold refs_bounded. intros row n T i Hr Hin. cbn [out upd_out] in Hr. destruct Hr as [<-|Hr].
  - cbn [snd] in Hin. destruct Hin as [Heq|Hin]; [discriminate|].
    change (last_id (upd_out s1 _) T) with (last_id s1 T). eapply Hb; eassumption.
  - change (last_id (upd_out s1 _) T) with (last_id s1 T). eapply R1; eassumption.
Qed.

(* creating a row *)
Lemma consume_for_J s n T s' i :
  consume_for s n T = Some (s', i) -> J s ->
  J s' /\ ids s' = ids s /\ heap s' = heap s /\ 1 <= i <= last_id s T.
Proof.
  intros Hc HJ. destruct (consume_for_spec _ _ _ _ _ Hc) as (sl & Hl & Ha & Hnc & Ht & ->).
  destruct HJ as [(B1 & B2 & B3) R].
  destruct (lookup_In _ _ _ Hl) as (k' & Hin). pose proof (B2 _ _ _ Hin Ha) as Hb. rewrite Ht in Hb.
  split; [|split; [reflexivity|split; [reflexivity|exact Hb]]].
  unfold J, Bd, refs_bounded. split; [splits|]; auto.
  intros n' sl' i' Hin' Ha'. cbn [slots upd_slots] in Hin'. apply In_assign in Hin'.
  destruct Hin' as [Heq|Hin'].
  - injection Heq as Hn Hsl. subst sl'. cbn [s_alloc s_table] in Ha' |- *.
    assert (Hi' : i' = i) by congruence. subst i'.
    change (last_id (upd_slots s _) (s_table sl)) with (last_id s (s_table sl)). rewrite Ht. exact Hb.
  - eapply B2; eauto.
Qed.

Lemma new_row_J s T nick s1 id idx fs :
  new_row_id s T nick = (s1, id) -> J s ->
  J (upd_heap s1 (heap s1 ++ [mkCell T id idx fs])) /\ mono s s1.
Proof.
  unfold new_row_id. intros H HJ.
  assert (Hadd : forall s', J s' -> 1 <= id <= last_id s' T ->
                 J (upd_heap s' (heap s' ++ [mkCell T id idx fs]))).
  { intros s' [(B1 & B2 & B3) R] Hb. unfold J, Bd, refs_bounded. split; [split; [|split]|].
    - intros c Hc. cbn [heap upd_heap] in Hc. apply in_app_or in Hc.
      destruct Hc as [Hc|[<-|[]]]; [apply (B1 c Hc)|exact Hb].
    - exact B2.
    - exact B3.
    - exact R. }
  destruct (match nick with Some n => consume_for s n T | None => None end) as [[s' i]|] eqn:E1.
  - injection H as <- <-. destruct nick as [n|]; [|discriminate].
    destruct (consume_for_J _ _ _ _ _ E1 HJ) as (J1 & Hi & Hh & Hb).
    split; [apply Hadd; [exact J1|unfold last_id in *; rewrite Hi; exact Hb]|apply mono_ids; exact Hi].
  - destruct (consume_for s T T) as [[s' i]|] eqn:E2.
    + injection H as <- <-. destruct (consume_for_J _ _ _ _ _ E2 HJ) as (J1 & Hi & Hh & Hb).
      split; [apply Hadd; [exact J1|unfold last_id in *; rewrite Hi; exact Hb]|apply mono_ids; exact Hi].
    + destruct (generate_id_J s T HJ) as (J1 & M1 & Hb).
      destruct (generate_id s T) as [s' i] eqn:Eg. injection H as <- <-. cbn [fst snd] in *.
      split; [apply Hadd; assumption|exact M1].
Qed.

Lemma set_field_keys s h n v c' :
  In c' (heap (set_field s h n v)) -> exists c, In c (heap s) /\ c_table c' = c_table c /\ c_id c' = c_id c.
Proof.
  unfold set_field. destruct (nth_error (heap s) h) as [c0|] eqn:E; [|intros H; exists c'; auto].
  cbn [heap upd_heap]. intros Hin. apply In_nth_error in Hin. destruct Hin as [j Hj].
  rewrite nth_error_set_nth in Hj. destruct (Nat.eqb h j) eqn:Ej.
  - apply Nat.eqb_eq in Ej. subst j. rewrite E in Hj. injection Hj as <-.
    exists c0. split; [eapply nth_error_In; eassumption|]. cbn. auto.
  - exists c'. split; [eapply nth_error_In; eassumption|auto].
Qed.

Lemma J_of_core k s s' : same_core k s s' -> out s' = out s -> heap s' = heap s -> J s -> J s'.
Proof. intros (a & b & _). intros. eapply J_same_heap; eassumption. Qed.

Lemma mono_core k s s' : same_core k s s' -> mono s s'.
Proof. intros (a & _). apply mono_ids. exact a. Qed.

Strategy 1000 [iteration run].

Theorem run_J fuel : forall e tk s s' r,
  run fuel e tk s = Ok (s', r) -> J s -> J s' /\ mono s s'.
Proof.
  induction fuel as [|n IH]; intros e tk s s' r H HJ; [discriminate|].
  cbn [run] in H. destruct tk as [l c|x c|t|t i cnt last|t i|h fs|d].
  - destruct l as [|x l]; [injection H as <- _; split; [exact HJ|apply mono_refl]|].
    dbind H as [s1 r1]. destruct (IH _ _ _ _ _ E HJ) as [J1 M1].
    destruct (IH _ _ _ _ _ H J1) as [J2 M2]. split; [exact J2|eapply mono_trans; eassumption].
  - destruct x as [t|name d].
    + destruct (t_once t && c); [injection H as <- _; split; [exact HJ|apply mono_refl]|].
      dbind H as [s1 r1]. injection H as <- _. eapply IH; eassumption.
    + dbind H as [s1 r1]. injection H as <- _.
      assert (J0 : J (push_frame s)) by (eapply J_of_core; [apply (push_frame_core 0)|reflexivity|reflexivity|exact HJ]).
      destruct (IH _ _ _ _ _ E J0) as [J1 M1].
      assert (C1 : same_core 0 s1 (set_var (pop_frame s1) name (ret_value r1))).
      { eapply same_core_trans; [apply pop_frame_core|apply set_var_core]. }
      split.
      * eapply J_of_core; [exact C1|rewrite set_var_out, pop_frame_out; reflexivity
                          |rewrite set_var_heap, pop_frame_heap; reflexivity|exact J1].
      * eapply mono_trans; [exact M1|]. eapply mono_core; exact C1.
  - dbind H as [s1 cnt]. dbind H as [s2 r2]. injection H as <- _.
    assert (J0 : J (push_frame s)) by (eapply J_of_core; [apply (push_frame_core 0)|reflexivity|reflexivity|exact HJ]).
    assert (H1 : J s1 /\ mono s s1).
    { destruct (t_count t) as [d|].
      - dbind E as [s1' r1]. dbind E as w0. injection E as <- _.
        destruct (IH _ _ _ _ _ E1 J0) as [a b]. split; [exact a|exact b].
      - injection E as <- _. split; [exact J0|eapply mono_core; apply (push_frame_core 0)]. }
    destruct H1 as [J1 M1]. destruct (IH _ _ _ _ _ E0 J1) as [J2 M2].
    split.
    + eapply J_of_core; [apply (pop_frame_core 0)|apply pop_frame_out|apply pop_frame_heap|exact J2].
    + eapply mono_trans; [exact M1|]. eapply mono_trans; [exact M2|].
      eapply mono_core. apply (pop_frame_core 0).
  - destruct (i <? cnt); [|injection H as <- _; split; [exact HJ|apply mono_refl]].
    dbind H as [s1 r1].
    assert (J0 : J (set_var s "child_index" (VInt i))).
    { eapply J_of_core; [apply (set_var_core 0)|apply set_var_out|apply set_var_heap|exact HJ]. }
    destruct (IH _ _ _ _ _ E J0) as [J1 M1].
    destruct r1; try discriminate. destruct (IH _ _ _ _ _ H J1) as [J2 M2].
    split; [exact J2|]. eapply mono_trans; [|exact M2]. eapply mono_trans; [|exact M1].
    eapply mono_core. apply (set_var_core 0).
  - destruct (new_row_id s (t_table t) (t_nick t)) as [s1 id] eqn:Hid.
    dbind H as [s4 r4].
    destruct (nth_error (heap s4) (length (heap s1))) as [c|] eqn:Hc; [|discriminate].
    dbind H as s6. dbind H as [s7 r7]. injection H as <- _.
    destruct (new_row_J _ _ _ _ _ i [] Hid HJ) as [J2 M1].
    set (s2 := upd_heap s1 (heap s1 ++ [mkCell (t_table t) id i []])) in *.
    set (s3 := register_object (set_obj s2 (length (heap s1))) (length (heap s1)) (t_table t) (t_nick t) (t_once t)) in *.
    assert (C23 : same_core 0 s2 s3).
    { eapply same_core_trans; [apply set_obj_core|apply register_object_core]. }
    assert (J3 : J s3).
    { eapply J_of_core; [exact C23| | |exact J2]; unfold s3.
      - rewrite register_object_out, set_obj_out. reflexivity.
      - rewrite register_object_heap, set_obj_heap. reflexivity. }
    destruct (IH _ _ _ _ _ E J3) as [J4 M4].
    assert (C45 : same_core 0 s4 (remember_deps s4 (t_table t) (c_fields c))) by apply remember_deps_core.
    assert (J5 : J (remember_deps s4 (t_table t) (c_fields c))).
    { eapply J_of_core; [exact C45|apply remember_deps_out|apply remember_deps_heap|exact J4]. }
    destruct (write_row_J _ _ _ E0 J5) as [J6 M6].
    destruct (IH _ _ _ _ _ E1 J6) as [J7 M7].
    split; [exact J7|].
    eapply mono_trans; [exact M1|]. eapply mono_trans; [|exact M7]. eapply mono_trans; [|exact M6].
    eapply mono_trans; [|eapply mono_core; exact C45].
    eapply mono_trans; [|exact M4].
    eapply mono_trans; [|eapply mono_core; exact C23]. apply mono_ids. reflexivity.
  - destruct fs as [|[name d] fs]; [injection H as <- _; split; [exact HJ|apply mono_refl]|].
    destruct (String.eqb name "id"); [discriminate|].
    dbind H as [s1 v]. destruct (IH _ _ _ _ _ E HJ) as [J1 M1].
    destruct (set_field_core 0 s1 h name (ret_value v)) as (Ci & Cs & _).
    assert (J1' : J (set_field s1 h name (ret_value v))).
    { eapply J_frame; [exact Ci|exact Cs|apply set_field_out| |exact J1].
      intros c' Hc'. eapply set_field_keys; eassumption. }
    destruct (IH _ _ _ _ _ H J1') as [J2 M2]. split; [exact J2|].
    eapply mono_trans; [exact M1|]. eapply mono_trans; [|exact M2]. apply mono_ids. exact Ci.
  - destruct d as [z|x|ps|path|t].
    + injection H as <- _. split; [exact HJ|apply mono_refl].
    + destruct (version e =? 3); [injection H as <- _; split; [exact HJ|apply mono_refl]|].
      dbind H as w0. injection H as <- _. split; [exact HJ|apply mono_refl].
    + dbind H as [s1 v]. injection H as <- _. apply render_formula_jq in E. destruct E as [a b]. auto.
    + dbind H as [s1 v]. injection H as <- _. apply reference_jq in E. destruct E as [a b]. auto.
    + eapply IH; eassumption.
Qed.

Lemma iteration_J e stmts c s s' : iteration e stmts c s = Ok s' -> J s -> J s' /\ mono s s'.
Proof.
  unfold iteration. intros H HJ. dbind H as [s1 r].
  destruct (slots_filled s1); [|discriminate].
  destruct (stale_slot 4 s1 (survivors s1)); [discriminate|]. injection H as <-.
  destruct (run_J _ _ _ _ _ _ E HJ) as [[(B1 & B2 & B3) R1] M1]. split; [|exact M1].
  unfold J, Bd, refs_bounded. split; [splits|]; auto.
  intros n sl i Hin Ha. cbn [slots reset_slots] in Hin. unfold fresh_slots in Hin.
  apply in_map_iff in Hin. destruct Hin as ([n' t'] & Heq & _). injection Heq as <- <-. discriminate.
Qed.

Lemma iterations_J k : forall e stmts c s s', iterations k e stmts c s = Ok s' -> J s -> J s' /\ mono s s'.
Proof.
  induction k as [|k IH]; intros e stmts c s s' H HJ; cbn [iterations] in H.
  - injection H as <-. split; [exact HJ|apply mono_refl].
  - dbind H as s1. destruct (iteration_J _ _ _ _ _ E HJ) as [J1 M1].
    destruct (IH _ _ _ _ _ H J1) as [J2 M2]. split; [exact J2|eapply mono_trans; eassumption].
Qed.

(* ------------------------------------------------------------------ no dangling references *)

Lemma written_In T o i : In i (written T o) -> exists r, In r o /\ fst r = T /\ orow_id r = [i].
Proof.
  unfold written. intros H. apply in_flat_map in H. destruct H as (r & Hr & Hi).
  destruct (String.eqb (fst r) T) eqn:E; [|destruct Hi]. apply String.eqb_eq in E.
  exists r. split; [exact Hr|]. split; [exact E|].
  unfold orow_id in *. destruct (snd r) as [|[n v] rest]; [destruct Hi|].
  destruct v; try (destruct Hi; fail). destruct Hi as [<-|[]]. reflexivity.
Qed.

(* One run from an admissible start state whose heap and slots hold only issued ids.  Every
   reference (T, i) in the output of the run, T visible, either names an id issued before
   the run started (a row of an earlier run) or is the id of a row written by this run. *)
Theorem no_dangling_run e stmts c k s0 s :
  start_ok s0 -> Bd s0 -> iterations k e stmts c s0 = Ok s ->
  forall row n T i, In row (out s) -> In (n, ORef T i) (snd row) -> hidden T = false ->
    (1 <= i <= last_id s0 T) \/ exists row', In row' (out s) /\ fst row' = T /\ orow_id row' = [i].
Proof.
  intros Hs0 HB H row n T i Hr Hin HT.
  assert (HJ0 : J s0).
  { split; [exact HB|]. destruct Hs0 as (_ & _ & _ & Ho). intros ? ? ? ? Hx. rewrite Ho in Hx. destruct Hx. }
  destruct (iterations_J _ _ _ _ _ _ H HJ0) as [[_ R] _].
  specialize (R row n T i Hr Hin).
  destruct (ids_dense_run _ _ _ _ _ _ Hs0 H) as [_ HD]. destruct (HD T) as [Hle HP]. specialize (HP HT).
  destruct (Z_le_dec i (last_id s0 T)) as [Hold|Hnew]; [left; lia|right].
  apply written_In. apply (Permutation_in _ (Permutation_sym HP)). apply Zseq_In. lia.
Qed.

Lemma init_Bd e : Bd (init_st e).
Proof.
  unfold Bd. cbn [init_st heap slots]. splits.
  - intros c [].
  - intros n sl i Hin Ha. unfold fresh_slots in Hin. apply in_map_iff in Hin.
    destruct Hin as ([n' t'] & Heq & _). injection Heq as <- <-. discriminate.
  - intros T. unfold last_id. cbn. lia.
Qed.

(* Fresh run, any recipe of the fragment, any number of iterations: every reference written
   to a visible table resolves to a row of the same output.  (Taking k = 1, 2, ... shows
   that it resolves by the end of the iteration that wrote it.) *)
Theorem no_dangling_fresh r k s :
  run_fresh r k = Ok s ->
  forall row n T i, In row (out s) -> In (n, ORef T i) (snd row) -> hidden T = false ->
    exists row', In row' (out s) /\ fst row' = T /\ orow_id row' = [i].
Proof.
  unfold run_fresh. intros H row n T i Hr Hin HT.
  destruct (no_dangling_run _ _ _ _ _ _ (init_start_ok _) (init_Bd _) H row n T i Hr Hin HT) as [Hold|Hnew];
    [|exact Hnew].
  unfold last_id in Hold. cbn in Hold. lia.
Qed.

(* a forward reference that is never fulfilled makes the iteration fail *)
Theorem unfulfilled_forward_reference_fails e stmts c s s1 r :
  run fuel0 e (TStmts stmts c) s = Ok (s1, r) -> slots_filled s1 = false ->
  iteration e stmts c s = Err (DGE "references-not-fulfilled").
Proof. unfold iteration. intros -> H. cbn [bind]. rewrite H. reflexivity. Qed.

(* ------------------------------------------------------------------ continued runs *)

Lemma clean_handles_keys hs : forall h h1, clean_handles h hs = Ok h1 ->
  forall c', In c' h1 -> exists c, In c h /\ c_table c' = c_table c /\ c_id c' = c_id c.
Proof.
  induction hs as [|x r IH]; intros h h1 H c' Hin; cbn [clean_handles] in H.
  - injection H as <-. exists c'. auto.
  - destruct (nth_error h x) as [c|] eqn:Hc; [|discriminate].
    dbind H as fs. destruct (IH _ _ H c' Hin) as (c1 & Hc1 & Ht & Hi).
    apply In_nth_error in Hc1. destruct Hc1 as [j Hj]. rewrite nth_error_set_nth in Hj.
    destruct (Nat.eqb x j) eqn:Ej.
    + apply Nat.eqb_eq in Ej. subst j. rewrite Hc in Hj. injection Hj as <-.
      exists c. split; [eapply nth_error_In; eassumption|]. cbn [c_table c_id] in *. auto.
    + exists c1. split; [eapply nth_error_In; eassumption|auto].
Qed.

Lemma load_Bd e s c : Bd s -> save s = Ok c -> Bd (load e c).
Proof.
  intros (B1 & B2 & B3) H. unfold save in H. dbind H as h1. injection H as <-.
  unfold Bd, load. cbn [heap slots k_heap k_ids]. splits.
  - intros c' Hc'. unfold last_id. cbn [ids].
    destruct (clean_handles_keys _ _ _ E _ Hc') as (c0 & Hc0 & Ht & Hi). rewrite Ht, Hi. apply B1. exact Hc0.
  - intros n sl i Hin Ha. unfold fresh_slots in Hin. apply in_map_iff in Hin.
    destruct Hin as ([n' t'] & Heq & _). injection Heq as <- <-. discriminate.
  - intros T. apply B3.
Qed.

Lemma J_Bd s : J s -> Bd s.
Proof. intros [B _]. exact B. Qed.

(* A continued run: every reference it writes resolves to a row written by this run or names
   an id issued by an earlier run (recorded in the continuation file it started from). *)
Theorem no_dangling_continued r k s c s' :
  Bd s -> save s = Ok c ->
  (forall T, 0 <= match lookup T (k_ids c) with Some z => z | None => 0 end) ->
  run_one r k (Some c) = Ok s' ->
  forall row n T i, In row (out s') -> In (n, ORef T i) (snd row) -> hidden T = false ->
    (1 <= i <= last_id s T) \/ exists row', In row' (out s') /\ fst row' = T /\ orow_id row' = [i].
Proof.
  intros HB Hs Hnn H row n T i Hr Hin HT. cbn [run_one] in H.
  pose proof (no_dangling_run _ _ _ _ _ _ (load_start_ok _ _ Hnn) (load_Bd _ _ _ HB Hs) H row n T i Hr Hin HT) as R.
  rewrite (resume_after_highest _ _ _ _ Hs) in R. exact R.
Qed.
