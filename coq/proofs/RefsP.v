(* RefsP.v — property C02 at the level of the SF-core interpreter: every reference value
   written to the output names an id that has been issued for its table; together with C01
   (every issued id of a visible table is written by the end of the iteration) no written
   reference dangles.                                                                    *)
From Coq Require Import ZArith List Lia Bool Permutation ZifyBool.
From SFV Require Import Base Interp.
From SFV Require Import RandRange RowHistory.
From SFV.P Require Import BaseP InterpP InterpHeapP QuietP IdsP.
Import ListNotations. Open Scope Z_scope.

(* ------------------------------------------------------------------ bounded ids *)

(* every id held by a heap cell or an allocated slot has been issued: 1 <= id <= last *)
Definition Bd (s : st) : Prop :=
  (forall c, In c (heap s) -> 1 <= c_id c <= last_id s (c_table c)) /\
  (forall n sl i, In (n, sl) (slots s) -> s_alloc sl = Some i -> 1 <= i <= last_id s (s_table sl)) /\
  (forall T, 0 <= last_id s T).

(* every reference already written is bounded by the current counters *)
Definition refs_bounded (s : st) : Prop :=
  forall row n T i, In row (out s) -> In (n, ORef T i) (snd row) -> 1 <= i <= last_id s T.

(* counters never decrease *)
Definition mono (s s' : st) : Prop := forall T, last_id s T <= last_id s' T.

Lemma mono_refl s : mono s s.
Proof. intros T. lia. Qed.
Lemma mono_trans a b c : mono a b -> mono b c -> mono a c.
Proof. intros H1 H2 T. specialize (H1 T). specialize (H2 T). lia. Qed.
Lemma mono_ids s s' : ids s' = ids s -> mono s s'.
Proof. intros E T. unfold last_id. rewrite E. lia. Qed.

Lemma In_assign {A} k (v : A) l x : In x (assign k v l) -> x = (k, v) \/ In x l.
Proof.
  induction l as [|[k' v'] r IH]; cbn [assign].
  - intros [H|[]]. left. congruence.
  - destruct (String.eqb k k'); cbn [In]; intros [H|H]; auto.
    destruct (IH H); auto.
Qed.

(* the combined invariant *)
Definition J (s : st) : Prop := Bd s /\ refs_bounded s.

(* steps that keep ids, slots, heap keys and output: J is preserved *)
Lemma J_frame s s' :
  ids s' = ids s -> slots s' = slots s -> out s' = out s ->
  (forall c', In c' (heap s') -> exists c, In c (heap s) /\ c_table c' = c_table c /\ c_id c' = c_id c) ->
  J s -> J s'.
Proof.
  intros Hi Hs Ho Hh [(B1 & B2 & B3) R]. unfold J, Bd, refs_bounded, last_id in *. rewrite Hi, Hs, Ho.
  splits; auto.
  intros c' Hc'. destruct (Hh c' Hc') as (c & Hc & Ht & Hid). rewrite Ht, Hid. auto.
Qed.

Lemma J_same_heap s s' :
  ids s' = ids s -> slots s' = slots s -> out s' = out s -> heap s' = heap s -> J s -> J s'.
Proof.
  intros Hi Hs Ho Hh. apply J_frame; auto. intros c' Hc'. exists c'. rewrite <- Hh. auto.
Qed.

Lemma generate_id_J s t : J s -> J (fst (generate_id s t)) /\ mono s (fst (generate_id s t)) /\
  1 <= snd (generate_id s t) <= last_id (fst (generate_id s t)) t.
Proof.
  intros [(B1 & B2 & B3) R].
  assert (Hm : mono s (fst (generate_id s t))).
  { unfold mono. intros T. rewrite last_id_generate. destruct (String.eqb T t) eqn:E; [|lia].
    apply String.eqb_eq in E. subst. lia. }
  split; [|split; [exact Hm|]].
  - unfold J, Bd, refs_bounded. split; [splits|].
    + intros c Hc. specialize (B1 c Hc). specialize (Hm (c_table c)). cbn [generate_id fst heap upd_ids] in *. lia.
    + intros n sl i Hin Ha. specialize (B2 n sl i Hin Ha). specialize (Hm (s_table sl)).
      cbn [generate_id fst slots upd_ids] in *. lia.
    + intros T. specialize (B3 T). specialize (Hm T). lia.
    + intros row n T i Hr Hin. specialize (R row n T i Hr Hin). specialize (Hm T). lia.
  - rewrite last_id_generate, String.eqb_refl. cbn [generate_id snd]. specialize (B3 t). lia.
Qed.

Lemma touch_slot_J s n s' i :
  touch_slot s n = Ok (s', i) -> J s ->
  J s' /\ mono s s' /\ exists sl, lookup n (slots s) = Some sl /\ 1 <= i <= last_id s' (s_table sl).
Proof.
  unfold touch_slot. destruct (lookup n (slots s)) as [sl|] eqn:Hl; [|discriminate].
  destruct (s_alloc sl) as [j|] eqn:Ha.
  - intros H HJ. injection H as <- <-. splits; [exact HJ|apply mono_refl|].
    exists sl. split; [reflexivity|]. destruct HJ as [(_ & B2 & _) _].
    destruct (lookup_In _ _ _ Hl) as (k' & Hin). eapply B2; eauto.
  - intros H HJ. injection H as <- <-.
    destruct (generate_id_J s (s_table sl) HJ) as (HJ1 & Hm & Hb).
    unfold generate_id in *. cbn [fst snd] in *.
    set (s1 := upd_ids s (assign (s_table sl) (last_id s (s_table sl) + 1) (ids s))) in *.
    splits.
    + destruct HJ1 as [(B1 & B2 & B3) R]. unfold J, Bd, refs_bounded. split; [splits|]; auto.
      intros n' sl' i' Hin Ha'. cbn [slots upd_slots] in Hin. apply In_assign in Hin.
      destruct Hin as [Heq|Hin].
      * injection Heq as Hn Hsl. subst sl'. cbn [s_alloc s_table] in Ha' |- *.
        assert (Hi' : i' = last_id s (s_table sl) + 1) by congruence. subst i'. exact Hb.
      * eapply B2; eauto.
    + exact Hm.
    + exists sl. split; [reflexivity|]. exact Hb.
Qed.

(* expressions, formulas, references: J and mono *)
Definition jq (s s' : st) : Prop := (J s -> J s') /\ mono s s'.
Lemma jq_refl s : jq s s.
Proof. split; [auto|apply mono_refl]. Qed.
Lemma jq_trans a b c : jq a b -> jq b c -> jq a c.
Proof. intros [H1 M1] [H2 M2]. split; [auto|eapply mono_trans; eassumption]. Qed.
Lemma touch_slot_jq s n s' i : touch_slot s n = Ok (s', i) -> jq s s'.
Proof.
  intros H. split.
  - intros HJ. apply (touch_slot_J _ _ _ _ H HJ).
  - (* mono does not need J *)
    unfold touch_slot in H. destruct (lookup n (slots s)) as [sl|]; [|discriminate].
    destruct (s_alloc sl); injection H as <- _; [apply mono_refl|].
    match goal with |- mono _ ?s2 =>
      assert (Hx : forall T, last_id s2 T = last_id (fst (generate_id s (s_table sl))) T) by reflexivity end.
    unfold mono. intros T. rewrite Hx, last_id_generate.
    destruct (String.eqb T (s_table sl)) eqn:E; [|lia].
    apply String.eqb_eq in E. subst. lia.
Qed.

Lemma eval_expr_jq e x : forall s s' v, eval_expr e x s = Ok (s', v) -> jq s s'.
Proof.
  induction x as [z|n|a IHa f|a IHa b IHb|a IHa b IHb|a IHa b IHb]; intros s s' v H; cbn [eval_expr] in H.
  - injection H as <- _. apply jq_refl.
  - dbind H as o. destruct o; injection H as <- _; apply jq_refl.
  - dbind H as [s1 v1]. apply IHa in E.
    destruct v1; try discriminate;
      try (destruct (py_own_attr f); [discriminate|]);
      try (injection H as <- _; exact E);
      try (dbind H as w0; injection H as <- _; exact E).
    + destruct (nth_error (heap s1) h); [|discriminate].
      destruct (row_attr c f); injection H as <- _; exact E.
    + destruct (String.eqb f "id"); [|discriminate]. dbind H as [s2 i].
      injection H as <- _. apply touch_slot_jq in E0. eapply jq_trans; eassumption.
  - dbind H as [s1 v1]. dbind H as [s2 v2]. apply IHa in E. apply IHb in E0.
    destruct v1, v2; try discriminate; injection H as <- _; eapply jq_trans; eassumption.
  - dbind H as [s1 v1]. dbind H as [s2 v2]. apply IHa in E. apply IHb in E0.
    destruct v1, v2; try discriminate; injection H as <- _; eapply jq_trans; eassumption.
  - dbind H as [s1 v1]. dbind H as [s2 v2]. apply IHa in E. apply IHb in E0.
    destruct v1, v2; try discriminate; injection H as <- _; eapply jq_trans; eassumption.
Qed.

Lemma render_pieces_jq e ps : forall s s' t, render_pieces e ps s = Ok (s', t) -> jq s s'.
Proof.
  induction ps as [|p ps IH]; intros s s' t H; cbn [render_pieces] in H.
  - injection H as <- _. apply jq_refl.
  - destruct p as [tx|x].
    + dbind H as [s1 rest]. injection H as <- _. eauto.
    + dbind H as [s1 v]. dbind H as w0. dbind H as [s2 rest].
      injection H as <- _. apply eval_expr_jq in E. apply IH in E1. eapply jq_trans; eassumption.
Qed.

Lemma render_formula_jq e ps s s' v : render_formula e ps s = Ok (s', v) -> jq s s'.
Proof.
  unfold render_formula. intros H.
  destruct (version e =? 3).
  - destruct ps as [|[tx|x] [|p2 r]];
      try (dbind H as [s1 t]; dbind H as w0; injection H as <- _;
           apply render_pieces_jq in E; exact E).
    dbind H as [s1 w]. apply eval_expr_jq in E.
    destruct w; try discriminate; try (injection H as <- _; exact E).
    dbind H as w0. injection H as <- _. exact E.
  - dbind H as [s1 t]. dbind H as w0. injection H as <- _.
    apply render_pieces_jq in E. exact E.
Qed.

Lemma follow_path_jq parts : forall s v s' w, follow_path s v parts = Ok (s', w) -> jq s s'.
Proof.
  induction parts as [|p r IH]; intros s v s' w H; cbn [follow_path] in H.
  - injection H as <- _. apply jq_refl.
  - dbind H as [s1 w1]. apply IH in H. eapply jq_trans; [|exact H].
    unfold getattr_path in E. destruct v; try discriminate.
    + destruct (nth_error (heap s) h); [|discriminate].
      destruct (row_attr c p); [|discriminate]. injection E as <- _. apply jq_refl.
    + destruct (String.eqb p "id"); [|discriminate]. dbind E as [s2 i].
      injection E as <- _. apply touch_slot_jq in E0. exact E0.
    + dbind E as w0. injection E as <- _. apply jq_refl.
Qed.

Lemma reference_jq e path s s' v : reference e path s = Ok (s', v) -> jq s s'.
Proof.
  unfold reference. intros H.
  destruct (split_dot path) as [|first parts]; [discriminate|].
  dbind H as o. destruct o as [v0|]; [|destruct parts; discriminate].
  dbind H as [s1 target]. apply follow_path_jq in E0.
  destruct target; try discriminate.
  - injection H as <- _. exact E0.
  - dbind H as [s2 i]. injection H as <- _.
    apply touch_slot_jq in E1. eapply jq_trans; eassumption.
  - injection H as <- _. exact E0.
Qed.

(* ------------------------------------------------------------------ random references: every
   reference value held anywhere (row fields, variables) and everything the row history can
   hand out is bounded by the id counters *)

Definition val_ok (s : st) (v : value) : Prop :=
  match v with VRef T i => 1 <= i <= last_id s T | _ => True end.

Lemma val_ok_mono s s' v : mono s s' -> val_ok s v -> val_ok s' v.
Proof. destruct v; auto. cbn [val_ok]. intros M H. specialize (M table). lia. Qed.

Definition hist_ok_on (last : string -> Z) (h : rh) : Prop :=
  (forall r, In r (hrows h) -> 1 <= h_id r <= last (h_table r)) /\
  (forall name v, lookupZ name (tc h) = Some v -> v <= last name) /\
  (forall k v, lookupZ k (tc h) = Some v -> 0 <= v) /\
  (forall k v, lookupZ k (lc h) = Some v -> 0 <= v) /\
  (forall k v, In (k, v) (nc h) -> 0 <= v).

Definition hist_ok (s : st) : Prop := hist_ok_on (last_id s) (hist (rnd s)).

Definition V (s : st) : Prop :=
  (forall c n v, In c (heap s) -> In (n, v) (c_fields c) -> val_ok s v) /\
  (forall f n v, In f (frames s) -> In (n, v) (f_vars f) -> val_ok s v) /\
  hist_ok s.

Lemma V_transfer s s' :
  heap s' = heap s -> frames s' = frames s -> hist (rnd s') = hist (rnd s) -> mono s s' -> V s -> V s'.
Proof.
  intros Hh Hf Hr M (V1 & V2 & (H1 & H2 & H3 & H4 & H5)). unfold V, hist_ok, hist_ok_on. rewrite Hh, Hf, Hr. splits.
  - intros c n v Hc Hin. eapply val_ok_mono; [exact M|]. eapply V1; eassumption.
  - intros f n v Hc Hin. eapply val_ok_mono; [exact M|]. eapply V2; eassumption.
  - intros r Hr'. specialize (H1 r Hr'). specialize (M (h_table r)). lia.
  - intros name v Hv. specialize (H2 name v Hv). specialize (M name). lia.
  - exact H3.
  - exact H4.
  - exact H5.
Qed.

Lemma V_so s s' : so s s' -> mono s s' -> V s -> V s'.
Proof. intros (a & b & c & _) M. apply V_transfer; auto. rewrite c. reflexivity. Qed.

Lemma V_rnd_draws s dr : V s -> V (upd_rnd s (mkR (hist (rnd s)) dr)).
Proof. apply (V_transfer s (upd_rnd s _)); try reflexivity. apply mono_ids. reflexivity. Qed.

(* values read from the namespace *)
Lemma In_cur_frame s f : frames s = f :: tl (frames s) -> In f (frames s).
Proof. intros ->. left. reflexivity. Qed.

Lemma lookup_name_ok e s n v : V s -> lookup_name e s n = Ok (Some v) -> val_ok s v.
Proof.
  intros (V1 & V2 & _). unfold lookup_name.
  destruct (reserved_name n); [discriminate|].
  destruct (lookup n (f_vars (cur_frame s))) as [w|] eqn:E1.
  { intros H. injection H as <-. destruct (lookup_In _ _ _ E1) as (k' & Hin).
    unfold cur_frame in Hin. destruct (frames s) as [|f r] eqn:Ef; [destruct Hin|].
    eapply (V2 f); [try rewrite Ef; left; reflexivity|exact Hin]. }
  destruct (match cur_obj s with Some c => row_attr c n | None => None end) as [w|] eqn:E2.
  { intros H. injection H as <-. unfold cur_obj in E2.
    destruct (f_obj (cur_frame s)) as [h|]; [|discriminate].
    destruct (nth_error (heap s) h) as [c|] eqn:Hc; [|discriminate].
    unfold row_attr in E2. destruct (String.eqb n "id"); [injection E2 as <-; exact I|].
    destruct (lookup_In _ _ _ E2) as (k' & Hin). eapply (V1 c); [eapply nth_error_In; exact Hc|exact Hin]. }
  destruct (object_name s n) as [w|] eqn:E3.
  { intros H. injection H as <-. unfold object_name in E3.
    repeat match type of E3 with
           | match ?x with Some _ => _ | None => _ end = _ => destruct x
           end; try discriminate; injection E3 as <-; exact I. }
  destruct (lookup n (options e)) as [w|] eqn:E4.
  { destruct w; try discriminate; intros H; injection H as <-; exact I. }
  destruct (String.eqb n "id" || String.eqb n "count");
    [intros H; injection H as <-; destruct (cur_obj s); exact I|].
  destruct (String.eqb n "child_index"); [intros H; injection H as <-; destruct (cur_obj s); exact I|].
  destruct (String.eqb n "this"); [intros H; injection H as <-; destruct (f_obj (cur_frame s)); exact I|].
  discriminate.
Qed.

Lemma find_cell_In t i l c : find_cell t i l = Some c -> In c l.
Proof.
  induction l as [|c0 l IH]; cbn [find_cell]; [discriminate|].
  destruct (_ && _); [intros H; injection H as <-; left; reflexivity|intros H; right; auto].
Qed.

(* a field read through a random_reference comes out of a heap cell, so it is as good as the heap *)
Lemma hist_attr_ok s t i f w : V s -> hist_attr (hist (rnd s)) (heap s) t i f = Ok w -> val_ok s w.
Proof.
  intros (Va & _) H. unfold hist_attr in H.
  destruct (String.eqb f "id"); [injection H as <-; exact I|].
  destruct (_ || _); [discriminate|]. destruct (negb _); [discriminate|].
  destruct (find_cell t i (heap s)) as [c|] eqn:Hc; [|discriminate].
  destruct (lookup f (c_fields c)) as [w0|] eqn:Hw; [|discriminate].
  destruct (lookup_In _ _ _ Hw) as (k' & Hin).
  assert (Hok : val_ok s w0) by (eapply (Va c); [eapply find_cell_In; exact Hc|exact Hin]).
  destruct w0; try discriminate; injection H as <-; exact Hok.
Qed.

Lemma eval_expr_V e x : forall s s' v, eval_expr e x s = Ok (s', v) -> V s -> V s' /\ val_ok s' v.
Proof.
  assert (HV : forall s s' v, eval_expr e x s = Ok (s', v) -> V s -> V s').
  { intros s s' v H. apply V_so; [eapply eval_expr_so; exact H|]. apply (eval_expr_jq _ _ _ _ _ H). }
  induction x as [z|n|a IHa f|a IHa b IHb|a IHa b IHb|a IHa b IHb]; intros s s' v H HVs;
    (split; [eapply HV; eassumption|]); cbn [eval_expr] in H.
  - injection H as _ <-. exact I.
  - dbind H as o. destruct o as [w|]; injection H as <- <-; [|exact I].
    eapply lookup_name_ok; eassumption.
  - dbind H as [s1 v1].
    assert (V1' : V s1) by (eapply V_so; [eapply eval_expr_so; exact E|apply (eval_expr_jq _ _ _ _ _ E)|exact HVs]).
    destruct v1; try discriminate;
      try (destruct (py_own_attr f); [discriminate|]);
      try (injection H as _ <-; exact I);
      try (dbind H as w0; injection H as <- <-; eapply hist_attr_ok; [exact V1'|exact E0]).
    + destruct (nth_error (heap s1) h) as [c|] eqn:Hc; [|discriminate].
      destruct (row_attr c f) as [w|] eqn:Hw; injection H as <- <-; [|exact I].
      unfold row_attr in Hw. destruct (String.eqb f "id"); [injection Hw as <-; exact I|].
      destruct (lookup_In _ _ _ Hw) as (k' & Hin). destruct V1' as (Va & _).
      eapply (Va c); [eapply nth_error_In; exact Hc|exact Hin].
    + destruct (String.eqb f "id"); [|discriminate]. dbind H as [s2 i]. injection H as _ <-. exact I.
  - dbind H as [s1 v1]. dbind H as [s2 v2].
    destruct v1, v2; try discriminate; injection H as _ <-; exact I.
  - dbind H as [s1 v1]. dbind H as [s2 v2].
    destruct v1, v2; try discriminate; injection H as _ <-; exact I.
  - dbind H as [s1 v1]. dbind H as [s2 v2].
    destruct v1, v2; try discriminate; injection H as _ <-; exact I.
Qed.

Definition not_ref (v : value) : Prop := match v with VRef _ _ => False | _ => True end.
Lemma not_ref_ok s v : not_ref v -> val_ok s v.
Proof. destruct v; cbn; tauto. Qed.

Lemma look_for_number_not_ref t w : look_for_number t = Ok w -> not_ref w.
Proof.
  unfold look_for_number. destruct (has_dot t); [discriminate|].
  destruct t; [intros H; injection H as <-; exact I|].
  destruct (first_is_zero _); [intros H; injection H as <-; exact I|].
  destruct (all_digits _); intros H; injection H as <-; exact I.
Qed.

Lemma native_str_not_ref t w : native_str t = Ok w -> not_ref w.
Proof.
  unfold native_str. destruct t; [intros H; injection H as <-; exact I|].
  destruct (negb (str_all is_sigma _)); [discriminate|].
  destruct (first_is is_space _); [intros H; injection H as <-; exact I|].
  destruct (_ && _); [discriminate|].
  destruct (dec_literal _); [intros H; injection H as <-; exact I|].
  destruct (String.eqb _ "None"); [intros H; injection H as <-; exact I|].
  destruct (_ || _); [discriminate|]. intros H; injection H as <-; exact I.
Qed.

Lemma render_formula_V e ps s s' v : render_formula e ps s = Ok (s', v) -> V s -> V s' /\ val_ok s' v.
Proof.
  intros H HVs. split.
  { eapply V_so; [eapply render_formula_so; exact H|apply (render_formula_jq _ _ _ _ _ H)|exact HVs]. }
  unfold render_formula in H. destruct (version e =? 3).
  - destruct ps as [|[tx|x] [|p2 r]];
      try (dbind H as [s1 t]; dbind H as w0; injection H as _ <-;
           apply not_ref_ok; eapply native_str_not_ref; exact E0).
    dbind H as [s1 w]. destruct (eval_expr_V _ _ _ _ _ E HVs) as [_ Hw].
    destruct w; try discriminate; try (injection H as <- <-; exact Hw).
    dbind H as w0. injection H as _ <-. apply not_ref_ok. eapply native_str_not_ref; exact E0.
  - dbind H as [s1 t]. dbind H as w0. injection H as _ <-.
    apply not_ref_ok. eapply look_for_number_not_ref; exact E0.
Qed.

Lemma getattr_path_V s v p s' w : getattr_path s v p = Ok (s', w) -> V s -> V s' /\ val_ok s' w.
Proof.
  intros H HVs.
  assert (M : mono s s').
  { unfold getattr_path in H. destruct v; try discriminate.
    - destruct (nth_error (heap s) h); [|discriminate]. destruct (row_attr c p); [|discriminate].
      injection H as <- _. apply mono_refl.
    - destruct (String.eqb p "id"); [|discriminate]. dbind H as [s2 i]. injection H as <- _.
      apply (touch_slot_jq _ _ _ _ E).
    - dbind H as w0. injection H as <- _. apply mono_refl. }
  split; [eapply V_so; [eapply getattr_path_so; exact H|exact M|exact HVs]|].
  unfold getattr_path in H. destruct v; try discriminate.
  - destruct (nth_error (heap s) h) as [c|] eqn:Hc; [|discriminate].
    destruct (row_attr c p) as [w0|] eqn:Hw; [|discriminate]. injection H as <- <-.
    unfold row_attr in Hw. destruct (String.eqb p "id"); [injection Hw as <-; exact I|].
    destruct (lookup_In _ _ _ Hw) as (k' & Hin). destruct HVs as (Va & _).
    eapply (Va c); [eapply nth_error_In; exact Hc|exact Hin].
  - destruct (String.eqb p "id"); [|discriminate]. dbind H as [s2 i]. injection H as _ <-. exact I.
  - dbind H as w0. injection H as <- <-. eapply hist_attr_ok; [exact HVs|exact E].
Qed.

Lemma follow_path_V parts : forall s v s' w,
  follow_path s v parts = Ok (s', w) -> V s -> val_ok s v -> V s' /\ val_ok s' w.
Proof.
  induction parts as [|p r IH]; intros s v s' w H HVs Hv; cbn [follow_path] in H.
  - injection H as <- <-. auto.
  - dbind H as [s1 w1]. destruct (getattr_path_V _ _ _ _ _ E HVs) as [V1 Hw1]. eapply IH; eassumption.
Qed.

Lemma reference_V e path s s' v : reference e path s = Ok (s', v) -> V s -> V s' /\ val_ok s' v.
Proof.
  intros H HVs. split.
  { eapply V_so; [eapply reference_so; exact H|apply (reference_jq _ _ _ _ _ H)|exact HVs]. }
  unfold reference in H. destruct (split_dot path) as [|first parts]; [discriminate|].
  dbind H as o. destruct o as [v0|]; [|destruct parts; discriminate].
  dbind H as [s1 target].
  destruct (follow_path_V _ _ _ _ _ E0 HVs (lookup_name_ok _ _ _ _ HVs E)) as [V1 Ht].
  destruct target; try discriminate.
  - injection H as _ <-. exact I.
  - dbind H as [s2 i]. injection H as _ <-. exact I.
  - injection H as <- <-. exact Ht.
Qed.

(* the row history only hands out issued ids *)
Lemma find_nick_row_In rows table n d id :
  find_nick_row rows table n d = Some id -> exists r, In r rows /\ h_table r = table /\ h_id r = id.
Proof.
  induction rows as [|r rest IH]; cbn [find_nick_row]; [discriminate|].
  destruct (String.eqb (h_table r) table && _ && _) eqn:E.
  - intros H. injection H as <-. exists r. split; [left; reflexivity|].
    apply andb_true_iff in E. destruct E as [E _]. apply andb_true_iff in E. destruct E as [E _].
    apply String.eqb_eq in E. auto.
  - intros H. destruct (IH H) as (r0 & Hin & Ht & Hi). exists r0. split; [right; exact Hin|auto].
Qed.

Lemma get0_nonneg k l : (forall k' v, lookupZ k' l = Some v -> 0 <= v) -> 0 <= get0 k l.
Proof. intros H. unfold get0. destruct (lookupZ k l) eqn:E; [eapply H; exact E|lia]. Qed.

Lemma lookupZ_Some_In k v l : lookupZ k l = Some v -> In (k, v) l.
Proof.
  induction l as [|[k' v'] r IH]; cbn [lookupZ]; [discriminate|].
  destruct (String.eqb k k') eqn:E.
  - apply String.eqb_eq in E. subst k'. intros H. injection H as ->. left. reflexivity.
  - intros H. right. apply IH. exact H.
Qed.

Lemma In_assignZ k v l x : In x (assignZ k v l) -> x = (k, v) \/ In x l.
Proof.
  induction l as [|[k' v'] r IH]; cbn [assignZ].
  - intros [H|[]]. left. congruence.
  - destruct (String.eqb k k'); cbn [In]; intros [H|H]; auto.
    destruct (IH H); auto.
Qed.

Lemma get0_nonneg_In k l : (forall k' v, In (k', v) l -> 0 <= v) -> 0 <= get0 k l.
Proof. intros H. apply get0_nonneg. intros k' v Hv. apply (H k' v). apply lookupZ_Some_In. exact Hv. Qed.

Lemma random_reference_V e to s s' v : random_reference e to s = Ok (s', v) -> V s -> V s' /\ val_ok s' v.
Proof.
  unfold random_reference. intros H HVs.
  destruct (negb (rr_ok e)); [discriminate|].
  dbind H as [[[nick table] lo] hi].
  destruct (draws (rnd s)) as [|r rest]; [discriminate|].
  destruct ((0 <=? r) && (r <? hi - lo + 1)) eqn:Er; [|discriminate].
  dbind H as [t i]. injection H as <- <-.
  split; [apply V_rnd_draws; exact HVs|].
  cbn [val_ok]. change (last_id (upd_rnd s _) t) with (last_id s t).
  destruct HVs as (_ & _ & (H1 & H2 & H3 & H4 & H5)).
  unfold ref_range in E.
  destruct (lookupS to (n2t (hist (rnd s)))) as [t0|] eqn:En.
  - (* by nickname *)
    destruct (get0 to (nc (hist (rnd s))) =? 0); [discriminate|]. injection E as <- <- <- <-.
    cbn [resolve_draw] in E0. destruct (find_nick_row _ _ _ _) as [id|] eqn:Ef; [|discriminate].
    injection E0 as <- <-. destruct (find_nick_row_In _ _ _ _ _ Ef) as (r0 & Hin & Ht & Hi).
    specialize (H1 r0 Hin). rewrite Ht, Hi in H1. exact H1.
  - (* by table name *)
    destruct (lookupZ to (tc (hist (rnd s)))) as [m|] eqn:Em; [|discriminate].
    destruct (m =? 0); [discriminate|]. injection E as <- <- <- <-.
    cbn [resolve_draw] in E0. injection E0 as <- <-.
    specialize (H2 to m Em).
    pose proof (get0_nonneg to (lc (hist (rnd s))) H4) as Hg.
    destruct (m <? get0 to (lc (hist (rnd s))) + 1); lia.
Qed.

(* saving a row into the history *)
Lemma lookupZ_assignZ k k' v l : lookupZ k (assignZ k' v l) = if String.eqb k k' then Some v else lookupZ k l.
Proof.
  induction l as [|[k2 v2] r IH]; cbn [assignZ lookupZ]; [reflexivity|].
  destruct (String.eqb k' k2) eqn:E2; cbn [lookupZ].
  - apply String.eqb_eq in E2. subst k2. destruct (String.eqb k k'); reflexivity.
  - destruct (String.eqb k k2) eqn:E3; [|exact IH].
    apply String.eqb_eq in E3. subst k2. destruct (String.eqb k k') eqn:E4; [|reflexivity].
    apply String.eqb_eq in E4. subst k'. rewrite String.eqb_refl in E2. discriminate.
Qed.

Lemma save_row_ok last h t nick id :
  hist_ok_on last h -> 1 <= id <= last t -> hist_ok_on last (save_row h t nick id).
Proof.
  intros (H1 & H2 & H3 & H4 & H5) Hid. unfold hist_ok_on.
  destruct nick as [n|]; unfold save_row; cbn [hrows tc lc nc n2t].
  - pose proof (get0_nonneg_In n (nc h) H5) as Hg.
    splits.
    + intros r Hr. apply in_app_or in Hr. destruct Hr as [Hr|[<-|[]]]; [apply (H1 r Hr)|cbn; exact Hid].
    + intros name v. rewrite lookupZ_assignZ.
      destruct (String.eqb name t) eqn:E2; [apply String.eqb_eq in E2; subst name; intros Hv; injection Hv as <-; lia|].
      apply H2.
    + intros k v. rewrite lookupZ_assignZ. destruct (String.eqb k t); [intros Hv; injection Hv as <-; lia|]. apply H3.
    + exact H4.
    + intros k v Hin. apply In_assignZ in Hin. destruct Hin as [Heq|Hin]; [injection Heq as _ ->; lia|].
      apply (H5 k v Hin).
  - splits.
    + intros r Hr. apply in_app_or in Hr. destruct Hr as [Hr|[<-|[]]]; [apply (H1 r Hr)|cbn; exact Hid].
    + intros name v. rewrite lookupZ_assignZ.
      destruct (String.eqb name t) eqn:E2; [apply String.eqb_eq in E2; subst name; intros Hv; injection Hv as <-; lia|].
      apply H2.
    + intros k v. rewrite lookupZ_assignZ. destruct (String.eqb k t); [intros Hv; injection Hv as <-; lia|]. apply H3.
    + exact H4.
    + exact H5.
Qed.

Lemma remember_history_V e s t nick id s' :
  remember_history e s t nick id = Ok s' -> V s -> 1 <= id <= last_id s t -> V s'.
Proof.
  unfold remember_history. intros H HVs Hid.
  destruct (existsb (String.eqb t) (hist_tables e)); injection H as <-; [|exact HVs].
  destruct HVs as (Va & Vb & Hh).
  split; [exact Va|]. split; [exact Vb|].
  unfold hist_ok. cbn [rnd upd_rnd hist].
  change (last_id (upd_rnd s (mkR (save_row (hist (rnd s)) t nick id) (draws (rnd s))))) with (last_id s).
  apply save_row_ok; [exact Hh|exact Hid].
Qed.

Lemma reset_hist_V s : V s -> V (reset_hist s).
Proof.
  intros (Va & Vb & (H1 & H2 & H3 & H4 & H5)). unfold V, hist_ok, hist_ok_on, reset_hist, reset_locals.
  cbn [heap frames rnd upd_rnd hist hrows tc lc nc n2t]. splits; auto.
Qed.

(* state updates *)
Lemma In_set_nth {A} (l : list A) : forall i x y, In y (set_nth i x l) -> y = x \/ In y l.
Proof.
  induction l as [|z r IH]; intros i x y; destruct i; cbn [set_nth In]; try tauto.
  - intuition congruence.
  - intros [H|H]; [tauto|]. destruct (IH _ _ _ H); tauto.
Qed.

Lemma V_set_field s h n v : V s -> val_ok s v -> V (set_field s h n v).
Proof.
  intros (Va & Vb & Hh) Hv. unfold set_field. destruct (nth_error (heap s) h) as [c0|] eqn:Hc; [|split; auto].
  unfold V, hist_ok. cbn [heap frames rnd upd_heap]. split; [|split; [exact Vb|exact Hh]].
  intros c n' v' Hin Hf. change (val_ok s v'). apply In_set_nth in Hin. destruct Hin as [->|Hin].
  - cbn [c_fields] in Hf. apply In_assign in Hf. destruct Hf as [Heq|Hf]; [injection Heq as _ <-; exact Hv|].
    eapply (Va c0); [eapply nth_error_In; exact Hc|exact Hf].
  - eapply Va; eassumption.
Qed.

Lemma V_set_var s n v : V s -> val_ok s v -> V (set_var s n v).
Proof.
  intros (Va & Vb & Hh) Hv. unfold set_var. destruct (frames s) as [|f r] eqn:Ef; [split; [|split]; auto; try rewrite Ef; auto|].
  unfold V, hist_ok. cbn [heap frames rnd upd_frames]. split; [exact Va|split; [|exact Hh]].
  intros f' n' v' [<-|Hin] Hf; change (val_ok s v').
  - cbn [f_vars] in Hf. apply In_assign in Hf. destruct Hf as [Heq|Hf]; [injection Heq as _ <-; exact Hv|].
    eapply (Vb f); [try rewrite Ef; left; reflexivity|exact Hf].
  - eapply (Vb f'); [try rewrite Ef; right; exact Hin|exact Hf].
Qed.

Lemma V_set_obj s h : V s -> V (set_obj s h).
Proof.
  intros (Va & Vb & Hh). unfold set_obj. destruct (frames s) as [|f r] eqn:Ef; [split; [|split]; auto; try rewrite Ef; auto|].
  unfold V, hist_ok. cbn [heap frames rnd upd_frames]. split; [exact Va|split; [|exact Hh]].
  intros f' n' v' [<-|Hin] Hf; change (val_ok s v').
  - cbn [f_vars] in Hf. eapply (Vb f); [try rewrite Ef; left; reflexivity|exact Hf].
  - eapply (Vb f'); [try rewrite Ef; right; exact Hin|exact Hf].
Qed.

Lemma V_push_frame s : V s -> V (push_frame s).
Proof.
  intros (Va & Vb & Hh). unfold push_frame, V, hist_ok. cbn [heap frames rnd upd_frames].
  split; [exact Va|split; [|exact Hh]].
  intros f' n' v' [<-|Hin] Hf; change (val_ok s v'); [|eapply Vb; eassumption].
  cbn [f_vars] in Hf. unfold cur_frame in Hf. destruct (frames s) as [|f r] eqn:Ef; [destruct Hf|].
  eapply (Vb f); [try rewrite Ef; left; reflexivity|exact Hf].
Qed.

Lemma V_pop_frame s : V s -> V (pop_frame s).
Proof.
  intros (Va & Vb & Hh). unfold pop_frame. destruct (frames s) as [|f r] eqn:Ef; [split; [|split]; auto; try rewrite Ef; auto|].
  unfold V, hist_ok. cbn [heap frames rnd upd_frames]. split; [exact Va|split; [|exact Hh]].
  intros f' n' v' Hin Hf. change (val_ok s v'). eapply (Vb f'); [try rewrite Ef; right; exact Hin|exact Hf].
Qed.

Lemma V_new_cell s T id i : V s -> V (upd_heap s (heap s ++ [mkCell T id i []])).
Proof.
  intros (Va & Vb & Hh). unfold V, hist_ok. cbn [heap frames rnd upd_heap]. split; [|split; [exact Vb|exact Hh]].
  intros c n v Hin Hf. change (val_ok s v). apply in_app_or in Hin. destruct Hin as [Hin|[<-|[]]]; [|destruct Hf].
  eapply Va; eassumption.
Qed.

Lemma register_object_V s h t nick once : V s -> V (register_object s h t nick once).
Proof.
  apply V_transfer; try (unfold register_object; destruct nick, once; reflexivity).
  apply mono_ids. unfold register_object; destruct nick, once; reflexivity.
Qed.

Lemma remember_deps_same fs : forall s t,
  heap (remember_deps s t fs) = heap s /\ frames (remember_deps s t fs) = frames s /\
  rnd (remember_deps s t fs) = rnd s /\ ids (remember_deps s t fs) = ids s.
Proof.
  unfold remember_deps. induction fs as [|[n v] r IH]; intros s t; cbn [fold_left]; [auto|].
  destruct (IH (match target_table s v with
                | Some tgt => if existsb (dep_eqb (t, tgt, n)) (deps s) then s else upd_deps s (deps s ++ [(t, tgt, n)])
                | None => s end) t) as (a & b & c & d).
  rewrite a, b, c, d. destruct (target_table s v); [|auto]. destruct (existsb _ _); auto.
Qed.

Lemma remember_deps_V fs s t : V s -> V (remember_deps s t fs).
Proof.
  destruct (remember_deps_same fs s t) as (a & b & c & d).
  apply V_transfer; auto; [rewrite c; reflexivity|apply mono_ids; exact d].
Qed.

Lemma new_row_id_same s t nick :
  heap (fst (new_row_id s t nick)) = heap s /\ frames (fst (new_row_id s t nick)) = frames s /\
  rnd (fst (new_row_id s t nick)) = rnd s.
Proof.
  unfold new_row_id, consume_for, generate_id.
  destruct nick as [n|].
  - destruct (lookup n (slots s)) as [sl|]; [destruct (s_alloc sl); [destruct (_ && _)|]|];
      try (cbn; auto; fail);
      destruct (lookup t (slots s)) as [sl2|]; try (cbn; auto; fail);
      destruct (s_alloc sl2); try (cbn; auto; fail); destruct (_ && _); cbn; auto.
  - destruct (lookup t (slots s)) as [sl2|]; try (cbn; auto; fail);
      destruct (s_alloc sl2); try (cbn; auto; fail); destruct (_ && _); cbn; auto.
Qed.


(* flatten: the references it produces are bounded by the counters of the resulting state *)
Lemma flatten_fields_J fs : forall s s' l,
  flatten_fields s fs = Ok (s', l) -> J s -> (forall n v, In (n, v) fs -> val_ok s v) ->
  J s' /\ mono s s' /\ out s' = out s /\
  forall n T i, In (n, ORef T i) l -> 1 <= i <= last_id s' T.
Proof.
  induction fs as [|[n v] r IH]; intros s s' l H HJ Hvals; cbn [flatten_fields] in H.
  - injection H as <- <-. splits; [exact HJ|apply mono_refl|reflexivity|intros ? ? ? []].
  - destruct (hidden n); [apply (IH _ _ _ H HJ); intros n0 v0 Hin; apply (Hvals n0 v0); right; exact Hin|].
    dbind H as [s1 o]. dbind H as [s2 rest]. injection H as <- <-.
    pose proof (Hvals n v (or_introl eq_refl)) as Hv.
    assert (H1 : J s1 /\ mono s s1 /\ out s1 = out s /\
                 forall T i, o = ORef T i -> 1 <= i <= last_id s1 T).
    { destruct v; try discriminate; try (injection E as <- <-; splits; [exact HJ|apply mono_refl|reflexivity|discriminate]).
      - destruct (nth_error (heap s) h) as [c|] eqn:Hc; [|discriminate]. injection E as <- <-.
        splits; [exact HJ|apply mono_refl|reflexivity|].
        intros T i Hq. injection Hq as <- <-. destruct HJ as [(B1 & _) _].
        apply B1. eapply nth_error_In; eassumption.
      - destruct (lookup name (slots s)) as [sl|] eqn:Hl; [|discriminate]. dbind E as [s3 i].
        injection E as <- <-. destruct (touch_slot_J _ _ _ _ E1 HJ) as (J3 & M3 & sl' & Hl' & Hb).
        rewrite Hl in Hl'. injection Hl' as <-.
        splits; [exact J3|exact M3|apply (touch_slot_out _ _ _ _ E1)|].
        intros T i' Hq. injection Hq as <- <-. exact Hb.
      - injection E as <- <-. splits; [exact HJ|apply mono_refl|reflexivity|].
        intros T i' Hq. injection Hq as <- <-. exact Hv. }
    destruct H1 as (J1 & M1 & O1 & Hb1).
    assert (Hvals1 : forall n0 v0, In (n0, v0) r -> val_ok s1 v0).
    { intros n0 v0 Hin. eapply val_ok_mono; [exact M1|]. apply (Hvals n0 v0). right. exact Hin. }
    destruct (IH _ _ _ E0 J1 Hvals1) as (J2 & M2 & O2 & Hb2).
    splits; [exact J2|eapply mono_trans; eassumption|congruence|].
    intros n' T i [Heq|Hin].
    + injection Heq as _ Ho. specialize (Hb1 T i Ho). specialize (M2 T). lia.
    + eapply Hb2; eassumption.
Qed.

Lemma write_row_J s h s' : write_row s h = Ok s' -> J s -> V s -> J s' /\ mono s s'.
Proof.
  unfold write_row. destruct (nth_error (heap s) h) as [c|] eqn:Hc; [|discriminate].
  destruct (hidden (c_table c)); [intros H HJ _; injection H as <-; split; [exact HJ|apply mono_refl]|].
  intros H HJ HVs. dbind H as [s1 fs]. injection H as <-.
  assert (Hvals : forall n v, In (n, v) (c_fields c) -> val_ok s v).
  { intros n v Hin. destruct HVs as (Va & _). eapply (Va c); [eapply nth_error_In; exact Hc|exact Hin]. }
  destruct (flatten_fields_J _ _ _ _ E HJ Hvals) as ([B1 R1] & M1 & O1 & Hb).
  split; [|exact M1]. split; [exact B1|].
  unfold refs_bounded. intros row n T i Hr Hin. cbn [out upd_out] in Hr. destruct Hr as [<-|Hr].
  - cbn [snd] in Hin. destruct Hin as [Heq|Hin]; [discriminate|].
    change (last_id (upd_out s1 _) T) with (last_id s1 T). eapply Hb; eassumption.
  - change (last_id (upd_out s1 _) T) with (last_id s1 T). eapply R1; eassumption.
Qed.

(* creating a row *)
Lemma consume_for_J s n T s' i :
  consume_for s n T = Some (s', i) -> J s ->
  J s' /\ ids s' = ids s /\ heap s' = heap s /\ 1 <= i <= last_id s T.
Proof.
  intros Hc HJ. destruct (consume_for_spec _ _ _ _ _ Hc) as (sl & Hl & Ha & Hnc & Ht & ->).
  destruct HJ as [(B1 & B2 & B3) R].
  destruct (lookup_In _ _ _ Hl) as (k' & Hin). pose proof (B2 _ _ _ Hin Ha) as Hb. rewrite Ht in Hb.
  split; [|split; [reflexivity|split; [reflexivity|exact Hb]]].
  unfold J, Bd, refs_bounded. split; [splits|]; auto.
  intros n' sl' i' Hin' Ha'. cbn [slots upd_slots] in Hin'. apply In_assign in Hin'.
  destruct Hin' as [Heq|Hin'].
  - injection Heq as Hn Hsl. subst sl'. cbn [s_alloc s_table] in Ha' |- *.
    assert (Hi' : i' = i) by congruence. subst i'.
    change (last_id (upd_slots s _) (s_table sl)) with (last_id s (s_table sl)). rewrite Ht. exact Hb.
  - eapply B2; eauto.
Qed.

Lemma new_row_J s T nick s1 id idx fs :
  new_row_id s T nick = (s1, id) -> J s ->
  J (upd_heap s1 (heap s1 ++ [mkCell T id idx fs])) /\ mono s s1.
Proof.
  unfold new_row_id. intros H HJ.
  assert (Hadd : forall s', J s' -> 1 <= id <= last_id s' T ->
                 J (upd_heap s' (heap s' ++ [mkCell T id idx fs]))).
  { intros s' [(B1 & B2 & B3) R] Hb. unfold J, Bd, refs_bounded. split; [split; [|split]|].
    - intros c Hc. cbn [heap upd_heap] in Hc. apply in_app_or in Hc.
      destruct Hc as [Hc|[<-|[]]]; [apply (B1 c Hc)|exact Hb].
    - exact B2.
    - exact B3.
    - exact R. }
  destruct (match nick with Some n => consume_for s n T | None => None end) as [[s' i]|] eqn:E1.
  - injection H as <- <-. destruct nick as [n|]; [|discriminate].
    destruct (consume_for_J _ _ _ _ _ E1 HJ) as (J1 & Hi & Hh & Hb).
    split; [apply Hadd; [exact J1|unfold last_id in *; rewrite Hi; exact Hb]|apply mono_ids; exact Hi].
  - destruct (consume_for s T T) as [[s' i]|] eqn:E2.
    + injection H as <- <-. destruct (consume_for_J _ _ _ _ _ E2 HJ) as (J1 & Hi & Hh & Hb).
      split; [apply Hadd; [exact J1|unfold last_id in *; rewrite Hi; exact Hb]|apply mono_ids; exact Hi].
    + destruct (generate_id_J s T HJ) as (J1 & M1 & Hb).
      destruct (generate_id s T) as [s' i] eqn:Eg. injection H as <- <-. cbn [fst snd] in *.
      split; [apply Hadd; assumption|exact M1].
Qed.

Lemma set_field_keys s h n v c' :
  In c' (heap (set_field s h n v)) -> exists c, In c (heap s) /\ c_table c' = c_table c /\ c_id c' = c_id c.
Proof.
  unfold set_field. destruct (nth_error (heap s) h) as [c0|] eqn:E; [|intros H; exists c'; auto].
  cbn [heap upd_heap]. intros Hin. apply In_nth_error in Hin. destruct Hin as [j Hj].
  rewrite nth_error_set_nth in Hj. destruct (Nat.eqb h j) eqn:Ej.
  - apply Nat.eqb_eq in Ej. subst j. rewrite E in Hj. injection Hj as <-.
    exists c0. split; [eapply nth_error_In; eassumption|]. cbn. auto.
  - exists c'. split; [eapply nth_error_In; eassumption|auto].
Qed.

Lemma J_of_core k s s' : same_core k s s' -> out s' = out s -> heap s' = heap s -> J s -> J s'.
Proof. intros (a & b & _). intros. eapply J_same_heap; eassumption. Qed.

Lemma mono_core k s s' : same_core k s s' -> mono s s'.
Proof. intros (a & _). apply mono_ids. exact a. Qed.

Strategy 1000 [iteration run].

Theorem run_J fuel : forall e tk s s' r,
  run fuel e tk s = Ok (s', r) -> J s -> V s ->
  J s' /\ mono s s' /\ V s' /\ val_ok s' (ret_value r).
Proof.
  induction fuel as [|n IH]; intros e tk s s' r H HJ HV; [discriminate|].
  cbn [run] in H. destruct tk as [l c|x c|t|t i cnt last|t i|h fs|d].
  - destruct l as [|x l]; [injection H as <- <-; splits; [exact HJ|apply mono_refl|exact HV|exact I]|].
    dbind H as [s1 r1]. destruct (IH _ _ _ _ _ E HJ HV) as (J1 & M1 & V1 & _).
    destruct (IH _ _ _ _ _ H J1 V1) as (J2 & M2 & V2 & R2).
    splits; [exact J2|eapply mono_trans; eassumption|exact V2|exact R2].
  - destruct x as [t|name d].
    + destruct (t_once t && c); [injection H as <- <-; splits; [exact HJ|apply mono_refl|exact HV|exact I]|].
      dbind H as [s1 r1]. injection H as <- <-.
      destruct (IH _ _ _ _ _ E HJ HV) as (J1 & M1 & V1 & _). splits; auto. exact I.
    + assert (Hgen : forall s1 r1, run n e (TField d) (push_frame s) = Ok (s1, r1) ->
                       J (set_var (pop_frame s1) name (ret_value r1)) /\
                       mono s (set_var (pop_frame s1) name (ret_value r1)) /\
                       V (set_var (pop_frame s1) name (ret_value r1))).
      { intros s1 r1 E.
        assert (J0 : J (push_frame s)) by (eapply J_of_core; [apply (push_frame_core 0)|reflexivity|reflexivity|exact HJ]).
        destruct (IH _ _ _ _ _ E J0 (V_push_frame _ HV)) as (J1 & M1 & V1 & R1).
        assert (C1 : same_core 0 s1 (set_var (pop_frame s1) name (ret_value r1))).
        { eapply same_core_trans; [apply pop_frame_core|apply set_var_core]. }
        splits.
        - eapply J_of_core; [exact C1|rewrite set_var_out, pop_frame_out; reflexivity
                            |rewrite set_var_heap, pop_frame_heap; reflexivity|exact J1].
        - eapply mono_trans; [exact M1|]. eapply mono_core; exact C1.
        - apply V_set_var; [apply V_pop_frame; exact V1|].
          eapply val_ok_mono; [|exact R1]. eapply mono_core. apply (pop_frame_core 0). }
      destruct d; try discriminate;
        (dbind H as [s1 r1]; injection H as <- <-;
         destruct (Hgen _ _ eq_refl) as (a & b & c0); splits; [exact a|exact b|exact c0|exact I]).
  - dbind H as [s1 cnt]. dbind H as [s2 r2]. injection H as <- <-.
    assert (J0 : J (push_frame s)) by (eapply J_of_core; [apply (push_frame_core 0)|reflexivity|reflexivity|exact HJ]).
    assert (H1 : J s1 /\ mono s s1 /\ V s1).
    { destruct (t_count t) as [d|].
      - dbind E as [s1' r1]. dbind E as w0. injection E as <- _.
        destruct (IH _ _ _ _ _ E1 J0 (V_push_frame _ HV)) as (a & b & c0 & _). splits; [exact a|exact b|exact c0].
      - injection E as <- _. splits; [exact J0|eapply mono_core; apply (push_frame_core 0)|apply V_push_frame; exact HV]. }
    destruct H1 as (J1 & M1 & V1). destruct (IH _ _ _ _ _ E0 J1 V1) as (J2 & M2 & V2 & R2).
    assert (Mp : mono s2 (pop_frame s2)) by (eapply mono_core; apply (pop_frame_core 0)).
    splits.
    + eapply J_of_core; [apply (pop_frame_core 0)|apply pop_frame_out|apply pop_frame_heap|exact J2].
    + eapply mono_trans; [exact M1|]. eapply mono_trans; [exact M2|exact Mp].
    + apply V_pop_frame. exact V2.
    + eapply val_ok_mono; [exact Mp|exact R2].
  - destruct (i <? cnt); [|injection H as <- <-; splits; [exact HJ|apply mono_refl|exact HV|destruct last; exact I]].
    dbind H as [s1 r1].
    assert (J0 : J (set_var s "child_index" (VInt i))).
    { eapply J_of_core; [apply (set_var_core 0)|apply set_var_out|apply set_var_heap|exact HJ]. }
    assert (V0 : V (set_var s "child_index" (VInt i))) by (apply V_set_var; [exact HV|exact I]).
    destruct (IH _ _ _ _ _ E J0 V0) as (J1 & M1 & V1 & _).
    destruct r1; try discriminate. destruct (IH _ _ _ _ _ H J1 V1) as (J2 & M2 & V2 & R2).
    splits; [exact J2| |exact V2|exact R2]. eapply mono_trans; [|exact M2]. eapply mono_trans; [|exact M1].
    eapply mono_core. apply (set_var_core 0).
  - destruct (new_row_id s (t_table t) (t_nick t)) as [s1 id] eqn:Hid.
    dbind H as [s4 r4].
    destruct (nth_error (heap s4) (length (heap s1))) as [c|] eqn:Hc; [|discriminate].
    dbind H as s5h. dbind H as s6. dbind H as [s7 r7]. injection H as <- <-.
    destruct (new_row_J _ _ _ _ _ i [] Hid HJ) as [J2 M1].
    set (s2 := upd_heap s1 (heap s1 ++ [mkCell (t_table t) id i []])) in *.
    set (s3 := register_object (set_obj s2 (length (heap s1))) (length (heap s1)) (t_table t) (t_nick t) (t_once t)) in *.
    assert (C23 : same_core 0 s2 s3).
    { eapply same_core_trans; [apply set_obj_core|apply register_object_core]. }
    assert (J3 : J s3).
    { eapply J_of_core; [exact C23| | |exact J2]; unfold s3.
      - rewrite register_object_out, set_obj_out. reflexivity.
      - rewrite register_object_heap, set_obj_heap. reflexivity. }
    (* the id of the new cell is issued *)
    assert (Hidb : 1 <= id <= last_id s2 (t_table t)).
    { destruct J2 as [(B1 & _) _]. apply (B1 (mkCell (t_table t) id i [])).
      unfold s2. cbn [heap upd_heap]. apply in_or_app. right. left. reflexivity. }
    assert (V1 : V s1).
    { destruct (new_row_id_same s (t_table t) (t_nick t)) as (a & b & c0). rewrite Hid in a, b, c0. cbn [fst] in *.
      apply (V_transfer s s1); [exact a|exact b|rewrite c0; reflexivity|exact M1|exact HV]. }
    assert (V3 : V s3).
    { unfold s3. apply register_object_V. apply V_set_obj. unfold s2. apply V_new_cell. exact V1. }
    destruct (IH _ _ _ _ _ E J3 V3) as (J4 & M4 & V4 & _).
    assert (C45 : same_core 0 s4 (remember_deps s4 (t_table t) (c_fields c))) by apply remember_deps_core.
    assert (J5 : J (remember_deps s4 (t_table t) (c_fields c))).
    { eapply J_of_core; [exact C45|apply remember_deps_out|apply remember_deps_heap|exact J4]. }
    assert (V5 : V (remember_deps s4 (t_table t) (c_fields c))) by (apply remember_deps_V; exact V4).
    assert (M25 : mono s2 (remember_deps s4 (t_table t) (c_fields c))).
    { eapply mono_trans; [eapply mono_core; exact C23|]. eapply mono_trans; [exact M4|]. eapply mono_core; exact C45. }
    assert (Hidb5 : 1 <= id <= last_id (remember_deps s4 (t_table t) (c_fields c)) (t_table t)).
    { specialize (M25 (t_table t)). lia. }
    pose proof (remember_history_V _ _ _ _ _ _ E0 V5 Hidb5) as V5h.
    destruct (remember_history_rnd _ _ _ _ _ _ E0) as [xr Hxr].
    assert (J5h : J s5h) by (rewrite Hxr; exact J5).
    assert (M5h : mono (remember_deps s4 (t_table t) (c_fields c)) s5h) by (rewrite Hxr; apply mono_ids; reflexivity).
    destruct (write_row_J _ _ _ E1 J5h V5h) as [J6 M6].
    assert (V6 : V s6).
    { destruct (write_row_so _ _ _ E1) as (a & b & c0).
      apply (V_transfer s5h s6); [exact a|exact b|rewrite c0; reflexivity|exact M6|exact V5h]. }
    destruct (IH _ _ _ _ _ E2 J6 V6) as (J7 & M7 & V7 & _).
    splits; [exact J7| |exact V7|exact I].
    eapply mono_trans; [exact M1|]. eapply mono_trans; [|exact M7]. eapply mono_trans; [|exact M6].
    eapply mono_trans; [|exact M5h]. eapply mono_trans; [|exact M25]. apply mono_ids. reflexivity.
  - destruct fs as [|[name d] fs]; [injection H as <- <-; splits; [exact HJ|apply mono_refl|exact HV|exact I]|].
    destruct (String.eqb name "id"); [discriminate|].
    dbind H as [s1 v]. destruct (IH _ _ _ _ _ E HJ HV) as (J1 & M1 & V1 & R1).
    destruct (set_field_core 0 s1 h name (ret_value v)) as (Ci & Cs & _).
    assert (J1' : J (set_field s1 h name (ret_value v))).
    { eapply J_frame; [exact Ci|exact Cs|apply set_field_out| |exact J1].
      intros c' Hc'. eapply set_field_keys; eassumption. }
    assert (V1' : V (set_field s1 h name (ret_value v))) by (apply V_set_field; assumption).
    destruct (IH _ _ _ _ _ H J1' V1') as (J2 & M2 & V2 & R2). splits; [exact J2| |exact V2|exact R2].
    eapply mono_trans; [exact M1|]. eapply mono_trans; [|exact M2]. apply mono_ids. exact Ci.
  - destruct d as [z|x|ps|path|t|to].
    + injection H as <- <-. splits; [exact HJ|apply mono_refl|exact HV|exact I].
    + destruct (version e =? 3); [injection H as <- <-; splits; [exact HJ|apply mono_refl|exact HV|exact I]|].
      dbind H as w0. injection H as <- <-. splits; [exact HJ|apply mono_refl|exact HV|].
      apply not_ref_ok. eapply look_for_number_not_ref; exact E.
    + dbind H as [s1 v]. injection H as <- <-. destruct (render_formula_V _ _ _ _ _ E HV) as [V1 R1].
      apply render_formula_jq in E. destruct E as [a b]. splits; auto.
    + dbind H as [s1 v]. injection H as <- <-. destruct (reference_V _ _ _ _ _ E HV) as [V1 R1].
      apply reference_jq in E. destruct E as [a b]. splits; auto.
    + eapply IH; eassumption.
    + dbind H as [s1 v]. injection H as <- <-. destruct (random_reference_V _ _ _ _ _ E HV) as [V1 R1].
      destruct (random_reference_rnd _ _ _ _ _ E) as [xr ->].
      splits; [exact HJ|apply mono_ids; reflexivity|exact V1|exact R1].
Qed.

Lemma iteration_J e stmts c s s' : iteration e stmts c s = Ok s' -> J s -> V s -> J s' /\ mono s s' /\ V s'.
Proof.
  unfold iteration. intros H HJ HV. dbind H as [s1 r].
  destruct (slots_filled s1); [|discriminate].
  destruct (stale_slot 4 s1 (survivors s1)); [discriminate|]. injection H as <-.
  destruct (run_J _ _ _ _ _ _ E HJ HV) as ([(B1 & B2 & B3) R1] & M1 & V1 & _).
  assert (Jr : J (reset_slots e s1)).
  { unfold J, Bd, refs_bounded. split; [splits|]; auto.
    intros n sl i Hin Ha. cbn [slots reset_slots] in Hin. unfold fresh_slots in Hin.
    apply in_map_iff in Hin. destruct Hin as ([n' t'] & Heq & _). injection Heq as <- <-. discriminate. }
  splits; [exact Jr|exact M1|].
  apply reset_hist_V. apply (V_transfer s1 (reset_slots e s1)); try reflexivity; [apply mono_ids; reflexivity|exact V1].
Qed.

Lemma iterations_J k : forall e stmts c s s', iterations k e stmts c s = Ok s' -> J s -> V s -> J s' /\ mono s s' /\ V s'.
Proof.
  induction k as [|k IH]; intros e stmts c s s' H HJ HV; cbn [iterations] in H.
  - injection H as <-. splits; [exact HJ|apply mono_refl|exact HV].
  - dbind H as s1. destruct (iteration_J _ _ _ _ _ E HJ HV) as (J1 & M1 & V1).
    destruct (IH _ _ _ _ _ H J1 V1) as (J2 & M2 & V2). splits; [exact J2|eapply mono_trans; eassumption|exact V2].
Qed.

(* ------------------------------------------------------------------ no dangling references *)

Lemma written_In T o i : In i (written T o) -> exists r, In r o /\ fst r = T /\ orow_id r = [i].
Proof.
  unfold written. intros H. apply in_flat_map in H. destruct H as (r & Hr & Hi).
  destruct (String.eqb (fst r) T) eqn:E; [|destruct Hi]. apply String.eqb_eq in E.
  exists r. split; [exact Hr|]. split; [exact E|].
  unfold orow_id in *. destruct (snd r) as [|[n v] rest]; [destruct Hi|].
  destruct v; try (destruct Hi; fail). destruct Hi as [<-|[]]. reflexivity.
Qed.

(* One run from an admissible start state whose heap and slots hold only issued ids.  Every
   reference (T, i) in the output of the run, T visible, either names an id issued before
   the run started (a row of an earlier run) or is the id of a row written by this run. *)
Theorem no_dangling_run e stmts c k s0 s :
  start_ok s0 -> Bd s0 -> V s0 -> iterations k e stmts c s0 = Ok s ->
  forall row n T i, In row (out s) -> In (n, ORef T i) (snd row) -> hidden T = false ->
    (1 <= i <= last_id s0 T) \/ exists row', In row' (out s) /\ fst row' = T /\ orow_id row' = [i].
Proof.
  intros Hs0 HB HV0 H row n T i Hr Hin HT.
  assert (HJ0 : J s0).
  { split; [exact HB|]. destruct Hs0 as (_ & _ & _ & Ho). intros ? ? ? ? Hx. rewrite Ho in Hx. destruct Hx. }
  destruct (iterations_J _ _ _ _ _ _ H HJ0 HV0) as ([_ R] & _ & _).
  specialize (R row n T i Hr Hin).
  destruct (ids_dense_run _ _ _ _ _ _ Hs0 H) as [_ HD]. destruct (HD T) as [Hle HP]. specialize (HP HT).
  destruct (Z_le_dec i (last_id s0 T)) as [Hold|Hnew]; [left; lia|right].
  apply written_In. apply (Permutation_in _ (Permutation_sym HP)). apply Zseq_In. lia.
Qed.

Lemma init_Bd e dr : Bd (init_st e dr).
Proof.
  unfold Bd. cbn [init_st heap slots]. splits.
  - intros c [].
  - intros n sl i Hin Ha. unfold fresh_slots in Hin. apply in_map_iff in Hin.
    destruct Hin as ([n' t'] & Heq & _). injection Heq as <- <-. discriminate.
  - intros T. unfold last_id. cbn. lia.
Qed.

Lemma hist_ok_on_empty last names : hist_ok_on last (mkRh [] [] [] [] names []).
Proof. unfold hist_ok_on. cbn. splits; intros; try contradiction; discriminate. Qed.

Lemma lookupZ_lookup k l : lookupZ k l = lookup k l.
Proof. induction l as [|[k' v] r IH]; cbn [lookupZ lookup]; [reflexivity|]. rewrite IH. reflexivity. Qed.

Lemma rh_init_ok (last : string -> Z) ids0 names :
  (forall k, last k = match lookup k ids0 with Some z => z | None => 0 end) ->
  (forall k, 0 <= last k) ->
  hist_ok_on last (rh_init ids0 names).
Proof.
  intros Hl Hnn. unfold hist_ok_on, rh_init. cbn [hrows tc lc nc n2t]. splits.
  - intros r [].
  - intros name v Hv. rewrite lookupZ_lookup in Hv. rewrite Hl, Hv. lia.
  - intros k v Hv. rewrite lookupZ_lookup in Hv. specialize (Hnn k). rewrite Hl, Hv in Hnn. exact Hnn.
  - intros k v Hv. rewrite lookupZ_lookup in Hv. specialize (Hnn k). rewrite Hl, Hv in Hnn. exact Hnn.
  - intros k v [].
Qed.

Lemma init_V e dr : V (init_st e dr).
Proof.
  unfold V. cbn [init_st heap frames rnd hist]. splits.
  - intros c n v [].
  - intros f n v [<-|[]] Hin. destruct Hin.
  - unfold hist_ok. cbn [init_st rnd hist]. unfold init_hist. destruct (hist_tables e).
    + apply hist_ok_on_empty.
    + apply rh_init_ok; intros k; unfold last_id; cbn; [reflexivity|lia].
Qed.

(* Fresh run, any recipe of the fragment (random references included), any number of
   iterations: every reference written to a visible table resolves to a row of the same
   output.  (Taking k = 1, 2, ... shows that it resolves by the end of the iteration that
   wrote it.) *)
Theorem no_dangling_fresh r k s :
  run_fresh r k = Ok s ->
  forall row n T i, In row (out s) -> In (n, ORef T i) (snd row) -> hidden T = false ->
    exists row', In row' (out s) /\ fst row' = T /\ orow_id row' = [i].
Proof.
  unfold run_fresh. intros H row n T i Hr Hin HT.
  destruct (no_dangling_run _ _ _ _ _ _ (init_start_ok _ _) (init_Bd _ _) (init_V _ _) H row n T i Hr Hin HT) as [Hold|Hnew];
    [|exact Hnew].
  unfold last_id in Hold. cbn in Hold. lia.
Qed.

(* a forward reference that is never fulfilled makes the iteration fail *)
Theorem unfulfilled_forward_reference_fails e stmts c s s1 r :
  run fuel0 e (TStmts stmts c) s = Ok (s1, r) -> slots_filled s1 = false ->
  iteration e stmts c s = Err (DGE "references-not-fulfilled").
Proof. unfold iteration. intros -> H. cbn [bind]. rewrite H. reflexivity. Qed.

(* ------------------------------------------------------------------ continued runs *)

Lemma saved_fields_incl fs : forall fs', saved_fields fs = Ok fs' -> incl fs' fs.
Proof.
  induction fs as [|[n v] r IH]; intros fs' H; cbn [saved_fields] in H.
  - injection H as <-. apply incl_refl.
  - dbind H as rest. specialize (IH _ eq_refl).
    destruct v; try discriminate; try (injection H as <-; apply incl_cons; [left; reflexivity|apply incl_tl; exact IH]).
    injection H as <-. apply incl_tl. exact IH.
Qed.

Lemma clean_handles_keys hs : forall h h1, clean_handles h hs = Ok h1 ->
  forall c', In c' h1 -> exists c, In c h /\ c_table c' = c_table c /\ c_id c' = c_id c /\
                                   incl (c_fields c') (c_fields c).
Proof.
  induction hs as [|x r IH]; intros h h1 H c' Hin; cbn [clean_handles] in H.
  - injection H as <-. exists c'. splits; auto. apply incl_refl.
  - destruct (nth_error h x) as [c|] eqn:Hc; [|discriminate].
    dbind H as fs. destruct (IH _ _ H c' Hin) as (c1 & Hc1 & Ht & Hi & Hf).
    apply In_nth_error in Hc1. destruct Hc1 as [j Hj]. rewrite nth_error_set_nth in Hj.
    destruct (Nat.eqb x j) eqn:Ej.
    + apply Nat.eqb_eq in Ej. subst j. rewrite Hc in Hj. injection Hj as <-.
      exists c. split; [eapply nth_error_In; eassumption|]. cbn [c_table c_id c_fields] in *. splits; auto.
      eapply incl_tran; [exact Hf|]. apply saved_fields_incl. exact E.
    + exists c1. split; [eapply nth_error_In; eassumption|auto].
Qed.

Lemma load_Bd e s c s0 : Bd s -> save s = Ok c -> load e c = Ok s0 -> Bd s0.
Proof.
  intros (B1 & B2 & B3) H Hl. destruct (load_spec _ _ _ Hl) as [h ->].
  unfold save in H. dbind H as h1. injection H as <-.
  unfold Bd. cbn [heap slots k_heap k_ids]. splits.
  - intros c' Hc'. unfold last_id. cbn [ids k_ids].
    destruct (clean_handles_keys _ _ _ E _ Hc') as (c0 & Hc0 & Ht & Hi & _). rewrite Ht, Hi. apply B1. exact Hc0.
  - intros n sl i Hin Ha. unfold fresh_slots in Hin. apply in_map_iff in Hin.
    destruct Hin as ([n' t'] & Heq & _). injection Heq as <- <-. discriminate.
  - intros T. apply B3.
Qed.

Lemma J_Bd s : J s -> Bd s.
Proof. intros [B _]. exact B. Qed.

(* re-saving the persistent rows keeps the history within the counters *)
Lemma save_row_n2t h t nick id : n2t (save_row h t nick id) = n2t h.
Proof. unfold save_row. destruct nick; reflexivity. Qed.

Lemma fold_save_rows_ok last (rows : list (string * option string * Z)) : forall h,
  hist_ok_on last h ->
  (forall r, In r rows -> 1 <= snd r <= last (fst (fst r))) ->
  hist_ok_on last (fold_left (fun h r => save_row h (fst (fst r)) (snd (fst r)) (snd r)) rows h).
Proof.
  induction rows as [|r rest IH]; intros h Hh Hr; cbn [fold_left]; [exact Hh|].
  apply IH; [apply save_row_ok; [exact Hh|apply Hr; left; reflexivity]|].
  intros r' Hin. apply Hr. right. exact Hin.
Qed.

Lemma fold_assignZ_nonneg (l : list (string * Z)) : forall acc,
  (forall k v, lookupZ k acc = Some v -> 0 <= v) -> (forall k v, In (k, v) l -> 0 <= v) ->
  forall k v, lookupZ k (fold_left (fun a nv => assignZ (fst nv) (snd nv) a) l acc) = Some v -> 0 <= v.
Proof.
  induction l as [|[k0 v0] r IH]; intros acc Ha Hl; cbn [fold_left]; [exact Ha|].
  apply IH; [|intros k v Hin; apply (Hl k v); right; exact Hin].
  intros k v. cbn [fst snd]. rewrite lookupZ_assignZ. destruct (String.eqb k k0); [|apply Ha].
  intros Hv. injection Hv as <-. apply (Hl k0 v0). left. reflexivity.
Qed.

Lemma lookupZ_In k v l : In (k, v) l -> exists v', lookupZ k l = Some v'.
Proof.
  induction l as [|[k' v'] r IH]; [intros []|]. cbn [In lookupZ]. intros [Heq|Hin].
  - injection Heq as -> ->. rewrite String.eqb_refl. eexists. reflexivity.
  - destruct (String.eqb k k'); [eexists; reflexivity|apply IH; exact Hin].
Qed.

Lemma resave_ok e c h0 h (last : string -> Z) :
  resave e c h0 = Ok h -> hist_ok_on last h0 ->
  (forall cl, In cl (k_heap c) -> 1 <= c_id cl <= last (c_table cl)) ->
  hist_ok_on last h.
Proof.
  unfold resave. intros H Hh Hcells.
  match type of H with (do nick_rows <- ?X; _) = _ => destruct X as [nick_rows|] eqn:En; cbn [bind] in H; [|discriminate] end.
  match type of H with (do table_rows <- ?X; _) = _ => destruct X as [table_rows|] eqn:Et; cbn [bind] in H; [|discriminate] end.
  (* every row comes from a cell of the loaded heap *)
  assert (Hn : forall r, In r nick_rows -> 1 <= snd r <= last (fst (fst r))).
  { clear H Et. revert nick_rows En. induction (sort_by_key (k_p_nicks c)) as [|[n x] l IH]; intros rows En.
    - injection En as <-. intros r [].
    - destruct (nth_error (k_heap c) x) as [cl|] eqn:Hc; [|discriminate].
      match type of En with (do rest <- ?X; _) = _ => destruct X as [rest|] eqn:Er; cbn [bind] in En; [|discriminate] end.
      injection En as <-. intros r [<-|Hin]; [cbn; apply Hcells; eapply nth_error_In; exact Hc|].
      eapply IH; [reflexivity|exact Hin]. }
  assert (Ht : forall r, In r table_rows -> 1 <= snd r <= last (fst (fst r))).
  { clear H En Hn. revert table_rows Et. induction (sort_by_key (k_p_tables c)) as [|[t x] l IH]; intros rows Et.
    - injection Et as <-. intros r [].
    - destruct (nth_error (k_heap c) x) as [cl|] eqn:Hc; [|discriminate].
      destruct (String.eqb t (c_table cl)) eqn:Eq; [|discriminate]. apply String.eqb_eq in Eq.
      match type of Et with (do rest <- ?X; _) = _ => destruct X as [rest|] eqn:Er; cbn [bind] in Et; [|discriminate] end.
      injection Et as <-. intros r [<-|Hin]; [cbn; rewrite Eq; apply Hcells; eapply nth_error_In; exact Hc|].
      eapply IH; [reflexivity|exact Hin]. }
  set (rows := filter _ (nick_rows ++ filter _ table_rows)) in H.
  injection H as <-.
  assert (Hrows : forall r, In r rows -> 1 <= snd r <= last (fst (fst r))).
  { intros r Hin. unfold rows in Hin. apply filter_In in Hin. destruct Hin as [Hin _]. apply in_app_or in Hin.
    destruct Hin as [Hin|Hin]; [apply Hn; exact Hin|]. apply filter_In in Hin. apply Ht. apply Hin. }
  pose proof (fold_save_rows_ok last rows h0 Hh Hrows) as (H1 & H2 & H3 & H4 & H5).
  unfold hist_ok_on. cbn [hrows tc lc nc n2t]. splits; auto.
Qed.

Lemma load_V e s c s0 : V s -> Bd s -> save s = Ok c -> load e c = Ok s0 -> V s0.
Proof.
  intros (Va & Vb & Hh) HB Hs Hl.
  pose proof (load_Bd _ _ _ _ HB Hs Hl) as (B1' & _ & B3').
  destruct HB as (B1 & B2 & B3).
  unfold load in Hl. dbind Hl as h. injection Hl as <-.
  unfold save in Hs. dbind Hs as h1. injection Hs as <-.
  cbn [k_ids k_heap k_p_nicks k_p_tables k_deps k_draws] in *.
  unfold V. cbn [heap frames rnd hist]. splits.
  - intros c' n v Hc' Hf.
    destruct (clean_handles_keys _ _ _ E0 _ Hc') as (c0 & Hc0 & _ & _ & Hincl).
    change (val_ok s v). eapply (Va c0); [exact Hc0|apply Hincl; exact Hf].
  - intros f n v [<-|[]] Hin. destruct Hin.
  - unfold hist_ok. cbn [rnd hist].
    match goal with |- hist_ok_on ?L _ => set (last := L) in * end.
    assert (Hinit : hist_ok_on last (init_hist e (ids s))).
    { unfold init_hist. destruct (hist_tables e); [apply hist_ok_on_empty|].
      apply rh_init_ok; [intros k0; reflexivity|intros k0; apply B3]. }
    destruct (hist_tables e) eqn:Eh.
    + injection E as <-. unfold init_hist. rewrite Eh. apply hist_ok_on_empty.
    + eapply resave_ok; [exact E|unfold init_hist in *; rewrite Eh in *; exact Hinit|].
      intros cl Hcl. apply (B1' cl Hcl).
Qed.

(* A continued run: every reference it writes — forward, backward, nested or random —
   resolves to a row written by this run or names an id issued by an earlier run (recorded in
   the continuation file it started from). *)
Theorem no_dangling_continued r k s c s' :
  Bd s -> V s -> save s = Ok c ->
  run_one r k (Some c) = Ok s' ->
  forall row n T i, In row (out s') -> In (n, ORef T i) (snd row) -> hidden T = false ->
    (1 <= i <= last_id s T) \/ exists row', In row' (out s') /\ fst row' = T /\ orow_id row' = [i].
Proof.
  intros HB HVs Hs H row n T i Hr Hin HT. cbn [run_one] in H. dbind H as s0.
  assert (Hnn : forall U, 0 <= match lookup U (k_ids c) with Some z => z | None => 0 end).
  { intros U. rewrite (save_ids _ _ Hs). destruct HB as (_ & _ & B3). apply B3. }
  pose proof (no_dangling_run _ _ _ _ _ _ (load_start_ok _ _ _ E Hnn) (load_Bd _ _ _ _ HB Hs E)
                (load_V _ _ _ _ HVs HB Hs E) H row n T i Hr Hin HT) as R.
  rewrite (resume_after_highest _ _ _ _ _ Hs E) in R. exact R.
Qed.
